//! C20 support: a *storing* fake Redis, a connection factory that routes backend connections to
//! the fake Redis instances and peer connections to the other proxy's real `ForwardHandler`, and
//! the mapping between real zstd frames and the model's toy frames.
use futures::channel::mpsc;
use futures::{future, Future, SinkExt, StreamExt, TryStreamExt};
use std::collections::{BTreeMap, HashMap};
use std::net::SocketAddr;
use std::pin::Pin;
use std::sync::atomic::AtomicBool;
use std::sync::{Arc, Mutex};
use undermoon::protocol::{
    Array, BinSafeStr, BulkStr, DecodedPacket, OptionalMulti, RedisClient, RedisClientError,
    RedisClientFactory, Resp, RespPacket, RespVec,
};
use undermoon::proxy::backend::{BackendError, ConnFactory, ConnSink, ConnStream, CreateConnResult};
use undermoon::proxy::command::{new_command_pair, Command};
use undermoon::proxy::session::{CmdCtx, CmdCtxHandler};

pub const TOY_MAGIC: [u8; 4] = [255, 90, 84, 1];

/// real bytes -> the model's bytes: every (nested) valid zstd frame becomes `TOY_MAGIC ++ payload`
pub fn real_to_toy(b: &[u8]) -> Vec<u8> {
    if b.is_empty() {
        return vec![];
    }
    match zstd::decode_all(b) {
        Ok(d) => {
            let mut v = TOY_MAGIC.to_vec();
            v.extend(real_to_toy(&d));
            v
        }
        Err(_) => b.to_vec(),
    }
}

/// the model's bytes -> real bytes (inverse of `real_to_toy` on its image)
pub fn toy_to_real(b: &[u8]) -> Vec<u8> {
    if b.len() >= 4 && b[..4] == TOY_MAGIC {
        zstd::encode_all(toy_to_real(&b[4..]).as_slice(), 1).expect("zstd encode")
    } else {
        b.to_vec()
    }
}

pub fn is_real_decodable(b: &[u8]) -> bool {
    !b.is_empty() && zstd::decode_all(b).is_ok()
}

// ---------------------------------------------------------------------------------------------
// RESP helpers
// ---------------------------------------------------------------------------------------------

pub fn bulk(b: &[u8]) -> RespVec {
    Resp::Bulk(BulkStr::Str(b.to_vec()))
}

pub fn cmd_resp(args: &[Vec<u8>]) -> RespVec {
    Resp::Arr(Array::Arr(args.iter().map(|a| bulk(a)).collect()))
}

pub fn encode_resp(r: &RespVec, out: &mut Vec<u8>) {
    match r {
        Resp::Simple(s) => {
            out.push(b'+');
            out.extend_from_slice(s);
            out.extend_from_slice(b"\r\n");
        }
        Resp::Error(s) => {
            out.push(b'-');
            out.extend_from_slice(s);
            out.extend_from_slice(b"\r\n");
        }
        Resp::Integer(s) => {
            out.push(b':');
            out.extend_from_slice(s);
            out.extend_from_slice(b"\r\n");
        }
        Resp::Bulk(BulkStr::Nil) => out.extend_from_slice(b"$-1\r\n"),
        Resp::Bulk(BulkStr::Str(s)) => {
            out.extend_from_slice(format!("${}\r\n", s.len()).as_bytes());
            out.extend_from_slice(s);
            out.extend_from_slice(b"\r\n");
        }
        Resp::Arr(Array::Nil) => out.extend_from_slice(b"*-1\r\n"),
        Resp::Arr(Array::Arr(a)) => {
            out.extend_from_slice(format!("*{}\r\n", a.len()).as_bytes());
            for x in a {
                encode_resp(x, out);
            }
        }
    }
}

/// a packet as the proxy's decoder would produce it (`RespPacket::Indexed`) or as internal code
/// builds it (`RespPacket::Data`). Line-type payloads containing CR/LF cannot travel on the wire,
/// they stay `Data`.
pub fn make_packet(r: RespVec, indexed: bool) -> RespPacket {
    fn wire_safe(r: &RespVec) -> bool {
        match r {
            Resp::Simple(s) | Resp::Error(s) | Resp::Integer(s) => !s.iter().any(|b| *b == b'\r' || *b == b'\n'),
            Resp::Bulk(_) => true,
            Resp::Arr(Array::Nil) => true,
            Resp::Arr(Array::Arr(a)) => a.iter().all(wire_safe),
        }
    }
    if indexed && wire_safe(&r) {
        let mut buf = Vec::new();
        encode_resp(&r, &mut buf);
        let mut bm = bytes::BytesMut::from(buf.as_slice());
        if let Ok(Some(p)) = <RespPacket as DecodedPacket>::decode(&mut bm, ()) {
            if bm.is_empty() {
                return p;
            }
        }
    }
    RespPacket::Data(r)
}

/// the driver's reply syntax, every byte string mapped through `f`
pub fn show_resp(r: &RespVec, f: &dyn Fn(&[u8]) -> Vec<u8>) -> String {
    use crate::util::hex;
    match r {
        Resp::Simple(s) => format!("S:{}", hex(&f(s))),
        Resp::Error(s) => format!("E:{}", hex(&f(s))),
        Resp::Integer(s) => format!("I:{}", hex(&f(s))),
        Resp::Bulk(BulkStr::Nil) => "N".to_string(),
        Resp::Bulk(BulkStr::Str(s)) => format!("B:{}", hex(&f(s))),
        Resp::Arr(Array::Nil) => "Z".to_string(),
        Resp::Arr(Array::Arr(a)) => {
            format!("A[{}]", a.iter().map(|x| show_resp(x, f)).collect::<Vec<_>>().join(";"))
        }
    }
}

pub fn parse_resp(s: &str, f: &dyn Fn(&[u8]) -> Vec<u8>) -> Option<RespVec> {
    use crate::util::unhex;
    if s == "N" {
        return Some(Resp::Bulk(BulkStr::Nil));
    }
    if s == "Z" {
        return Some(Resp::Arr(Array::Nil));
    }
    if let Some(inner) = s.strip_prefix("A[").and_then(|t| t.strip_suffix(']')) {
        if inner.is_empty() {
            return Some(Resp::Arr(Array::Arr(vec![])));
        }
        let mut parts = vec![];
        let (mut depth, mut cur) = (0i32, String::new());
        for c in inner.chars() {
            match c {
                '[' => {
                    depth += 1;
                    cur.push(c)
                }
                ']' => {
                    depth -= 1;
                    cur.push(c)
                }
                ';' if depth == 0 => parts.push(std::mem::take(&mut cur)),
                _ => cur.push(c),
            }
        }
        parts.push(cur);
        let mut v = vec![];
        for p in parts {
            v.push(parse_resp(&p, f)?);
        }
        return Some(Resp::Arr(Array::Arr(v)));
    }
    let (tag, body) = (s.get(..2)?, s.get(2..)?);
    let b = f(&unhex(body)?);
    match tag {
        "S:" => Some(Resp::Simple(b)),
        "E:" => Some(Resp::Error(b)),
        "I:" => Some(Resp::Integer(b)),
        "B:" => Some(bulk(&b)),
        _ => None,
    }
}

// ---------------------------------------------------------------------------------------------
// the storing fake Redis (string keys only) — same semantics as `redisExec` of the Lean model
// ---------------------------------------------------------------------------------------------

#[derive(Default)]
pub struct FakeRedisState {
    pub store: BTreeMap<Vec<u8>, Vec<u8>>,
    /// every command received, in arrival order
    pub log: Vec<Vec<Vec<u8>>>,
    /// (key, stored bytes) of every write applied
    pub applied: Vec<(Vec<u8>, Vec<u8>)>,
}

pub struct FakeRedis {
    pub id: usize,
    pub state: Mutex<FakeRedisState>,
}

fn int(n: usize) -> RespVec {
    Resp::Integer(n.to_string().into_bytes())
}
fn ok() -> RespVec {
    Resp::Simple(b"OK".to_vec())
}
fn arity_err() -> RespVec {
    Resp::Error(b"ERR wrong number of arguments".to_vec())
}
fn bulk_or_nil(v: Option<&Vec<u8>>) -> RespVec {
    match v {
        Some(v) => bulk(v),
        None => Resp::Bulk(BulkStr::Nil),
    }
}

impl FakeRedis {
    pub fn new(id: usize) -> Self {
        Self { id, state: Mutex::new(FakeRedisState::default()) }
    }

    pub fn exec(&self, cmd: Vec<Vec<u8>>) -> RespVec {
        let mut st = self.state.lock().expect("lock");
        st.log.push(cmd.clone());
        let name = match cmd.first() {
            Some(n) => n.to_ascii_uppercase(),
            None => return arity_err(),
        };
        let a = |i: usize| cmd.get(i);
        fn put(st: &mut FakeRedisState, k: &[u8], v: &[u8]) {
            st.store.insert(k.to_vec(), v.to_vec());
            st.applied.push((k.to_vec(), v.to_vec()));
        }
        match name.as_slice() {
            b"SET" => match (a(1), a(2)) {
                (Some(k), Some(v)) => {
                    let opts = &cmd[3..];
                    let nx = opts.iter().any(|o| o.eq_ignore_ascii_case(b"NX"));
                    let xx = opts.iter().any(|o| o.eq_ignore_ascii_case(b"XX"));
                    let exists = st.store.contains_key(k);
                    if (nx && exists) || (xx && !exists) {
                        Resp::Bulk(BulkStr::Nil)
                    } else {
                        put(&mut st, k, v);
                        ok()
                    }
                }
                _ => arity_err(),
            },
            b"SETEX" | b"PSETEX" => match (a(1), a(2), a(3)) {
                (Some(k), Some(_), Some(v)) => {
                    put(&mut st, k, v);
                    ok()
                }
                _ => arity_err(),
            },
            b"SETNX" => match (a(1), a(2)) {
                (Some(k), Some(v)) => {
                    if st.store.contains_key(k) {
                        int(0)
                    } else {
                        put(&mut st, k, v);
                        int(1)
                    }
                }
                _ => arity_err(),
            },
            b"GETSET" => match (a(1), a(2)) {
                (Some(k), Some(v)) => {
                    let old = bulk_or_nil(st.store.get(k));
                    put(&mut st, k, v);
                    old
                }
                _ => arity_err(),
            },
            b"GET" => match a(1) {
                Some(k) => bulk_or_nil(st.store.get(k)),
                None => arity_err(),
            },
            b"MGET" => Resp::Arr(Array::Arr(cmd[1..].iter().map(|k| bulk_or_nil(st.store.get(k))).collect())),
            b"MSET" | b"MSETNX" => {
                let rest = &cmd[1..];
                if rest.len() % 2 == 1 || rest.is_empty() {
                    return arity_err();
                }
                if name.as_slice() == b"MSETNX" && rest.chunks(2).any(|kv| st.store.contains_key(&kv[0])) {
                    return int(0);
                }
                for kv in rest.chunks(2) {
                    put(&mut st, &kv[0], &kv[1]);
                }
                if name.as_slice() == b"MSET" {
                    ok()
                } else {
                    int(1)
                }
            }
            b"DEL" => match a(1) {
                Some(k) => int(st.store.remove(k).is_some() as usize),
                None => arity_err(),
            },
            b"EXISTS" => match a(1) {
                Some(k) => int(st.store.contains_key(k) as usize),
                None => arity_err(),
            },
            // stand-ins for the string commands that look inside a value: existence only
            b"APPEND" => match (a(1), a(2)) {
                (Some(k), Some(_)) => int(st.store.contains_key(k) as usize),
                _ => arity_err(),
            },
            b"STRLEN" => match a(1) {
                Some(k) => int(st.store.contains_key(k) as usize),
                None => arity_err(),
            },
            // every other command name the proxy classifies (DataCmdType != Others) and that this
            // stand-in does not implement answers like a wrong-arity call
            n if KNOWN_DATA_CMDS.contains(&std::str::from_utf8(n).unwrap_or("")) => arity_err(),
            _ => match (a(1), a(2), a(3)) {
                (Some(_), Some(kind), Some(payload)) => {
                    if name.as_slice() == b"XECHO" {
                        xecho(kind, payload)
                    } else {
                        Resp::Error(b"ERR unknown command".to_vec())
                    }
                }
                _ => arity_err(),
            },
        }
    }
}

pub fn xecho(kind: &[u8], payload: &[u8]) -> RespVec {
    let p = payload.to_vec();
    match kind {
        b"int" => Resp::Integer(p),
        b"simple" => Resp::Simple(p),
        b"err" => Resp::Error(p),
        b"bulk" => bulk(&p),
        b"nil" => Resp::Bulk(BulkStr::Nil),
        b"arr" => Resp::Arr(Array::Arr(vec![
            bulk(&p),
            Resp::Integer(p.clone()),
            Resp::Bulk(BulkStr::Nil),
            Resp::Arr(Array::Arr(vec![bulk(&p)])),
        ])),
        _ => Resp::Arr(Array::Nil),
    }
}

/// names the proxy maps to a `DataCmdType` other than `Others` (used by the generators and by the
/// fake Redis' "known but not implemented" answer); the correspondence check fails if this list
/// and the generated table disagree on any generated name.
pub const KNOWN_DATA_CMDS: &[&str] = &[
    "APPEND", "BITCOUNT", "BITFIELD", "BITOP", "BITPOS", "DECR", "DECRBY", "GET", "GETBIT", "GETRANGE", "GETSET",
    "INCR", "INCRBY", "INCRBYFLOAT", "MGET", "MSET", "MSETNX", "PSETEX", "SET", "SETBIT", "SETEX", "SETNX",
    "SETRANGE", "STRLEN", "EVAL", "EVALSHA", "DEL", "EXISTS", "BLPOP", "BRPOP", "BRPOPLPUSH", "EXPIRE", "EXPIREAT",
    "PEXPIRE", "PEXPIREAT", "HDEL", "LPOP", "RPOP", "RPOPLPUSH", "LREM", "LTRIM", "MOVE", "RENAME", "RENAMENX",
    "SMOVE", "SPOP", "SREM", "UNLINK", "ZPOPMAX", "ZPOPMIN", "BZPOPMAX", "BZPOPMIN", "ZREM", "ZREMRANGEBYLEX",
    "ZREMRANGEBYRANK", "ZREMRANGEBYSCORE",
];

// ---------------------------------------------------------------------------------------------
// connection factory: backend ports -> fake Redis, proxy ports -> the peer's real handler
// ---------------------------------------------------------------------------------------------

pub type PeerFn = Arc<dyn Fn(RespPacket) -> Pin<Box<dyn Future<Output = RespPacket> + Send>> + Send + Sync>;

#[derive(Default)]
pub struct Registry {
    pub redis: Mutex<HashMap<u16, Arc<FakeRedis>>>,
    pub peers: Mutex<HashMap<u16, PeerFn>>,
    /// whether replies of the fake Redis are delivered as `Indexed` packets (as from a socket)
    pub indexed_replies: AtomicBool,
}

pub struct ClusterConnFactory {
    pub registry: Arc<Registry>,
}

fn packet_args(p: &RespPacket) -> Vec<Vec<u8>> {
    match p.to_resp_vec() {
        Resp::Arr(Array::Arr(rs)) => rs
            .into_iter()
            .map(|r| match r {
                Resp::Bulk(BulkStr::Str(s)) => s,
                _ => b"<non-bulk>".to_vec(),
            })
            .collect(),
        _ => vec![b"<non-array>".to_vec()],
    }
}

impl ConnFactory for ClusterConnFactory {
    type Pkt = RespPacket;

    fn create_conn(&self, addr: SocketAddr) -> Pin<Box<dyn Future<Output = CreateConnResult<Self::Pkt>> + Send>> {
        let port = addr.port();
        let (sender, receiver) = mpsc::unbounded::<RespPacket>();
        let sink: ConnSink<RespPacket> = Box::pin(sender.sink_map_err(|_| BackendError::Canceled));
        let registry = self.registry.clone();
        let redis = registry.redis.lock().expect("lock").get(&port).cloned();
        if let Some(redis) = redis {
            let stream = receiver.map(move |packet: RespPacket| {
                let reply = redis.exec(packet_args(&packet));
                let indexed = registry.indexed_replies.load(std::sync::atomic::Ordering::SeqCst);
                Ok::<_, ()>(make_packet(reply, indexed))
            });
            let stream: ConnStream<RespPacket> = Box::pin(stream.map_err(|_| BackendError::Canceled));
            return Box::pin(async { Ok((sink, stream)) });
        }
        // a peer proxy: requests are handled one after another by its real ForwardHandler
        let stream = receiver.then(move |packet: RespPacket| {
            let peer = registry.peers.lock().expect("lock").get(&port).cloned();
            async move {
                match peer {
                    Some(f) => Ok::<_, ()>(f(packet).await),
                    None => Ok(RespPacket::Data(Resp::Error(b"<no such peer>".to_vec()))),
                }
            }
        });
        let stream: ConnStream<RespPacket> = Box::pin(stream.map_err(|_| BackendError::Canceled));
        Box::pin(async { Ok((sink, stream)) })
    }
}

/// run one request packet through a handler the way `Session::handle_cmd` does
pub async fn run_through_handler<H: CmdCtxHandler>(handler: &H, packet: RespPacket, session_id: usize) -> RespVec {
    let cmd = Command::new(Box::new(packet));
    let (s, r) = new_command_pair(&cmd);
    let cmd_ctx = CmdCtx::new(cmd, s, session_id, false);
    let authenticated = AtomicBool::new(false);
    match handler.handle_cmd_ctx(cmd_ctx, r, &authenticated).await {
        Ok(reply) => reply.into_resp_vec(),
        Err(e) => Resp::Error(format!("Err cmd error {:?}", e).into_bytes()),
    }
}

// ---------------------------------------------------------------------------------------------
// a RedisClientFactory that is never expected to be used (no replication/migration here)
// ---------------------------------------------------------------------------------------------

pub struct NullRedisClient;

impl RedisClient for NullRedisClient {
    fn execute<'s>(
        &'s mut self,
        command: OptionalMulti<Vec<BinSafeStr>>,
    ) -> Pin<Box<dyn Future<Output = Result<OptionalMulti<RespVec>, RedisClientError>> + Send + 's>> {
        let res = command.map(|_| Resp::Error(b"<null client>".to_vec()));
        Box::pin(async { Ok(res) })
    }
}

pub struct NullClientFactory;

impl RedisClientFactory for NullClientFactory {
    type Client = NullRedisClient;

    fn create_client(
        &self,
        _address: String,
    ) -> Pin<Box<dyn Future<Output = Result<Self::Client, RedisClientError>> + Send>> {
        Box::pin(future::ok(NullRedisClient))
    }
}
