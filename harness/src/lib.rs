//! Shared helpers of the correspondence harness.
pub mod util;
pub mod broker_support;
pub mod compress_support;
pub mod route_support;
pub mod proto_support;
pub mod migration_support;
