//! Shared helpers of the correspondence harness.
pub mod util;
