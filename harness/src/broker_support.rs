//! Canonical rendering of the real broker's `MetaStore` and of the views it serves, plus the
//! property oracles evaluated on the implementation (independent of the Lean model).
//! The text format must match `lean/UmModel/BrokerView.lean` (`renderStore`, `renderVCluster`,
//! `renderVProxy`, `renderAllViews`) byte for byte.
use serde_json::Value;
use std::collections::{BTreeMap, BTreeSet};
use undermoon::broker::verif_export::store::{
    ChunkRolePosition, ChunkStore, ClusterStore, MetaStore, MigrationSlotRangeStore,
};
use undermoon::common::cluster::{RangeList, SlotRange};

pub fn render_ranges(rl: &RangeList) -> String {
    let rs = rl.get_ranges();
    if rs.is_empty() {
        return "e".to_string();
    }
    rs.iter()
        .map(|r| format!("{}-{}", r.start(), r.end()))
        .collect::<Vec<_>>()
        .join("+")
}

fn render_opt(s: &Option<SlotRange>) -> String {
    match s {
        None => "~".to_string(),
        Some(sr) => render_ranges(sr.get_range_list()),
    }
}

fn render_mig(l: &[MigrationSlotRangeStore]) -> String {
    if l.is_empty() {
        return "e".to_string();
    }
    l.iter()
        .map(|m| {
            format!(
                "{}[{}]@{}({}.{}>{}.{})",
                if m.is_migrating { "M" } else { "I" },
                render_ranges(&m.range_list),
                m.meta.epoch,
                m.meta.src_chunk_index,
                m.meta.src_chunk_part,
                m.meta.dst_chunk_index,
                m.meta.dst_chunk_part
            )
        })
        .collect::<Vec<_>>()
        .join("&")
}

pub fn role_letter(r: ChunkRolePosition) -> &'static str {
    match r {
        ChunkRolePosition::Normal => "N",
        ChunkRolePosition::FirstChunkMaster => "F",
        ChunkRolePosition::SecondChunkMaster => "S",
    }
}

pub fn render_chunk(c: &ChunkStore) -> String {
    format!(
        "{}:{}:{}:{}:{}:{},{}:{},{}:{},{},{},{}",
        role_letter(c.role_position),
        render_opt(&c.stable_slots[0]),
        render_opt(&c.stable_slots[1]),
        render_mig(&c.migrating_slots[0]),
        render_mig(&c.migrating_slots[1]),
        c.proxy_addresses[0],
        c.proxy_addresses[1],
        c.hosts[0],
        c.hosts[1],
        c.node_addresses[0],
        c.node_addresses[1],
        c.node_addresses[2],
        c.node_addresses[3]
    )
}

pub fn render_cfg_json(v: &Value) -> String {
    let strat = match v["compression_strategy"].as_str().unwrap_or("?") {
        "disabled" => 0,
        "set_get_only" => 1,
        "allow_all" => 2,
        _ => 99,
    };
    let m = &v["migration_config"];
    format!(
        "{},{},{},{},{}",
        strat, m["max_migration_time"], m["max_blocking_time"], m["scan_interval"], m["scan_count"]
    )
}

pub fn render_cluster_store(c: &ClusterStore) -> String {
    let cfg = serde_json::to_value(&c.config).expect("cfg");
    format!(
        "{}{{{};{};{}}}",
        c.name,
        c.epoch,
        render_cfg_json(&cfg),
        c.chunks.iter().map(render_chunk).collect::<Vec<_>>().join("/")
    )
}

pub fn render_store(s: &MetaStore) -> String {
    let mut ps: Vec<String> = s
        .all_proxies
        .values()
        .map(|p| {
            format!(
                "{}|{}|{}|{}|{}|{}",
                p.proxy_address,
                p.node_addresses[0],
                p.node_addresses[1],
                p.host,
                p.index,
                p.cluster.as_ref().map(|c| c.to_string()).unwrap_or_else(|| "~".to_string())
            )
        })
        .collect();
    ps.sort();
    let mut fs: Vec<String> = s.failed_proxies.iter().cloned().collect();
    fs.sort();
    let mut rs: Vec<String> = s
        .failures
        .iter()
        .map(|(a, m)| {
            let mut reps: Vec<String> = m.iter().map(|(r, t)| format!("{}@{}", r, t)).collect();
            reps.sort();
            format!("{}:{}", a, reps.join("/"))
        })
        .collect();
    rs.sort();
    let mut cs: Vec<(String, String)> = s
        .clusters
        .values()
        .map(|c| (c.name.to_string(), render_cluster_store(c)))
        .collect();
    cs.sort();
    format!(
        "G={} O={} P={} F={} R={} C={}",
        s.global_epoch,
        if s.enable_ordered_proxy { 1 } else { 0 },
        ps.join(","),
        fs.join(","),
        rs.join(","),
        cs.into_iter().map(|x| x.1).collect::<Vec<_>>().join(",")
    )
}

fn render_range_list_json(v: &Value) -> String {
    let arr = v.as_array().cloned().unwrap_or_default();
    if arr.is_empty() {
        return "e".to_string();
    }
    arr.iter().map(|r| format!("{}-{}", r[0], r[1])).collect::<Vec<_>>().join("+")
}

fn render_slot_range_json(v: &Value) -> String {
    let mut s = render_range_list_json(&v["range_list"]);
    let tag = &v["tag"];
    for (k, letter) in [("Migrating", "M"), ("Importing", "I")] {
        if let Some(m) = tag.get(k) {
            s.push_str(&format!(
                "!{}({},{},{},{},{})",
                letter,
                m["epoch"],
                m["src_proxy_address"].as_str().unwrap_or("?"),
                m["src_node_address"].as_str().unwrap_or("?"),
                m["dst_proxy_address"].as_str().unwrap_or("?"),
                m["dst_node_address"].as_str().unwrap_or("?")
            ));
        }
    }
    s
}

fn render_node_json(n: &Value) -> String {
    let slots = n["slots"].as_array().cloned().unwrap_or_default();
    let peers = n["repl"]["peers"].as_array().cloned().unwrap_or_default();
    format!(
        "{}@{}[{}]{{{}}}<{}>",
        n["address"].as_str().unwrap_or("?"),
        n["proxy_address"].as_str().unwrap_or("?"),
        if n["repl"]["role"].as_str() == Some("replica") { "R" } else { "M" },
        slots.iter().map(render_slot_range_json).collect::<Vec<_>>().join(","),
        peers
            .iter()
            .map(|p| format!("{}@{}", p["node_address"].as_str().unwrap_or("?"), p["proxy_address"].as_str().unwrap_or("?")))
            .collect::<Vec<_>>()
            .join(",")
    )
}

/// `Cluster` (as served by get_cluster_by_name) rendered from its serde form
pub fn render_vcluster(c: &Value) -> String {
    let nodes = c["nodes"].as_array().cloned().unwrap_or_default();
    format!(
        "V {} e={} cfg={} nodes={}",
        c["name"].as_str().unwrap_or("?"),
        c["epoch"],
        render_cfg_json(&c["config"]),
        nodes.iter().map(render_node_json).collect::<Vec<_>>().join(";")
    )
}

/// `Proxy` (as served by get_proxy_by_address) rendered from its serde form
pub fn render_vproxy(p: &Value) -> String {
    let nodes = p["nodes"].as_array().cloned().unwrap_or_default();
    let peers = p["peers"].as_array().cloned().unwrap_or_default();
    format!(
        "X {} {} e={} cfg={} nodes={} peers={}",
        p["cluster_name"].as_str().unwrap_or("~"),
        p["address"].as_str().unwrap_or("?"),
        p["epoch"],
        if p["cluster_config"].is_null() { "~".to_string() } else { render_cfg_json(&p["cluster_config"]) },
        nodes.iter().map(render_node_json).collect::<Vec<_>>().join(";"),
        peers
            .iter()
            .map(|pp| {
                let slots = pp["slots"].as_array().cloned().unwrap_or_default();
                format!(
                    "{}{{{}}}",
                    pp["proxy_address"].as_str().unwrap_or("?"),
                    slots.iter().map(render_slot_range_json).collect::<Vec<_>>().join(",")
                )
            })
            .collect::<Vec<_>>()
            .join("|")
    )
}

pub struct Views {
    /// cluster name -> (serde form of the Cluster, info triple)
    pub clusters: BTreeMap<String, (Value, (usize, usize, bool))>,
    /// proxy address -> serde form of the Proxy
    pub proxies: BTreeMap<String, Value>,
}

/// every view the broker serves under `limit` (through the real query functions)
pub fn all_views(s: &MetaStore, limit: u64) -> Views {
    let mut clusters = BTreeMap::new();
    for name in s.get_cluster_names() {
        let n = name.to_string();
        if let Some(c) = s.get_cluster_by_name(&n, limit) {
            let info = s.get_cluster_info_by_name(&n, limit).expect("info");
            clusters.insert(
                n,
                (
                    serde_json::to_value(&c).expect("cluster json"),
                    (info.node_number, info.node_number_with_slots, info.is_migrating),
                ),
            );
        }
    }
    let mut proxies = BTreeMap::new();
    for a in s.get_proxies() {
        if let Some(p) = s.get_proxy_by_address(&a, limit) {
            proxies.insert(a, serde_json::to_value(&p).expect("proxy json"));
        }
    }
    Views { clusters, proxies }
}

pub fn render_all_views(v: &Views) -> String {
    let mut lines = vec![];
    for (_, (c, info)) in v.clusters.iter() {
        lines.push(format!("{} info={},{},{}", render_vcluster(c), info.0, info.1, info.2));
    }
    for (_, p) in v.proxies.iter() {
        lines.push(render_vproxy(p));
    }
    lines.join("\n")
}

// ---------------------------------------------------------------------------------------
// oracles
// ---------------------------------------------------------------------------------------

fn ranges_of(sr: &Value) -> Vec<(u64, u64)> {
    sr["range_list"]
        .as_array()
        .cloned()
        .unwrap_or_default()
        .iter()
        .map(|r| (r[0].as_u64().unwrap_or(0), r[1].as_u64().unwrap_or(0)))
        .collect()
}

fn tag_kind(sr: &Value) -> (&'static str, Value) {
    if let Some(m) = sr["tag"].get("Migrating") {
        ("M", m.clone())
    } else if let Some(m) = sr["tag"].get("Importing") {
        ("I", m.clone())
    } else {
        ("N", Value::Null)
    }
}

/// C01 on one served cluster view: `None` = holds, `Some(why)` otherwise.
/// (1) slots tagged None or Migrating over all master nodes partition 0..16383;
/// (2) replicas own nothing; (3)/(4) every Migrating range has exactly one Importing twin with
/// equal range list and meta, sitting on the node/proxy named by the meta as destination, and
/// vice versa; (5) a Migrating range sits on the node/proxy named as source.
pub fn check_partition(c: &Value) -> Option<String> {
    let nodes = c["nodes"].as_array().cloned().unwrap_or_default();
    let mut owner: Vec<i32> = vec![-1; 16384];
    let mut migrating: Vec<(String, Value, String, String)> = vec![]; // (ranges, meta, node, proxy)
    let mut importing: Vec<(String, Value, String, String)> = vec![];
    for (ni, n) in nodes.iter().enumerate() {
        let role = n["repl"]["role"].as_str().unwrap_or("?");
        let slots = n["slots"].as_array().cloned().unwrap_or_default();
        if role == "replica" && !slots.is_empty() {
            return Some(format!("replica {} owns slots", n["address"]));
        }
        for sr in slots.iter() {
            let (kind, meta) = tag_kind(sr);
            let key = render_range_list_json(&sr["range_list"]);
            let addr = n["address"].as_str().unwrap_or("?").to_string();
            let paddr = n["proxy_address"].as_str().unwrap_or("?").to_string();
            if kind == "I" {
                importing.push((key, meta, addr, paddr));
                continue;
            }
            if kind == "M" {
                migrating.push((key, meta, addr, paddr));
            }
            for (s, e) in ranges_of(sr) {
                if s > e || e >= 16384 {
                    return Some(format!("malformed range {}-{} on {}", s, e, n["address"]));
                }
                for x in s..=e {
                    if owner[x as usize] >= 0 {
                        return Some(format!("slot {} has two owners (nodes #{} and #{})", x, owner[x as usize], ni));
                    }
                    owner[x as usize] = ni as i32;
                }
            }
        }
    }
    if let Some(x) = owner.iter().position(|o| *o < 0) {
        return Some(format!("slot {} has no owner", x));
    }
    for (key, meta, node, proxy) in migrating.iter() {
        let twins: Vec<_> = importing.iter().filter(|(k, m, _, _)| k == key && m == meta).collect();
        if twins.len() != 1 {
            return Some(format!("migrating range {} has {} importing twins", key, twins.len()));
        }
        let t = twins[0];
        if meta["dst_node_address"].as_str() != Some(t.2.as_str()) || meta["dst_proxy_address"].as_str() != Some(t.3.as_str()) {
            return Some(format!("importing twin of {} is not on the destination named by the meta", key));
        }
        if meta["src_node_address"].as_str() != Some(node.as_str()) || meta["src_proxy_address"].as_str() != Some(proxy.as_str()) {
            return Some(format!("migrating range {} is not on the source named by the meta", key));
        }
    }
    for (key, meta, _, _) in importing.iter() {
        let twins = migrating.iter().filter(|(k, m, _, _)| k == key && m == meta).count();
        if twins != 1 {
            return Some(format!("importing range {} has {} migrating twins", key, twins));
        }
    }
    // destination node of an importing range must be a master
    for (key, _meta, node, _) in importing.iter() {
        let is_master = nodes.iter().any(|n| n["address"].as_str() == Some(node.as_str()) && n["repl"]["role"].as_str() == Some("master"));
        if !is_master {
            return Some(format!("importing range {} sits on a replica", key));
        }
    }
    None
}

/// C01 across the proxy views of one cluster: the union of the local master ranges over all
/// proxies equals the cluster view's assignment, and each proxy's peers are exactly the other
/// proxies' master ranges.
pub fn check_proxy_views(cluster: &Value, proxies: &BTreeMap<String, Value>) -> Option<String> {
    let name = cluster["name"].as_str().unwrap_or("?");
    // expected: proxy -> multiset of rendered slot ranges on its masters
    let mut expect: BTreeMap<String, Vec<String>> = BTreeMap::new();
    for n in cluster["nodes"].as_array().cloned().unwrap_or_default() {
        let p = n["proxy_address"].as_str().unwrap_or("?").to_string();
        let e = expect.entry(p).or_default();
        if n["repl"]["role"].as_str() == Some("master") {
            for sr in n["slots"].as_array().cloned().unwrap_or_default() {
                e.push(render_slot_range_json(&sr));
            }
        }
    }
    for (addr, pv) in proxies.iter() {
        if pv["cluster_name"].as_str() != Some(name) {
            continue;
        }
        let mut local: Vec<String> = vec![];
        for n in pv["nodes"].as_array().cloned().unwrap_or_default() {
            for sr in n["slots"].as_array().cloned().unwrap_or_default() {
                local.push(render_slot_range_json(&sr));
            }
        }
        let mut want = expect.get(addr).cloned().unwrap_or_default();
        want.sort();
        local.sort();
        if want != local {
            return Some(format!("proxy {} local ranges differ from the cluster view", addr));
        }
        let mut peers: BTreeMap<String, Vec<String>> = BTreeMap::new();
        for pp in pv["peers"].as_array().cloned().unwrap_or_default() {
            let e = peers.entry(pp["proxy_address"].as_str().unwrap_or("?").to_string()).or_default();
            for sr in pp["slots"].as_array().cloned().unwrap_or_default() {
                e.push(render_slot_range_json(&sr));
            }
        }
        for (other, ranges) in expect.iter() {
            if other == addr {
                continue;
            }
            let mut w = ranges.clone();
            w.sort();
            let mut g = peers.get(other).cloned().unwrap_or_default();
            g.sort();
            if w != g {
                return Some(format!("proxy {}: peer {} ranges differ from the cluster view", addr, other));
            }
        }
        for other in peers.keys() {
            if !expect.contains_key(other) {
                return Some(format!("proxy {}: unknown peer {}", addr, other));
            }
        }
    }
    None
}

/// owner map slot -> (node address) of a cluster view for ranges tagged None/Migrating
pub fn owner_map(c: &Value) -> Vec<String> {
    let mut owner = vec![String::new(); 16384];
    for n in c["nodes"].as_array().cloned().unwrap_or_default() {
        for sr in n["slots"].as_array().cloned().unwrap_or_default() {
            if tag_kind(&sr).0 == "I" {
                continue;
            }
            for (s, e) in ranges_of(&sr) {
                for x in s..=e.min(16383) {
                    owner[x as usize] = n["address"].as_str().unwrap_or("?").to_string();
                }
            }
        }
    }
    owner
}

/// C10 balance: when nothing is migrating the masters with slots are a prefix and own
/// 16384/m (+1 for the first 16384 % m) slots each.
pub fn check_balanced(c: &ClusterStore) -> Option<String> {
    if c.is_migrating() {
        return None;
    }
    let counts: Vec<Option<usize>> = c
        .chunks
        .iter()
        .flat_map(|ch| ch.stable_slots.iter())
        .map(|s| s.as_ref().map(|sr| sr.get_range_list().get_slots_num()))
        .collect();
    let m = counts.iter().filter(|x| x.is_some()).count();
    if m == 0 {
        return Some("cluster without any slot".to_string());
    }
    if counts.iter().take(m).any(|x| x.is_none()) {
        return Some("masters with slots are not a prefix".to_string());
    }
    for (i, x) in counts.iter().take(m).enumerate() {
        let want = 16384 / m + if i < 16384 % m { 1 } else { 0 };
        if *x != Some(want) {
            return Some(format!("master {} owns {:?} slots, expected {} (m = {})", i, x, want, m));
        }
    }
    // slot-less chunks must be whole chunks (both halves none) forming a suffix
    if m % 2 != 0 {
        return Some("a chunk has exactly one slot-less half".to_string());
    }
    None
}

pub fn proxies_in_clusters(s: &MetaStore) -> BTreeSet<String> {
    s.clusters.values().flat_map(|c| c.chunks.iter()).flat_map(|ch| ch.proxy_addresses.iter().cloned()).collect()
}
