//! C17 support: description values (the flat prefix syntax documented in
//! lean/UmDriver/Proto.lean), conversion to and from the real undermoon types, rendering.
use crate::util::{hex, unhex};
use std::collections::HashMap;
use std::convert::TryFrom;
use undermoon::common::cluster::{
    ClusterName, MigrationMeta, MigrationTaskMeta, Range, RangeList, ReplPeer, SlotRange, SlotRangeTag,
};
use undermoon::common::config::{ClusterConfig, CompressionStrategy, MigrationConfig};
use undermoon::common::proto::{ClusterMapFlags, ProxyClusterMeta, ProxyClusterMetaData};
use undermoon::migration::task::SwitchArg;
use undermoon::protocol::{Array, BulkStr, Resp};
use undermoon::replication::replicator::{MasterMeta, ReplicaMeta, ReplicatorMeta};

#[derive(Clone, Debug, PartialEq)]
pub struct DMig {
    pub epoch: u64,
    pub a: [String; 4],
}
#[derive(Clone, Debug, PartialEq)]
pub enum DTag {
    N,
    M(DMig),
    I(DMig),
}
#[derive(Clone, Debug, PartialEq)]
pub struct DSr {
    pub ranges: Vec<(usize, usize)>,
    pub tag: DTag,
}
pub type DMap = Vec<(String, Vec<DSr>)>;
#[derive(Clone, Debug, PartialEq)]
pub struct DCfg {
    pub comp: u8,
    pub mmt: u64,
    pub mbt: u64,
    pub si: u64,
    pub sc: u64,
}
#[derive(Clone, Debug, PartialEq)]
pub struct DData {
    pub cluster: String,
    pub local: DMap,
    pub peer: DMap,
    pub cfg: DCfg,
}
#[derive(Clone, Debug, PartialEq)]
pub struct DMeta {
    pub epoch: u64,
    pub force: bool,
    pub compress: bool,
    pub data: DData,
}
#[derive(Clone, Debug, PartialEq)]
pub struct DTask {
    pub cluster: String,
    pub sr: DSr,
}
#[derive(Clone, Debug, PartialEq)]
pub struct DSwitch {
    pub version: String,
    pub task: DTask,
}
#[derive(Clone, Debug, PartialEq)]
pub struct DEntry {
    pub cluster: String,
    pub node: String,
    pub peers: Vec<(String, String)>,
}
#[derive(Clone, Debug, PartialEq)]
pub struct DRepl {
    pub epoch: u64,
    pub force: bool,
    pub compress: bool,
    pub masters: Vec<DEntry>,
    pub replicas: Vec<DEntry>,
}

pub fn hs(s: &str) -> String {
    hex(s.as_bytes())
}
fn b01(b: bool) -> String {
    if b { "1".into() } else { "0".into() }
}

// ---------------------------------------------------------------- description -> tokens
pub fn t_mig(m: &DMig, o: &mut Vec<String>) {
    o.push(m.epoch.to_string());
    for x in m.a.iter() {
        o.push(hs(x));
    }
}
pub fn t_sr(sr: &DSr, o: &mut Vec<String>) {
    o.push(match sr.tag { DTag::N => "N", DTag::M(_) => "M", DTag::I(_) => "I" }.to_string());
    o.push(sr.ranges.len().to_string());
    for (s, e) in sr.ranges.iter() {
        o.push(s.to_string());
        o.push(e.to_string());
    }
    match &sr.tag {
        DTag::N => {}
        DTag::M(m) | DTag::I(m) => t_mig(m, o),
    }
}
pub fn t_map(m: &DMap, o: &mut Vec<String>) {
    o.push(m.len().to_string());
    for (a, srs) in m.iter() {
        o.push(hs(a));
        o.push(srs.len().to_string());
        for sr in srs {
            t_sr(sr, o);
        }
    }
}
pub fn t_cfg(c: &DCfg, o: &mut Vec<String>) {
    o.push(c.comp.to_string());
    for v in [c.mmt, c.mbt, c.si, c.sc] {
        o.push(v.to_string());
    }
}
pub fn t_data(d: &DData, o: &mut Vec<String>) {
    o.push(hs(&d.cluster));
    t_map(&d.local, o);
    t_map(&d.peer, o);
    t_cfg(&d.cfg, o);
}
pub fn t_meta(m: &DMeta, o: &mut Vec<String>) {
    o.push(m.epoch.to_string());
    o.push(b01(m.force));
    o.push(b01(m.compress));
    t_data(&m.data, o);
}
pub fn t_task(t: &DTask, o: &mut Vec<String>) {
    o.push(hs(&t.cluster));
    t_sr(&t.sr, o);
}
pub fn t_switch(a: &DSwitch, o: &mut Vec<String>) {
    o.push(hs(&a.version));
    t_task(&a.task, o);
}
pub fn t_entry(e: &DEntry, o: &mut Vec<String>) {
    o.push(hs(&e.cluster));
    o.push(hs(&e.node));
    o.push(e.peers.len().to_string());
    for (n, p) in e.peers.iter() {
        o.push(hs(n));
        o.push(hs(p));
    }
}
pub fn t_repl(r: &DRepl, o: &mut Vec<String>) {
    o.push(r.epoch.to_string());
    o.push(b01(r.force));
    o.push(b01(r.compress));
    o.push(r.masters.len().to_string());
    for e in r.masters.iter() {
        t_entry(e, o);
    }
    o.push(r.replicas.len().to_string());
    for e in r.replicas.iter() {
        t_entry(e, o);
    }
}
/// canonical form of a map: groups sorted by address bytes
pub fn sorted_map(m: &DMap) -> DMap {
    let mut v = m.clone();
    v.sort_by(|a, b| a.0.as_bytes().cmp(b.0.as_bytes()));
    v
}

// ---------------------------------------------------------------- tokens -> description (replay)
pub struct Cur<'a> {
    pub t: &'a [String],
    pub i: usize,
}
impl<'a> Cur<'a> {
    pub fn new(t: &'a [String]) -> Self {
        Cur { t, i: 0 }
    }
    pub fn next(&mut self) -> Option<&'a str> {
        let x = self.t.get(self.i)?;
        self.i += 1;
        Some(x.as_str())
    }
    pub fn rest(&self) -> &'a [String] {
        self.t.get(self.i..).unwrap_or(&[])
    }
    pub fn num<T: std::str::FromStr>(&mut self) -> Option<T> {
        self.next()?.parse::<T>().ok()
    }
    pub fn s(&mut self) -> Option<String> {
        String::from_utf8(unhex(self.next()?)?).ok()
    }
    pub fn b(&mut self) -> Option<bool> {
        match self.next()? {
            "1" => Some(true),
            "0" => Some(false),
            _ => None,
        }
    }
}
pub fn p_mig(c: &mut Cur) -> Option<DMig> {
    Some(DMig { epoch: c.num()?, a: [c.s()?, c.s()?, c.s()?, c.s()?] })
}
pub fn p_sr(c: &mut Cur) -> Option<DSr> {
    let k = c.next()?;
    let n: usize = c.num()?;
    let mut ranges = vec![];
    for _ in 0..n {
        ranges.push((c.num()?, c.num()?));
    }
    let tag = match k {
        "N" => DTag::N,
        "M" => DTag::M(p_mig(c)?),
        "I" => DTag::I(p_mig(c)?),
        _ => return None,
    };
    Some(DSr { ranges, tag })
}
pub fn p_map(c: &mut Cur) -> Option<DMap> {
    let k: usize = c.num()?;
    let mut m = vec![];
    for _ in 0..k {
        let a = c.s()?;
        let j: usize = c.num()?;
        let mut srs = vec![];
        for _ in 0..j {
            srs.push(p_sr(c)?);
        }
        m.push((a, srs));
    }
    Some(m)
}
pub fn p_cfg(c: &mut Cur) -> Option<DCfg> {
    Some(DCfg { comp: c.num()?, mmt: c.num()?, mbt: c.num()?, si: c.num()?, sc: c.num()? })
}
pub fn p_data(c: &mut Cur) -> Option<DData> {
    Some(DData { cluster: c.s()?, local: p_map(c)?, peer: p_map(c)?, cfg: p_cfg(c)? })
}
pub fn p_meta(c: &mut Cur) -> Option<DMeta> {
    Some(DMeta { epoch: c.num()?, force: c.b()?, compress: c.b()?, data: p_data(c)? })
}
pub fn p_task(c: &mut Cur) -> Option<DTask> {
    Some(DTask { cluster: c.s()?, sr: p_sr(c)? })
}
pub fn p_switch(c: &mut Cur) -> Option<DSwitch> {
    Some(DSwitch { version: c.s()?, task: p_task(c)? })
}
pub fn p_entry(c: &mut Cur) -> Option<DEntry> {
    let cluster = c.s()?;
    let node = c.s()?;
    let k: usize = c.num()?;
    let mut peers = vec![];
    for _ in 0..k {
        peers.push((c.s()?, c.s()?));
    }
    Some(DEntry { cluster, node, peers })
}
pub fn p_repl(c: &mut Cur) -> Option<DRepl> {
    let epoch = c.num()?;
    let force = c.b()?;
    let compress = c.b()?;
    let m: usize = c.num()?;
    let mut masters = vec![];
    for _ in 0..m {
        masters.push(p_entry(c)?);
    }
    let r: usize = c.num()?;
    let mut replicas = vec![];
    for _ in 0..r {
        replicas.push(p_entry(c)?);
    }
    Some(DRepl { epoch, force, compress, masters, replicas })
}

// ---------------------------------------------------------------- description -> real
pub fn real_mig(m: &DMig) -> MigrationMeta {
    MigrationMeta {
        epoch: m.epoch,
        src_proxy_address: m.a[0].clone(),
        src_node_address: m.a[1].clone(),
        dst_proxy_address: m.a[2].clone(),
        dst_node_address: m.a[3].clone(),
    }
}
/// ranges are installed raw (no `compact`), so non-compact lists can be expressed
pub fn real_sr(sr: &DSr) -> SlotRange {
    let mut rl = RangeList::new(vec![]);
    *rl.get_mut_ranges() = sr.ranges.iter().map(|(s, e)| Range(*s, *e)).collect();
    SlotRange {
        range_list: rl,
        tag: match &sr.tag {
            DTag::N => SlotRangeTag::None,
            DTag::M(m) => SlotRangeTag::Migrating(real_mig(m)),
            DTag::I(m) => SlotRangeTag::Importing(real_mig(m)),
        },
    }
}
pub fn real_map(m: &DMap) -> HashMap<String, Vec<SlotRange>> {
    let mut h = HashMap::new();
    for (a, srs) in m.iter() {
        h.insert(a.clone(), srs.iter().map(real_sr).collect());
    }
    h
}
pub fn real_cfg(c: &DCfg) -> ClusterConfig {
    ClusterConfig {
        compression_strategy: match c.comp {
            0 => CompressionStrategy::Disabled,
            1 => CompressionStrategy::SetGetOnly,
            _ => CompressionStrategy::AllowAll,
        },
        migration_config: MigrationConfig {
            max_migration_time: c.mmt,
            max_blocking_time: c.mbt,
            scan_interval: c.si,
            scan_count: c.sc,
        },
    }
}
pub fn real_meta(m: &DMeta) -> Option<ProxyClusterMeta> {
    let name = ClusterName::try_from(m.data.cluster.as_str()).ok()?;
    Some(ProxyClusterMeta::new(
        m.epoch,
        ClusterMapFlags { force: m.force, compress: m.compress },
        name,
        real_map(&m.data.local),
        real_map(&m.data.peer),
        real_cfg(&m.data.cfg),
    ))
}
pub fn real_task(t: &DTask) -> Option<MigrationTaskMeta> {
    Some(MigrationTaskMeta {
        cluster_name: ClusterName::try_from(t.cluster.as_str()).ok()?,
        slot_range: real_sr(&t.sr),
    })
}
pub fn real_switch(a: &DSwitch) -> Option<SwitchArg> {
    Some(SwitchArg { version: a.version.clone(), meta: real_task(&a.task)? })
}
pub fn real_repl(r: &DRepl) -> Option<ReplicatorMeta> {
    let mut masters = vec![];
    for e in r.masters.iter() {
        masters.push(MasterMeta {
            cluster_name: ClusterName::try_from(e.cluster.as_str()).ok()?,
            master_node_address: e.node.clone(),
            replicas: e.peers.iter().map(|(n, p)| ReplPeer { node_address: n.clone(), proxy_address: p.clone() }).collect(),
        });
    }
    let mut replicas = vec![];
    for e in r.replicas.iter() {
        replicas.push(ReplicaMeta {
            cluster_name: ClusterName::try_from(e.cluster.as_str()).ok()?,
            replica_node_address: e.node.clone(),
            masters: e.peers.iter().map(|(n, p)| ReplPeer { node_address: n.clone(), proxy_address: p.clone() }).collect(),
        });
    }
    Some(ReplicatorMeta {
        epoch: r.epoch,
        flags: ClusterMapFlags { force: r.force, compress: r.compress },
        masters,
        replicas,
    })
}

// ---------------------------------------------------------------- real -> description
pub fn d_mig(m: &MigrationMeta) -> DMig {
    DMig {
        epoch: m.epoch,
        a: [
            m.src_proxy_address.clone(),
            m.src_node_address.clone(),
            m.dst_proxy_address.clone(),
            m.dst_node_address.clone(),
        ],
    }
}
pub fn d_sr(sr: &SlotRange) -> DSr {
    DSr {
        ranges: sr.range_list.get_ranges().iter().map(|r| (r.start(), r.end())).collect(),
        tag: match &sr.tag {
            SlotRangeTag::None => DTag::N,
            SlotRangeTag::Migrating(m) => DTag::M(d_mig(m)),
            SlotRangeTag::Importing(m) => DTag::I(d_mig(m)),
        },
    }
}
/// in the iteration order of this very map
pub fn d_map(h: &HashMap<String, Vec<SlotRange>>) -> DMap {
    h.iter().map(|(a, srs)| (a.clone(), srs.iter().map(d_sr).collect())).collect()
}
pub fn d_cfg(c: &ClusterConfig) -> DCfg {
    DCfg {
        comp: match c.compression_strategy {
            CompressionStrategy::Disabled => 0,
            CompressionStrategy::SetGetOnly => 1,
            CompressionStrategy::AllowAll => 2,
        },
        mmt: c.migration_config.max_migration_time,
        mbt: c.migration_config.max_blocking_time,
        si: c.migration_config.scan_interval,
        sc: c.migration_config.scan_count,
    }
}
pub fn d_meta(m: &ProxyClusterMeta) -> DMeta {
    let f = m.get_flags();
    DMeta {
        epoch: m.get_epoch(),
        force: f.force,
        compress: f.compress,
        data: DData {
            cluster: m.get_cluster_name().to_string(),
            local: d_map(m.get_local()),
            peer: d_map(m.get_peer()),
            cfg: d_cfg(m.get_config()),
        },
    }
}
/// the fields of `ProxyClusterMetaData` are private: go through its own serde form
pub fn d_data(d: &ProxyClusterMetaData) -> Option<DData> {
    let v = serde_json::to_value(d).ok()?;
    let cluster = v.get("cluster_name")?.as_str()?.to_string();
    let local: HashMap<String, Vec<SlotRange>> = serde_json::from_value(v.get("local")?.clone()).ok()?;
    let peer: HashMap<String, Vec<SlotRange>> = serde_json::from_value(v.get("peer")?.clone()).ok()?;
    let cfg: ClusterConfig = serde_json::from_value(v.get("cluster_config")?.clone()).ok()?;
    Some(DData { cluster, local: d_map(&local), peer: d_map(&peer), cfg: d_cfg(&cfg) })
}
pub fn d_task(t: &MigrationTaskMeta) -> DTask {
    DTask { cluster: t.cluster_name.to_string(), sr: d_sr(&t.slot_range) }
}
pub fn d_switch(a: &SwitchArg) -> DSwitch {
    DSwitch { version: a.version.clone(), task: d_task(&a.meta) }
}
pub fn d_repl(r: &ReplicatorMeta) -> DRepl {
    DRepl {
        epoch: r.epoch,
        force: r.flags.force,
        compress: r.flags.compress,
        masters: r.masters.iter().map(|m| DEntry {
            cluster: m.cluster_name.to_string(),
            node: m.master_node_address.clone(),
            peers: m.replicas.iter().map(|p| (p.node_address.clone(), p.proxy_address.clone())).collect(),
        }).collect(),
        replicas: r.replicas.iter().map(|m| DEntry {
            cluster: m.cluster_name.to_string(),
            node: m.replica_node_address.clone(),
            peers: m.masters.iter().map(|p| (p.node_address.clone(), p.proxy_address.clone())).collect(),
        }).collect(),
    }
}

/// canonical rendering of a parsed cluster meta: `<version> META(sorted maps)`
pub fn render_meta(m: &ProxyClusterMeta) -> Vec<String> {
    let mut d = d_meta(m);
    d.data.local = sorted_map(&d.data.local);
    d.data.peer = sorted_map(&d.data.peer);
    let mut o = vec![hs(m.get_version())];
    t_meta(&d, &mut o);
    o
}

// ---------------------------------------------------------------- RESP elements
#[derive(Clone, Debug, PartialEq)]
pub enum El {
    B(Vec<u8>),
    S(Vec<u8>),
    O(char),
}
pub fn el_tok(e: &El) -> String {
    match e {
        El::B(b) => format!("b{}", hex(b)),
        El::S(b) => format!("s{}", hex(b)),
        El::O(k) => format!("o{}", k),
    }
}
pub fn p_el(t: &str) -> Option<El> {
    let (k, r) = t.split_at(t.char_indices().nth(1).map(|x| x.0).unwrap_or(t.len()));
    match k {
        "b" => Some(El::B(unhex(r)?)),
        "s" => Some(El::S(unhex(r)?)),
        "o" => Some(El::O(r.chars().next().unwrap_or('i'))),
        _ => None,
    }
}
pub fn el_resp<'a, T>(e: &'a El, f: &dyn Fn(&'a [u8]) -> T) -> Resp<T> {
    match e {
        El::B(b) => Resp::Bulk(BulkStr::Str(f(b.as_slice()))),
        El::S(b) => Resp::Simple(f(b.as_slice())),
        El::O('e') => Resp::Error(f(b"ERR x")),
        El::O('n') => Resp::Bulk(BulkStr::Nil),
        El::O('a') => Resp::Arr(Array::Arr(vec![])),
        El::O('z') => Resp::Arr(Array::Nil),
        El::O(_) => Resp::Integer(f(b"1")),
    }
}
/// `Some(elements)` = an array command, `None` = a non-array RESP value
pub fn cmd_resp<'a, T>(cmd: &'a Option<Vec<El>>, f: &dyn Fn(&'a [u8]) -> T) -> Resp<T> {
    match cmd {
        Some(els) => Resp::Arr(Array::Arr(els.iter().map(|e| el_resp(e, f)).collect())),
        None => Resp::Simple(f(b"OK")),
    }
}
pub fn cmd_toks(cmd: &Option<Vec<El>>) -> Vec<String> {
    match cmd {
        Some(els) => std::iter::once("arr".to_string()).chain(els.iter().map(el_tok)).collect(),
        None => vec!["notarr".to_string()],
    }
}
pub fn p_cmd(t: &[String]) -> Option<Option<Vec<El>>> {
    match t.first().map(|s| s.as_str()) {
        Some("arr") => t.get(1..)?.iter().map(|x| p_el(x)).collect::<Option<Vec<El>>>().map(Some),
        Some("notarr") => Some(None),
        _ => None,
    }
}
