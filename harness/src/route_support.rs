//! In-process proxy for the routing streams (C09; reusable by C02/C14): the real
//! `ForwardHandler` / `MetaManager` over fake backends that record which node address received
//! which command (pattern of /repo/tests/proxy_manager_test.rs).
use arc_swap::ArcSwap;
use futures::channel::mpsc;
use futures::{Future, SinkExt, StreamExt, TryStreamExt};
use std::net::SocketAddr;
use std::num::NonZeroUsize;
use std::pin::Pin;
use std::sync::atomic::{AtomicBool, AtomicI64, AtomicU64};
use std::sync::{Arc, Mutex};
use std::time::Duration;
use undermoon::common::batch::BatchStrategy;
use undermoon::common::track::TrackedFutureRegistry;
use undermoon::protocol::{
    Array, BinSafeStr, BulkStr, OptionalMulti, RedisClient, RedisClientError, RedisClientFactory,
    Resp, RespPacket, RespVec,
};
use undermoon::proxy::backend::{BackendError, ConnFactory, ConnSink, ConnStream, CreateConnResult};
use undermoon::proxy::command::{new_command_pair, Command};
use undermoon::proxy::executor::ForwardHandler;
use undermoon::proxy::manager::MetaMap;
use undermoon::proxy::service::{ClusterNodesVersion, ServerProxyConfig};
use undermoon::proxy::session::{CmdCtx, CmdCtxHandler};
use undermoon::proxy::slowlog::SlowRequestLogger;

/// a command argument: `None` = an element that is not a bulk string
pub type Arg = Option<Vec<u8>>;
/// (address the connection was opened to, argument vector received)
pub type Delivery = (String, Vec<Arg>);
pub type Log = Arc<Mutex<Vec<Delivery>>>;

pub fn upper(b: &[u8]) -> Vec<u8> {
    b.iter().map(|c| c.to_ascii_uppercase()).collect()
}

/// The fake Redis / fake peer proxy. The reply is a function of the node address and of the
/// (UMFORWARD-unwrapped) command name only; mirrored by `fakeBackend` in lean/UmDriver/Route9.lean.
pub fn fake_reply(addr: &str, args: &[Arg]) -> RespVec {
    let first = args.first().and_then(|a| a.as_ref()).map(|b| upper(b));
    let inner: &[Arg] = if first.as_deref() == Some(b"UMFORWARD") {
        args.get(2..).unwrap_or(&[])
    } else {
        args
    };
    let name = inner.first().and_then(|a| a.as_ref()).map(|b| upper(b)).unwrap_or_default();
    match name.as_slice() {
        b"SET" => Resp::Simple(b"OK".to_vec()),
        b"DEL" | b"EXISTS" | b"MSETNX" => Resp::Integer(b"1".to_vec()),
        b"ZPOPMIN" | b"ZPOPMAX" => Resp::Arr(Array::Arr(vec![
            Resp::Bulk(BulkStr::Str(addr.as_bytes().to_vec())),
            Resp::Bulk(BulkStr::Str(b"1".to_vec())),
        ])),
        _ => Resp::Bulk(BulkStr::Str(addr.as_bytes().to_vec())),
    }
}

pub struct RecordingConnFactory {
    pub log: Log,
}

impl ConnFactory for RecordingConnFactory {
    type Pkt = RespPacket;

    fn create_conn(
        &self,
        addr: SocketAddr,
    ) -> Pin<Box<dyn Future<Output = CreateConnResult<Self::Pkt>> + Send>> {
        let (sender, receiver) = mpsc::unbounded();
        let log = self.log.clone();
        let addr = addr.to_string();
        let receiver = receiver.map(move |packet: RespPacket| {
            let args: Vec<Arg> = match packet.to_resp_vec() {
                Resp::Arr(Array::Arr(resps)) => resps
                    .iter()
                    .map(|r| match r {
                        Resp::Bulk(BulkStr::Str(s)) => Some(s.clone()),
                        _ => None,
                    })
                    .collect(),
                _ => vec![],
            };
            let reply = fake_reply(&addr, &args);
            log.lock().expect("log").push((addr.clone(), args));
            Ok::<_, ()>(RespPacket::Data(reply))
        });
        let sink: ConnSink<RespPacket> = Box::pin(sender.sink_map_err(|_| BackendError::Canceled));
        let stream: ConnStream<RespPacket> = Box::pin(receiver.map_err(|_| BackendError::Canceled));
        Box::pin(async { Ok((sink, stream)) })
    }
}

pub struct OkClient;

impl RedisClient for OkClient {
    fn execute<'s>(
        &'s mut self,
        command: OptionalMulti<Vec<BinSafeStr>>,
    ) -> Pin<Box<dyn Future<Output = Result<OptionalMulti<RespVec>, RedisClientError>> + Send + 's>> {
        let res = command.map(|_| Resp::Simple(b"OK".to_vec()));
        Box::pin(async { Ok(res) })
    }
}

pub struct OkClientFactory;

impl RedisClientFactory for OkClientFactory {
    type Client = OkClient;

    fn create_client<'s>(
        &'s self,
        _address: String,
    ) -> Pin<Box<dyn Future<Output = Result<Self::Client, RedisClientError>> + Send + 's>> {
        Box::pin(async { Ok(OkClient) })
    }
}

#[derive(Clone, Debug, PartialEq)]
pub struct ProxyCfg {
    pub active_redirection: bool,
    pub max_redirections: Option<usize>,
    pub default_redirection_address: Option<String>,
}

pub const ANNOUNCE_HOST: &str = "127.0.0.1";

pub fn server_config(c: &ProxyCfg) -> ServerProxyConfig {
    ServerProxyConfig {
        address: "127.0.0.1:5299".to_string(),
        announce_address: "127.0.0.1:5299".to_string(),
        announce_host: ANNOUNCE_HOST.to_string(),
        slowlog_len: NonZeroUsize::new(16).expect("nz"),
        slowlog_log_slower_than: AtomicI64::new(1_000_000_000),
        slowlog_sample_rate: AtomicU64::new(1_000_000),
        thread_number: NonZeroUsize::new(1).expect("nz"),
        backend_conn_num: NonZeroUsize::new(1).expect("nz"),
        active_redirection: c.active_redirection,
        max_redirections: c.max_redirections.and_then(NonZeroUsize::new),
        default_redirection_address: c.default_redirection_address.clone(),
        backend_batch_strategy: BatchStrategy::Fixed,
        backend_flush_size: NonZeroUsize::new(1024).expect("nz"),
        backend_low_flush_interval: Duration::from_nanos(200_000),
        backend_high_flush_interval: Duration::from_nanos(800_000),
        session_timeout: None,
        backend_timeout: Duration::from_secs(30),
        password: None,
        command_cluster_nodes_version: ClusterNodesVersion::V2,
    }
}

pub type Handler = ForwardHandler<OkClientFactory, RecordingConnFactory>;

/// one in-process proxy: the real command handler over recording fakes
pub struct Proxy {
    pub handler: Handler,
    pub log: Log,
    pub epoch: u64,
    _stopped: mpsc::UnboundedReceiver<()>,
}

impl Proxy {
    pub fn new(cfg: &ProxyCfg) -> Self {
        let config = Arc::new(server_config(cfg));
        let log: Log = Arc::new(Mutex::new(vec![]));
        let conn_factory = Arc::new(RecordingConnFactory { log: log.clone() });
        let meta_map = Arc::new(ArcSwap::new(Arc::new(MetaMap::empty())));
        let future_registry = Arc::new(TrackedFutureRegistry::default());
        let (tx, rx) = mpsc::unbounded();
        let handler = ForwardHandler::new(
            config.clone(),
            Arc::new(OkClientFactory),
            Arc::new(SlowRequestLogger::new(config)),
            meta_map,
            conn_factory,
            future_registry,
            tx,
        );
        Proxy { handler, log, epoch: 0, _stopped: rx }
    }

    /// run one client command through `ForwardHandler::handle_cmd_ctx`; returns the reply and
    /// what the fake backends received for it (after the backend tasks have drained)
    pub async fn run(&self, args: &[Arg]) -> (Result<RespVec, String>, Vec<Delivery>) {
        self.log.lock().expect("log").clear();
        let resp = Resp::Arr(Array::Arr(
            args.iter()
                .map(|a| match a {
                    Some(b) => Resp::Bulk(BulkStr::Str(b.clone())),
                    None => Resp::Bulk(BulkStr::Nil),
                })
                .collect(),
        ));
        let cmd = Command::new(Box::new(RespPacket::Data(resp)));
        let (s, r) = new_command_pair(&cmd);
        let ctx = CmdCtx::new(cmd, s, 1, false);
        let authenticated = AtomicBool::new(false);
        let res = self.handler.handle_cmd_ctx(ctx, r, &authenticated).await;
        let reply = match res {
            Ok(task_reply) => Ok(task_reply.into_resp_vec()),
            Err(e) => Err(format!("{:?}", e)),
        };
        // let the backend tasks consume what was queued for them (sub-commands whose replies the
        // handler did not wait for)
        let mut stable = 0;
        let mut last = self.log.lock().expect("log").len();
        for _ in 0..64 {
            tokio::task::yield_now().await;
            let n = self.log.lock().expect("log").len();
            if n == last {
                stable += 1;
                if stable >= 6 {
                    break;
                }
            } else {
                stable = 0;
                last = n;
            }
        }
        let deliveries = self.log.lock().expect("log").clone();
        (reply, deliveries)
    }

    /// `UMCTL SETCLUSTER <args>` through the handler (epoch handled here)
    pub async fn set_cluster(&mut self, cluster: &str, body: &[String]) -> Result<RespVec, String> {
        self.epoch += 1;
        let mut args: Vec<Arg> = vec![
            Some(b"UMCTL".to_vec()),
            Some(b"SETCLUSTER".to_vec()),
            Some(undermoon::common::proto::SET_CLUSTER_API_VERSION.as_bytes().to_vec()),
            Some(self.epoch.to_string().into_bytes()),
            Some(b"NOFLAGS".to_vec()),
            Some(cluster.as_bytes().to_vec()),
        ];
        args.extend(body.iter().map(|s| Some(s.clone().into_bytes())));
        let (r, _) = self.run(&args).await;
        r
    }
}

/// canonical text of a reply (mirrors `renderResp` in lean/UmDriver/Route9.lean)
pub fn render_resp(r: &RespVec) -> String {
    use crate::util::hex;
    match r {
        Resp::Error(b) => format!("E:{}", hex(b)),
        Resp::Simple(b) => format!("S:{}", hex(b)),
        Resp::Integer(b) => format!("I:{}", hex(b)),
        Resp::Bulk(BulkStr::Str(b)) => format!("B:{}", hex(b)),
        Resp::Bulk(BulkStr::Nil) => "N".to_string(),
        Resp::Arr(Array::Nil) => "NA".to_string(),
        Resp::Arr(Array::Arr(xs)) => {
            format!("A[{}]", xs.iter().map(render_resp).collect::<Vec<_>>().join(","))
        }
    }
}

pub fn render_arg(a: &Arg) -> String {
    match a {
        None => "~".to_string(),
        Some(b) => crate::util::hex(b),
    }
}

pub fn render_deliveries(ds: &[Delivery]) -> String {
    let mut items: Vec<String> = ds
        .iter()
        .map(|(a, c)| format!("{}>{}", a, c.iter().map(render_arg).collect::<Vec<_>>().join(",")))
        .collect();
    items.sort();
    if items.is_empty() {
        "-".to_string()
    } else {
        items.join(";")
    }
}
