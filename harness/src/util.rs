//! PRNG, hex, argument parsing and the ops/impl/stats writers shared by all harness binaries.
//!
//! Contract of every harness binary `umh_<name>`:
//!   umh_<name> --seed S --tier quick|thorough --out DIR [--replay FILE]
//! writes DIR/ops.txt (one operation per line; this is what the Lean driver replays),
//! DIR/impl.txt (the canonical observable of the *real* code, one line per op line) and
//! DIR/stats.json (counts, distribution, samples, oracle failures).
use serde_json::{json, Map, Value};
use std::collections::BTreeMap;
use std::fs::File;
use std::io::{BufWriter, Write};
use std::path::PathBuf;

/// splitmix64: every random choice of a run derives from one seed.
#[derive(Clone)]
pub struct Rng(pub u64);

impl Rng {
    pub fn new(seed: u64) -> Self {
        Rng(seed ^ 0x9E37_79B9_7F4A_7C15)
    }
    pub fn next_u64(&mut self) -> u64 {
        self.0 = self.0.wrapping_add(0x9E37_79B9_7F4A_7C15);
        let mut z = self.0;
        z = (z ^ (z >> 30)).wrapping_mul(0xBF58_476D_1CE4_E5B9);
        z = (z ^ (z >> 27)).wrapping_mul(0x94D0_49BB_1331_11EB);
        z ^ (z >> 31)
    }
    /// uniform in 0..n (n > 0)
    pub fn below(&mut self, n: u64) -> u64 {
        if n == 0 {
            0
        } else {
            self.next_u64() % n
        }
    }
    pub fn range(&mut self, lo: i64, hi_incl: i64) -> i64 {
        lo + self.below((hi_incl - lo + 1) as u64) as i64
    }
    pub fn chance(&mut self, num: u64, den: u64) -> bool {
        self.below(den) < num
    }
    pub fn pick<'a, T>(&mut self, xs: &'a [T]) -> &'a T {
        let i = self.below(xs.len() as u64) as usize;
        xs.get(i).expect("pick from empty slice")
    }
    pub fn bytes(&mut self, len: usize) -> Vec<u8> {
        (0..len).map(|_| self.next_u64() as u8).collect()
    }
    pub fn fork(&mut self) -> Rng {
        Rng(self.next_u64())
    }
}

pub fn hex(b: &[u8]) -> String {
    if b.is_empty() {
        return "-".to_string();
    }
    let mut s = String::with_capacity(b.len() * 2);
    for x in b {
        s.push_str(&format!("{:02x}", x));
    }
    s
}

pub fn unhex(s: &str) -> Option<Vec<u8>> {
    if s == "-" {
        return Some(vec![]);
    }
    if s.len() % 2 != 0 {
        return None;
    }
    let bs = s.as_bytes();
    let mut out = Vec::with_capacity(bs.len() / 2);
    for ch in bs.chunks(2) {
        let h = (*ch.first()? as char).to_digit(16)?;
        let l = (*ch.get(1)? as char).to_digit(16)?;
        out.push((h * 16 + l) as u8);
    }
    Some(out)
}

pub struct Args {
    pub seed: u64,
    pub thorough: bool,
    pub out: PathBuf,
    pub replay: Option<PathBuf>,
    pub extra: BTreeMap<String, String>,
}

pub fn parse_args() -> Args {
    let mut seed = 1u64;
    let mut thorough = false;
    let mut out = PathBuf::from(".");
    let mut replay = None;
    let mut extra = BTreeMap::new();
    let argv: Vec<String> = std::env::args().collect();
    let mut i = 1;
    while i < argv.len() {
        let a = argv[i].clone();
        let v = argv.get(i + 1).cloned().unwrap_or_default();
        match a.as_str() {
            "--seed" => seed = v.parse().unwrap_or(1),
            "--tier" => thorough = v == "thorough",
            "--out" => out = PathBuf::from(v),
            "--replay" => replay = Some(PathBuf::from(v)),
            other => {
                extra.insert(other.trim_start_matches("--").to_string(), v);
            }
        }
        i += 2;
    }
    std::fs::create_dir_all(&out).expect("create out dir");
    Args {
        seed,
        thorough,
        out,
        replay,
        extra,
    }
}

/// Writes the op stream and the implementation's observable stream in lockstep.
pub struct Streams {
    ops: BufWriter<File>,
    imp: BufWriter<File>,
    pub lines: u64,
    pub cases: u64,
    pub stats: Stats,
    out: PathBuf,
}

#[derive(Default)]
pub struct Stats {
    pub counters: BTreeMap<String, u64>,
    pub samples: Vec<Value>,
    pub oracle_failures: Vec<Value>,
    pub known_probes: Vec<Value>,
    pub nontrivial: u64,
    pub distinct: std::collections::BTreeSet<u64>,
    pub extra: Map<String, Value>,
}

impl Stats {
    pub fn count(&mut self, key: &str) {
        *self.counters.entry(key.to_string()).or_insert(0) += 1;
    }
    pub fn add(&mut self, key: &str, n: u64) {
        *self.counters.entry(key.to_string()).or_insert(0) += n;
    }
    /// record a non-trivial case by a hash of its content (distinctness is measured)
    pub fn nontrivial_case(&mut self, content: &str) {
        self.nontrivial += 1;
        self.distinct.insert(fnv(content.as_bytes()));
    }
    pub fn sample(&mut self, v: Value) {
        if self.samples.len() < 6 {
            self.samples.push(v);
        }
    }
    /// an oracle failure observed on the *implementation* (independent of the model).
    /// `finding` names the known-finding class this belongs to, or "" for none.
    pub fn oracle_failure(&mut self, case: u64, what: &str, finding: &str, replay: Vec<String>) {
        // the cap is per (property prefix, finding class): a stream that serves several properties must not let the
        // failures of one property (or of a known finding) crowd out those of another
        let key = |w: &str, f: &str| format!("{}|{}", w.split(':').next().unwrap_or(""), f);
        let k = key(what, finding);
        let same = self.oracle_failures.iter().filter(|o| key(o["what"].as_str().unwrap_or(""), o["finding"].as_str().unwrap_or("")) == k).count();
        if same < 20 && self.oracle_failures.len() < 400 {
            self.oracle_failures.push(json!({
                "case": case, "what": what, "finding": finding, "replay": replay
            }));
        } else {
            self.count("oracle_failures_dropped");
        }
    }
}

pub fn fnv(b: &[u8]) -> u64 {
    let mut h: u64 = 0xcbf29ce484222325;
    for x in b {
        h ^= *x as u64;
        h = h.wrapping_mul(0x100000001b3);
    }
    h
}

impl Streams {
    pub fn new(args: &Args) -> Self {
        let ops = BufWriter::new(File::create(args.out.join("ops.txt")).expect("ops.txt"));
        let imp = BufWriter::new(File::create(args.out.join("impl.txt")).expect("impl.txt"));
        Streams {
            ops,
            imp,
            lines: 0,
            cases: 0,
            stats: Stats::default(),
            out: args.out.clone(),
        }
    }
    /// start a new case: both streams get the marker so a diff can be localised.
    pub fn case(&mut self) -> u64 {
        self.cases += 1;
        let c = self.cases;
        writeln!(self.ops, "case {}", c).expect("w");
        writeln!(self.imp, "case {}", c).expect("w");
        self.lines += 1;
        c
    }
    /// one operation and the real code's canonical observable for it
    pub fn op(&mut self, op: &str, observed: &str) {
        debug_assert!(!op.contains('\n') && !observed.contains('\n'));
        writeln!(self.ops, "{}", op).expect("w");
        writeln!(self.imp, "{}", observed).expect("w");
        self.lines += 1;
    }
    pub fn finish(mut self, name: &str, rule: &str) {
        self.ops.flush().expect("flush");
        self.imp.flush().expect("flush");
        let s = &self.stats;
        let mut m = Map::new();
        m.insert("harness".into(), json!(name));
        m.insert("cases".into(), json!(self.cases));
        m.insert("lines".into(), json!(self.lines));
        m.insert("nontrivial".into(), json!(s.nontrivial));
        m.insert("distinct_nontrivial".into(), json!(s.distinct.len()));
        m.insert("rule".into(), json!(rule));
        m.insert("distribution".into(), json!(s.counters));
        m.insert("samples".into(), json!(s.samples));
        m.insert("oracle_failures".into(), json!(s.oracle_failures));
        m.insert("known_probes".into(), json!(s.known_probes));
        for (k, v) in s.extra.iter() {
            m.insert(k.clone(), v.clone());
        }
        let f = File::create(self.out.join("stats.json")).expect("stats.json");
        serde_json::to_writer_pretty(f, &Value::Object(m)).expect("write stats");
    }
}

/// Read a replay/ops file: returns its non-empty lines.
pub fn read_lines(p: &std::path::Path) -> Vec<String> {
    std::fs::read_to_string(p)
        .expect("read replay")
        .lines()
        .map(|l| l.to_string())
        .filter(|l| !l.is_empty())
        .collect()
}
