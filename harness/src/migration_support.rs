//! C03 support: a gated world for two real proxies (`SharedForwardHandler`) and two storing fake
//! Redis nodes.  Every backend command (from a proxy backend connection or from a `RedisClient` of
//! the migrating task) and every proxy-to-proxy command (UMCTL PRECHECK/PRESWITCH/FINALSWITCH,
//! UMSYNC, redirected data commands) stops at a gate; the scheduler of `umh_migration` decides
//! which pending command runs next.  One connection = one FIFO, as with a real socket.
use futures::channel::{mpsc, oneshot};
use futures::{Future, Sink, StreamExt};
use std::collections::{BTreeMap, VecDeque};
use std::net::SocketAddr;
use std::pin::Pin;
use std::sync::{Arc, Mutex};
use std::task::{Context, Poll};
use undermoon::protocol::{
    Array, BinSafeStr, BulkStr, OptionalMulti, RedisClient, RedisClientError, RedisClientFactory, Resp,
    RespPacket, RespVec,
};
use undermoon::proxy::backend::{BackendError, ConnFactory, ConnSink, ConnStream, CreateConnResult};

pub const SRC_REDIS: &str = "127.0.0.1:6379";
pub const DST_REDIS: &str = "127.0.0.1:7000";
pub const SRC_PROXY: &str = "127.0.0.1:5299";
pub const DST_PROXY: &str = "127.0.0.1:6000";

#[derive(Clone, Copy, PartialEq, Eq, Debug)]
pub enum Target {
    RedisSrc,
    RedisDst,
    ProxyS,
    ProxyD,
}

impl Target {
    pub fn from_port(port: u16) -> Option<Target> {
        match port {
            6379 => Some(Target::RedisSrc),
            7000 => Some(Target::RedisDst),
            5299 => Some(Target::ProxyS),
            6000 => Some(Target::ProxyD),
            _ => None,
        }
    }
    pub fn code(self) -> &'static str {
        match self {
            Target::RedisSrc => "rs",
            Target::RedisDst => "rd",
            Target::ProxyS => "ps",
            Target::ProxyD => "pd",
        }
    }
    pub fn is_redis(self) -> bool {
        matches!(self, Target::RedisSrc | Target::RedisDst)
    }
}

pub struct Pending {
    /// position inside the pipeline (`execute(Multi)`) that sent it; 0 for single commands
    pub pos: usize,
    pub args: Vec<Vec<u8>>,
    pub reply: oneshot::Sender<RespVec>,
}

pub struct Conn {
    pub label: String,
    /// 'S' or 'D': the proxy process that opened the connection
    pub owner: char,
    /// 'c' = backend connection of the proxy (`ConnFactory`), 'x' = `RedisClient` of the migrating task
    pub kind: char,
    pub target: Target,
    pub pending: VecDeque<Pending>,
}

#[derive(Default)]
pub struct World {
    pub conns: Vec<Conn>,
    pub store: [BTreeMap<Vec<u8>, Vec<u8>>; 2],
    /// fixed key universe of the case (SCAN order)
    pub universe: Vec<Vec<u8>>,
    /// counts every arrival at a gate and every completed client reply (quiescence detection)
    pub events: u64,
    /// completed client ops: (op id, reply)
    pub done: Vec<(u64, RespVec)>,
}

pub type Shared = Arc<Mutex<World>>;

impl World {
    pub fn new_conn(&mut self, owner: char, kind: char, target: Target) -> usize {
        let n = self
            .conns
            .iter()
            .filter(|c| c.owner == owner && c.kind == kind && c.target == target)
            .count();
        let label = format!("{}{}-{}-{}", owner, kind, target.code(), n);
        self.conns.push(Conn { label, owner, kind, target, pending: VecDeque::new() });
        self.conns.len() - 1
    }

    pub fn arrive(&mut self, conn: usize, args: Vec<Vec<u8>>) -> oneshot::Receiver<RespVec> {
        self.arrive_at(conn, args, 0)
    }

    pub fn arrive_at(&mut self, conn: usize, args: Vec<Vec<u8>>, pos: usize) -> oneshot::Receiver<RespVec> {
        let (tx, rx) = oneshot::channel();
        self.events += 1;
        if let Some(c) = self.conns.get_mut(conn) {
            c.pending.push_back(Pending { pos, args, reply: tx });
        }
        rx
    }

    pub fn conn_by_label(&self, label: &str) -> Option<usize> {
        self.conns.iter().position(|c| c.label == label)
    }

    /// the fake Redis: executes one command on node `n` (0 = src, 1 = dst)
    pub fn redis_exec(&mut self, n: usize, args: &[Vec<u8>]) -> RespVec {
        let name = args.first().map(|a| a.to_ascii_uppercase()).unwrap_or_default();
        let key = args.get(1).cloned().unwrap_or_default();
        let universe = self.universe.clone();
        let st = &mut self.store[n];
        let int = |i: i64| Resp::Integer(i.to_string().into_bytes());
        let bulk = |o: Option<Vec<u8>>| match o {
            Some(v) => Resp::Bulk(BulkStr::Str(v)),
            None => Resp::Bulk(BulkStr::Nil),
        };
        match name.as_slice() {
            b"PING" => Resp::Simple(b"PONG".to_vec()),
            b"GET" => bulk(st.get(&key).cloned()),
            b"SET" => {
                st.insert(key, args.get(2).cloned().unwrap_or_default());
                Resp::Simple(b"OK".to_vec())
            }
            b"GETSET" => {
                let old = st.insert(key, args.get(2).cloned().unwrap_or_default());
                bulk(old)
            }
            b"DEL" | b"UNLINK" => {
                let mut c = 0;
                for k in args.iter().skip(1) {
                    if st.remove(k).is_some() {
                        c += 1;
                    }
                }
                int(c)
            }
            b"EXISTS" => int(if st.contains_key(&key) { 1 } else { 0 }),
            b"DUMP" => bulk(st.get(&key).cloned()),
            b"PTTL" => int(if st.contains_key(&key) { -1 } else { -2 }),
            b"RESTORE" => {
                if st.contains_key(&key) {
                    Resp::Error(b"BUSYKEY Target key name already exists.".to_vec())
                } else {
                    st.insert(key, args.get(3).cloned().unwrap_or_default());
                    Resp::Simple(b"OK".to_vec())
                }
            }
            // SINTERSTORE dest src: only the case "src does not exist" (dest is deleted, reply 0)
            b"SINTERSTORE" => {
                let other = args.get(2).cloned().unwrap_or_default();
                if st.contains_key(&other) {
                    Resp::Error(b"WRONGTYPE Operation against a key holding the wrong kind of value".to_vec())
                } else {
                    st.remove(&key);
                    int(0)
                }
            }
            b"SCAN" => {
                let cur: usize = std::str::from_utf8(&key).ok().and_then(|s| s.parse().ok()).unwrap_or(0);
                let count: usize = args
                    .get(3)
                    .and_then(|c| std::str::from_utf8(c).ok())
                    .and_then(|s| s.parse().ok())
                    .unwrap_or(10)
                    .max(1);
                let end = (cur + count).min(universe.len());
                let keys: Vec<RespVec> = universe
                    .get(cur.min(universe.len())..end)
                    .unwrap_or(&[])
                    .iter()
                    .filter(|k| st.contains_key(*k))
                    .map(|k| Resp::Bulk(BulkStr::Str(k.clone())))
                    .collect();
                let next = if end >= universe.len() { 0 } else { end };
                Resp::Arr(Array::Arr(vec![
                    Resp::Bulk(BulkStr::Str(next.to_string().into_bytes())),
                    Resp::Arr(Array::Arr(keys)),
                ]))
            }
            _ => Resp::Error(b"ERR unknown command".to_vec()),
        }
    }
}

pub fn packet_args(pkt: &RespPacket) -> Vec<Vec<u8>> {
    match pkt.to_resp_vec() {
        Resp::Arr(Array::Arr(items)) => items
            .into_iter()
            .map(|r| match r {
                Resp::Bulk(BulkStr::Str(s)) => s,
                _ => b"?".to_vec(),
            })
            .collect(),
        _ => vec![b"?".to_vec()],
    }
}

/// one token per reply, stable across runs
pub fn show_resp(r: &RespVec) -> String {
    fn txt(b: &[u8]) -> String {
        let s: String = b
            .iter()
            .take_while(|c| **c != b' ' && **c != b':')
            .map(|c| if c.is_ascii_graphic() { *c as char } else { '?' })
            .collect();
        s
    }
    match r {
        Resp::Simple(s) => format!("+{}", txt(s)),
        Resp::Error(s) => format!("-{}", txt(s)),
        Resp::Integer(s) => format!(":{}", String::from_utf8_lossy(s)),
        Resp::Bulk(BulkStr::Nil) => "nil".to_string(),
        Resp::Bulk(BulkStr::Str(s)) => format!("${}", String::from_utf8_lossy(s)),
        Resp::Arr(Array::Nil) => "*nil".to_string(),
        Resp::Arr(Array::Arr(items)) => {
            let inner: Vec<String> = items.iter().map(show_resp).collect();
            format!("*[{}]", inner.join(","))
        }
    }
}

// ---------------------------------------------------------------------------------------------
// ConnFactory: backend connections of a proxy
// ---------------------------------------------------------------------------------------------
pub struct GateConnFactory {
    pub world: Shared,
    pub owner: char,
}

struct GateSink {
    world: Shared,
    conn: usize,
    order: mpsc::UnboundedSender<oneshot::Receiver<RespVec>>,
}

impl Sink<RespPacket> for GateSink {
    type Error = BackendError;
    fn poll_ready(self: Pin<&mut Self>, _: &mut Context<'_>) -> Poll<Result<(), Self::Error>> {
        Poll::Ready(Ok(()))
    }
    fn start_send(self: Pin<&mut Self>, item: RespPacket) -> Result<(), Self::Error> {
        let args = packet_args(&item);
        let rx = match self.world.lock() {
            Ok(mut w) => w.arrive(self.conn, args),
            Err(_) => return Err(BackendError::InvalidState),
        };
        self.order.unbounded_send(rx).map_err(|_| BackendError::Canceled)
    }
    fn poll_flush(self: Pin<&mut Self>, _: &mut Context<'_>) -> Poll<Result<(), Self::Error>> {
        Poll::Ready(Ok(()))
    }
    fn poll_close(self: Pin<&mut Self>, _: &mut Context<'_>) -> Poll<Result<(), Self::Error>> {
        Poll::Ready(Ok(()))
    }
}

impl ConnFactory for GateConnFactory {
    type Pkt = RespPacket;

    fn create_conn(
        &self,
        addr: SocketAddr,
    ) -> Pin<Box<dyn Future<Output = CreateConnResult<Self::Pkt>> + Send>> {
        let world = self.world.clone();
        let owner = self.owner;
        Box::pin(async move {
            let target = Target::from_port(addr.port()).ok_or(BackendError::InvalidAddress)?;
            let conn = world.lock().map_err(|_| BackendError::InvalidState)?.new_conn(owner, 'c', target);
            let (otx, orx) = mpsc::unbounded::<oneshot::Receiver<RespVec>>();
            let sink: ConnSink<RespPacket> = Box::pin(GateSink { world, conn, order: otx });
            let stream: ConnStream<RespPacket> = Box::pin(orx.then(|rx| async move {
                rx.await.map(RespPacket::Data).map_err(|_| BackendError::Canceled)
            }));
            Ok((sink, stream))
        })
    }
}

// ---------------------------------------------------------------------------------------------
// RedisClientFactory: clients of the migrating task (scan, UMSYNC fast path, handshake)
// ---------------------------------------------------------------------------------------------
pub struct GateClientFactory {
    pub world: Shared,
    pub owner: char,
}

pub struct GateClient {
    world: Shared,
    conn: usize,
}

impl RedisClient for GateClient {
    fn execute<'s>(
        &'s mut self,
        command: OptionalMulti<Vec<BinSafeStr>>,
    ) -> Pin<Box<dyn Future<Output = Result<OptionalMulti<RespVec>, RedisClientError>> + Send + 's>> {
        let world = self.world.clone();
        let conn = self.conn;
        Box::pin(async move {
            let (single, cmds) = match command {
                OptionalMulti::Single(c) => (true, vec![c]),
                OptionalMulti::Multi(v) => (false, v),
            };
            let mut rxs = vec![];
            for (pos, c) in cmds.into_iter().enumerate() {
                let is_ping = c.first().map(|n| n.eq_ignore_ascii_case(b"PING")).unwrap_or(false);
                if is_ping {
                    let (tx, rx) = oneshot::channel();
                    let _ = tx.send(Resp::Simple(b"PONG".to_vec()));
                    rxs.push(rx);
                } else {
                    let rx = world.lock().map_err(|_| RedisClientError::InvalidState)?.arrive_at(conn, c, pos);
                    rxs.push(rx);
                }
            }
            let mut out = vec![];
            for rx in rxs {
                out.push(rx.await.map_err(|_| RedisClientError::Canceled)?);
            }
            if single {
                out.pop().map(OptionalMulti::Single).ok_or(RedisClientError::InvalidState)
            } else {
                Ok(OptionalMulti::Multi(out))
            }
        })
    }
}

impl RedisClientFactory for GateClientFactory {
    type Client = GateClient;

    fn create_client<'s>(
        &'s self,
        address: String,
    ) -> Pin<Box<dyn Future<Output = Result<Self::Client, RedisClientError>> + Send + 's>> {
        let world = self.world.clone();
        let owner = self.owner;
        Box::pin(async move {
            let port: u16 = address
                .rsplit(':')
                .next()
                .and_then(|p| p.parse().ok())
                .ok_or(RedisClientError::InvalidAddress)?;
            let target = Target::from_port(port).ok_or(RedisClientError::InvalidAddress)?;
            let conn = world.lock().map_err(|_| RedisClientError::InvalidState)?.new_conn(owner, 'x', target);
            Ok(GateClient { world, conn })
        })
    }
}

// ---------------------------------------------------------------------------------------------
// register linearizability (per key), unique written values
// ---------------------------------------------------------------------------------------------
#[derive(Clone, Debug)]
pub enum HCmd {
    Get,
    Set(String),
    GetSet(String),
    Del,
    /// SINTERSTORE k <missing>
    DelStore,
}

#[derive(Clone, Debug)]
pub struct HOp {
    pub id: u64,
    pub cmd: HCmd,
    pub inv: u64,
    /// None: no (usable) response: the op may or may not have taken effect
    pub ret: Option<(u64, String)>,
}

fn apply(cmd: &HCmd, v: &Option<String>) -> (Option<String>, String) {
    let show = |o: &Option<String>| match o {
        Some(s) => format!("${}", s),
        None => "nil".to_string(),
    };
    match cmd {
        HCmd::Get => (v.clone(), show(v)),
        HCmd::Set(x) => (Some(x.clone()), "+OK".to_string()),
        HCmd::GetSet(x) => (Some(x.clone()), show(v)),
        HCmd::Del => (None, if v.is_some() { ":1".to_string() } else { ":0".to_string() }),
        HCmd::DelStore => (None, ":0".to_string()),
    }
}

/// Is there a linearization of `ops` (respecting real-time order of completed ops) that starts
/// from `init` and, if `fin` is given, ends with that register content?  Ops without a response
/// may be placed anywhere after their invocation or left out.
pub fn linearizable(ops: &[HOp], init: &Option<String>, fin: Option<&Option<String>>) -> bool {
    let n = ops.len();
    if n > 20 {
        return true;
    }
    let mut seen = std::collections::HashSet::new();
    fn go(
        ops: &[HOp],
        mask: u32,
        val: &Option<String>,
        fin: Option<&Option<String>>,
        seen: &mut std::collections::HashSet<(u32, Option<String>)>,
    ) -> bool {
        let n = ops.len();
        let all_done = (0..n).all(|i| mask & (1 << i) != 0 || ops[i].ret.is_none());
        if all_done && fin.map(|f| f == val).unwrap_or(true) {
            return true;
        }
        if !seen.insert((mask, val.clone())) {
            return false;
        }
        // the earliest response among not yet linearized completed ops bounds who may go next
        let min_ret = (0..n)
            .filter(|i| mask & (1 << i) == 0)
            .filter_map(|i| ops[i].ret.as_ref().map(|r| r.0))
            .min()
            .unwrap_or(u64::MAX);
        for i in 0..n {
            if mask & (1 << i) != 0 || ops[i].inv > min_ret {
                continue;
            }
            let (nv, rep) = apply(&ops[i].cmd, val);
            if let Some((_, r)) = &ops[i].ret {
                if *r != rep {
                    continue;
                }
            }
            if go(ops, mask | (1 << i), &nv, fin, seen) {
                return true;
            }
        }
        false
    }
    go(ops, 0, init, fin, &mut seen)
}
