//! C08 (session half): the real `handle_session` of src/proxy/session.rs over loopback TCP, with
//! a scripted `CmdHandler`: every request gets a real `new_command_pair` oneshot whose
//! `CmdReplySender` is completed (sent once, sent twice, sent an error, or dropped) by a completer
//! task in a scripted order, while the client writes a pipeline of 1–200 requests in split writes
//! and reads the replies.
//!
//! Line protocol:
//!   `req <id> <mode>`            one request of the pipeline (mode: ok eio eun edr eca ebe ein drop dbl errok) -> `-`
//!   `go <splitseed> <order>`     run: `order` = ids in completion order -> the replies the client read,
//!                                in order: `r<id>` or `E:<CommandError>`
//!   `half <splitseed> <order>`   same but the client shuts its write side down right after the last
//!                                request byte (the session ends when it sees EOF) -> `prefix-ok` iff
//!                                what the client read is a prefix of the expected reply sequence
//!   `idle <ms>`                  session_timeout = ms, the client stays silent -> `closed`
//!   `bp <splitseed> <sndbuf> <rcvbuf> <delay_ms> <chunk> <order>`   write backpressure: the proxy-side socket gets
//!                                SO_SNDBUF = sndbuf, the client SO_RCVBUF = rcvbuf (0 = kernel default), the client
//!                                starts reading `delay_ms` after its last request byte, `chunk` bytes per read with
//!                                pauses, and sends nothing more; requests of mode `L<n>` are answered by a bulk
//!                                string of n bytes (id, then filler) -> the replies read, as for `go`
//! The Lean driver runs `Um.Session.step` on the same script (`request` per req line, then per id of
//! `order` the sends / drop of its mode, `pump`, `writeOne`*).
//!
//! Oracle (no model): exactly one reply per request, in request order, the i-th reply being the
//! first value sent on the i-th request's oneshot (Dropped when dropped); a second send is refused;
//! under write backpressure every reply arrives completely (a reply prefix followed by 3 s without a byte,
//! while the client keeps reading and sends nothing, is silence).
use futures::future::Either;
use serde_json::json;
use std::collections::BTreeMap;
use std::sync::{Arc, Mutex};
use std::time::Duration;
use tokio::io::{AsyncReadExt, AsyncWriteExt};
use tokio::net::{TcpListener, TcpStream};
use umharness::util::*;
use undermoon::protocol::{BulkStr, Resp, RespPacket};
use undermoon::proxy::command::{new_command_pair, CmdReplySender, Command, CommandError, TaskReply};
use undermoon::proxy::session::{handle_session, CmdHandler, CmdReplyFuture};
use undermoon::proxy::slowlog::Slowlog;

const MODES: [&str; 10] = ["ok", "eio", "eun", "edr", "eca", "ebe", "ein", "drop", "dbl", "errok"];

fn digits(b: &[u8]) -> u64 {
    std::str::from_utf8(b).ok().and_then(|s| s.parse().ok()).unwrap_or(0)
}

#[derive(Default)]
struct Table {
    senders: BTreeMap<u64, (CmdReplySender, Box<RespPacket>)>,
    second_send_accepted: u64,
    second_sends: u64,
    handled: u64,
}

struct Handler {
    table: Arc<Mutex<Table>>,
    notify: Arc<tokio::sync::Notify>,
}

impl CmdHandler for Handler {
    fn handle_cmd(&self, cmd: Command) -> CmdReplyFuture {
        let id = cmd.get_command_element(1).map(digits).unwrap_or(0);
        let (s, r) = new_command_pair(&cmd);
        {
            let mut t = self.table.lock().unwrap();
            t.handled += 1;
            t.senders.insert(id, (s, cmd.into_packet()));
        }
        self.notify.notify_one();
        Either::Left(r)
    }
    fn handle_slowlog(&self, _request: Box<RespPacket>, _slowlog: Slowlog) {}
}

fn ok_reply(req: Box<RespPacket>, tag: u64) -> Result<Box<TaskReply>, CommandError> {
    let pkt = RespPacket::Data(Resp::Bulk(BulkStr::Str(tag.to_string().into_bytes())));
    Ok(Box::new(TaskReply::new(req, Box::new(pkt), Slowlog::new(0, false))))
}

fn big_payload(id: u64, n: usize) -> Vec<u8> {
    let mut v = id.to_string().into_bytes();
    while v.len() < n {
        v.push(b'x');
    }
    v
}

fn big_reply(req: Box<RespPacket>, id: u64, n: usize) -> Result<Box<TaskReply>, CommandError> {
    let pkt = RespPacket::Data(Resp::Bulk(BulkStr::Str(big_payload(id, n))));
    Ok(Box::new(TaskReply::new(req, Box::new(pkt), Slowlog::new(0, false))))
}

fn big_size(mode: &str) -> Option<usize> {
    mode.strip_prefix('L').and_then(|s| s.parse().ok())
}

fn complete(table: &Arc<Mutex<Table>>, id: u64, mode: &str) {
    let (mut s, req) = match table.lock().unwrap().senders.remove(&id) {
        Some(x) => x,
        None => return,
    };
    let req2 = req.clone();
    let mut second = None;
    match mode {
        "ok" => {
            let _ = s.send(ok_reply(req, id));
        }
        "eio" => {
            let _ = s.send(Err(CommandError::Io(std::io::Error::from(std::io::ErrorKind::BrokenPipe))));
        }
        "eun" => {
            let _ = s.send(Err(CommandError::UnexpectedResponse));
        }
        "edr" => {
            let _ = s.send(Err(CommandError::Dropped));
        }
        "eca" => {
            let _ = s.send(Err(CommandError::Canceled));
        }
        "ebe" => {
            let _ = s.send(Err(CommandError::BackendError));
        }
        "ein" => {
            let _ = s.send(Err(CommandError::InnerError));
        }
        "dbl" => {
            let _ = s.send(ok_reply(req, id));
            second = Some(s.send(ok_reply(req2, 0)));
        }
        "errok" => {
            let _ = s.send(Err(CommandError::Io(std::io::Error::from(std::io::ErrorKind::BrokenPipe))));
            second = Some(s.send(ok_reply(req2, id)));
        }
        m => {
            if let Some(n) = big_size(m) {
                let _ = s.send(big_reply(req, id, n));
            } /* else: drop */
        }
    }
    if let Some(r) = second {
        let mut t = table.lock().unwrap();
        t.second_sends += 1;
        if r.is_ok() {
            t.second_send_accepted += 1;
        }
    }
    drop(s);
}

fn expected(id: u64, mode: &str) -> String {
    match mode {
        "ok" | "dbl" => format!("r{}", id),
        m if big_size(m).is_some() => format!("r{}", id),
        "eio" | "errok" => "E:Io".to_string(),
        "eun" => "E:UnexpectedResponse".to_string(),
        "edr" | "drop" => "E:Dropped".to_string(),
        "eca" => "E:Canceled".to_string(),
        "ebe" => "E:BackendError".to_string(),
        "ein" => "E:InnerError".to_string(),
        _ => "?".to_string(),
    }
}

/// parse as many complete replies as `buf` holds: (token, payload size); also (have, need) of a
/// trailing incomplete bulk reply
fn parse_replies_ext(buf: &[u8]) -> (Vec<(String, usize)>, Option<(usize, usize)>) {
    let mut out = vec![];
    let mut i = 0;
    let find_crlf = |from: usize| -> Option<usize> {
        let mut j = from;
        while j + 1 < buf.len() {
            if buf[j] == b'\r' && buf[j + 1] == b'\n' {
                return Some(j);
            }
            j += 1;
            if j > from + 64 {
                return None;
            }
        }
        None
    };
    let mut partial = None;
    while i < buf.len() {
        let e = match find_crlf(i) {
            Some(e) => e,
            None => {
                partial = Some((buf.len() - i, 0));
                break;
            }
        };
        match buf[i] {
            b'$' => {
                let n = digits(&buf[i + 1..e]) as usize;
                let start = e + 2;
                if start + n + 2 > buf.len() {
                    partial = Some((buf.len() - i, start + n + 2 - i));
                    break;
                }
                let payload = &buf[start..start + n];
                let nd = payload.iter().take_while(|b| b.is_ascii_digit()).count();
                let filler_ok = payload[nd..].iter().all(|b| *b == b'x');
                if filler_ok && &buf[start + n..start + n + 2] == b"\r\n" {
                    out.push((format!("r{}", digits(&payload[..nd])), n));
                } else {
                    out.push(("?".to_string(), n));
                }
                i = start + n + 2;
            }
            b'-' => {
                let line = String::from_utf8_lossy(&buf[i + 1..e]).to_string();
                let kind = line.strip_prefix("Err cmd error ").unwrap_or("?");
                let kind = kind.split('(').next().unwrap_or("?");
                out.push((format!("E:{}", kind), 0));
                i = e + 2;
            }
            _ => {
                out.push(("?".to_string(), 0));
                i = e + 2;
            }
        }
    }
    (out, partial)
}

fn parse_replies(buf: &[u8]) -> Vec<String> {
    parse_replies_ext(buf).0.into_iter().map(|x| x.0).collect()
}

#[derive(Clone, Copy)]
struct Bp {
    sndbuf: u32,
    rcvbuf: u32,
    delay_ms: u64,
    chunk: usize,
}

struct CaseRes {
    replies: Vec<String>,
    sizes: Vec<usize>,
    partial: Option<(usize, usize)>,
    bytes: usize,
    second_sends: u64,
    second_accepted: u64,
    eof: bool,
    session_result: String,
}

async fn run_case(
    reqs: &[(u64, String)],
    order: &[u64],
    splitseed: u64,
    half: bool,
    idle_ms: Option<u64>,
    bp: Option<Bp>,
) -> CaseRes {
    // the accepted (proxy-side) socket inherits the listener's SO_SNDBUF
    let lsock = tokio::net::TcpSocket::new_v4().expect("socket");
    if let Some(b) = bp {
        if b.sndbuf > 0 {
            lsock.set_send_buffer_size(b.sndbuf).expect("sndbuf");
        }
    }
    lsock.bind("127.0.0.1:0".parse().expect("addr")).expect("bind");
    let listener: TcpListener = lsock.listen(8).expect("listen");
    let addr = listener.local_addr().expect("addr");
    let table = Arc::new(Mutex::new(Table::default()));
    let notify = Arc::new(tokio::sync::Notify::new());
    let handler = Arc::new(Handler { table: table.clone(), notify: notify.clone() });
    let timeout = idle_ms.map(Duration::from_millis);
    let server = tokio::spawn(async move {
        let (sock, _) = listener.accept().await.expect("accept");
        let _ = sock.set_nodelay(true);
        let r = handle_session(handler, sock, timeout).await;
        format!("{:?}", r.map_err(|e| format!("{:?}", e).split('(').next().unwrap_or("").to_string()))
    });
    // completer
    let modes: BTreeMap<u64, String> = reqs.iter().cloned().collect();
    let order2: Vec<u64> = order.to_vec();
    let table2 = table.clone();
    let notify2 = notify.clone();
    let completer = tokio::spawn(async move {
        for id in order2 {
            let mut waited = 0;
            loop {
                let have = table2.lock().unwrap().senders.contains_key(&id);
                if have {
                    break;
                }
                if tokio::time::timeout(Duration::from_millis(200), notify2.notified()).await.is_err() {
                    waited += 1;
                    if waited > 25 {
                        return;
                    }
                }
            }
            let mode = modes.get(&id).cloned().unwrap_or_default();
            complete(&table2, id, &mode);
        }
    });
    let mut rng = Rng::new(splitseed);
    let csock = tokio::net::TcpSocket::new_v4().expect("socket");
    if let Some(b) = bp {
        if b.rcvbuf > 0 {
            csock.set_recv_buffer_size(b.rcvbuf).expect("rcvbuf");
        }
    }
    let sock: TcpStream = csock.connect(addr).await.expect("connect");
    let _ = sock.set_nodelay(true);
    let (mut rd, mut wr) = sock.into_split();
    let mut bytes = vec![];
    for (id, _) in reqs {
        let ids = id.to_string();
        bytes.extend_from_slice(format!("*2\r\n$4\r\nECHO\r\n${}\r\n{}\r\n", ids.len(), ids).as_bytes());
    }
    let n = reqs.len();
    let written_all = Arc::new(tokio::sync::Notify::new());
    let written_all2 = written_all.clone();
    let writer = async {
        if idle_ms.is_some() {
            return wr;
        }
        let mut i = 0;
        while i < bytes.len() {
            let k = match rng.below(6) {
                0 => 1,
                1 => rng.range(1, 7) as usize,
                2 => rng.range(1, 40) as usize,
                3 => rng.range(20, 400) as usize,
                _ => bytes.len(),
            }
            .min(bytes.len() - i);
            if wr.write_all(&bytes[i..i + k]).await.is_err() {
                break;
            }
            let _ = wr.flush().await;
            i += k;
            match rng.below(4) {
                0 => tokio::task::yield_now().await,
                1 => tokio::time::sleep(Duration::from_micros(rng.below(300))).await,
                _ => (),
            }
        }
        if half {
            let _ = wr.shutdown().await;
        }
        written_all.notify_one();
        wr
    };
    let reader = async {
        let mut buf = vec![];
        let mut eof = false;
        if let Some(b) = bp {
            // a slow client: starts reading late, small reads with pauses, sends nothing more
            written_all2.notified().await;
            tokio::time::sleep(Duration::from_millis(b.delay_ms)).await;
            let mut chunk = vec![0u8; b.chunk.max(1)];
            let mut since_pause = 0usize;
            loop {
                let (done, _) = parse_replies_ext(&buf);
                if done.len() >= n {
                    break;
                }
                // 3 s without a single byte while replies are owed = silence
                match tokio::time::timeout(Duration::from_secs(3), rd.read(&mut chunk)).await {
                    Err(_) => break,
                    Ok(Ok(0)) | Ok(Err(_)) => {
                        eof = true;
                        break;
                    }
                    Ok(Ok(k)) => {
                        buf.extend_from_slice(&chunk[..k]);
                        since_pause += k;
                        if b.chunk <= 4096 && since_pause >= 16 * 1024 {
                            since_pause = 0;
                            tokio::time::sleep(Duration::from_millis(1)).await;
                        }
                    }
                }
            }
            return (buf, eof);
        }
        let deadline = tokio::time::Instant::now() + Duration::from_secs(8);
        loop {
            if parse_replies(&buf).len() >= n && idle_ms.is_none() {
                break;
            }
            let mut chunk = [0u8; 4096];
            match tokio::time::timeout_at(deadline, rd.read(&mut chunk)).await {
                Err(_) => break,
                Ok(Ok(0)) => {
                    eof = true;
                    break;
                }
                Ok(Ok(k)) => buf.extend_from_slice(&chunk[..k]),
                Ok(Err(_)) => {
                    eof = true;
                    break;
                }
            }
        }
        (buf, eof)
    };
    let (wr, (buf, eof)) = tokio::join!(writer, reader);
    drop(wr);
    drop(rd);
    let session_result = match tokio::time::timeout(Duration::from_secs(5), server).await {
        Ok(Ok(s)) => s,
        _ => "hung".to_string(),
    };
    completer.abort();
    let t = table.lock().unwrap();
    let (ext, partial) = parse_replies_ext(&buf);
    CaseRes {
        replies: ext.iter().map(|x| x.0.clone()).collect(),
        sizes: ext.iter().map(|x| x.1).collect(),
        partial,
        bytes: buf.len(),
        second_sends: t.second_sends,
        second_accepted: t.second_send_accepted,
        eof,
        session_result,
    }
}

enum Kind {
    Go,
    Half,
    Idle(u64),
    Bp(Bp),
}

struct Case {
    reqs: Vec<(u64, String)>,
    order: Vec<u64>,
    splitseed: u64,
    kind: Kind,
}

fn gen_case(rng: &mut Rng, st: &mut Stats, thorough: bool) -> Case {
    let n = match rng.below(6) {
        0 => 1,
        1 => rng.range(2, 6),
        2 => rng.range(6, 30),
        3 => rng.range(30, 100),
        4 => rng.range(100, 200),
        _ => {
            if thorough {
                200
            } else {
                rng.range(1, 60)
            }
        }
    } as usize;
    st.count(&format!("gen.n.{}", if n == 1 { "1" } else if n <= 5 { "2-5" } else if n <= 29 { "6-29" } else if n <= 99 { "30-99" } else { "100-200" }));
    let allok = rng.chance(1, 3);
    let mut reqs = vec![];
    for i in 0..n {
        let id = match rng.below(3) {
            0 => i as u64 + 1,
            1 => 5_000 + i as u64,
            _ => 9_000_000 + i as u64,
        };
        let mode = if allok { "ok" } else { *rng.pick(&MODES) };
        st.count(&format!("gen.mode.{}", mode));
        reqs.push((id, mode.to_string()));
    }
    let mut order: Vec<u64> = reqs.iter().map(|r| r.0).collect();
    match rng.below(4) {
        0 => st.count("gen.order.fifo"),
        1 => {
            st.count("gen.order.reverse");
            order.reverse()
        }
        _ => {
            st.count("gen.order.random");
            for i in (1..order.len()).rev() {
                let j = rng.below(i as u64 + 1) as usize;
                order.swap(i, j);
            }
        }
    }
    let kind = match rng.below(12) {
        0 => Kind::Half,
        1 => {
            if rng.chance(1, 3) {
                Kind::Idle(*rng.pick(&[20u64, 50]))
            } else {
                Kind::Go
            }
        }
        _ => Kind::Go,
    };
    Case { reqs, order, splitseed: rng.next_u64() % 1_000_000, kind }
}

/// write-backpressure family: large replies, small socket buffers, slow reader
fn gen_bp(rng: &mut Rng, st: &mut Stats, thorough: bool) -> Case {
    let n = rng.range(1, if thorough { 8 } else { 4 }) as usize;
    let sizes: &[usize] = if thorough {
        &[65_536, 100_000, 262_144, 1_048_576, 4_194_304]
    } else {
        &[65_536, 262_144, 1_048_576]
    };
    let mut reqs = vec![];
    let mut total = 0usize;
    for i in 0..n {
        let id = 1 + i as u64;
        let mode = if i == 0 || rng.chance(1, 2) {
            let mut sz = *rng.pick(sizes);
            if total + sz > 6 * 1_048_576 {
                sz = 65_536;
            }
            total += sz;
            format!("L{}", sz)
        } else {
            (*rng.pick(&["ok", "ok", "eio", "drop"])).to_string()
        };
        st.count(&format!("gen.bp.mode.{}", if mode.starts_with('L') { "large" } else { "small" }));
        reqs.push((id, mode));
    }
    let mut order: Vec<u64> = reqs.iter().map(|r| r.0).collect();
    if rng.chance(1, 3) {
        order.reverse();
    }
    let bp = match rng.below(5) {
        0 | 1 => Bp { sndbuf: 4096, rcvbuf: 4096, delay_ms: 200, chunk: 1024 },
        2 => Bp { sndbuf: 4096, rcvbuf: 4096, delay_ms: *rng.pick(&[0u64, 20, 100]), chunk: *rng.pick(&[512usize, 4096, 65536]) },
        3 => Bp { sndbuf: 8192, rcvbuf: 2048, delay_ms: 50, chunk: 700 },
        _ => Bp { sndbuf: 0, rcvbuf: 0, delay_ms: 0, chunk: 65536 },
    };
    st.count(&format!("gen.bp.bufs.{}", if bp.sndbuf == 0 { "default" } else { "small" }));
    st.add("gen.bp.reply_bytes", total as u64);
    Case { reqs, order, splitseed: rng.next_u64() % 1_000_000, kind: Kind::Bp(bp) }
}

fn main() {
    let args = parse_args();
    let mut rng = Rng::new(args.seed);
    let mut s = Streams::new(&args);
    let mut cases: Vec<Case> = vec![];
    if let Some(p) = &args.replay {
        let mut reqs: Vec<(u64, String)> = vec![];
        for l in read_lines(p) {
            if l.starts_with('#') {
                continue;
            }
            let t: Vec<&str> = l.split(' ').collect();
            let ord = |x: Option<&&str>| -> Vec<u64> {
                x.map(|o| o.split(',').filter_map(|v| v.parse().ok()).collect()).unwrap_or_default()
            };
            match t.first().copied() {
                Some("case") => reqs.clear(),
                Some("req") if t.len() >= 3 => reqs.push((t[1].parse().unwrap_or(0), t[2].to_string())),
                Some("go") | Some("half") if t.len() >= 2 => {
                    let kind = if t[0] == "go" { Kind::Go } else { Kind::Half };
                    cases.push(Case { reqs: std::mem::take(&mut reqs), order: ord(t.get(2)), splitseed: t[1].parse().unwrap_or(0), kind });
                }
                Some("bp") if t.len() >= 6 => {
                    let bp = Bp {
                        sndbuf: t[2].parse().unwrap_or(0),
                        rcvbuf: t[3].parse().unwrap_or(0),
                        delay_ms: t[4].parse().unwrap_or(0),
                        chunk: t[5].parse().unwrap_or(1024),
                    };
                    cases.push(Case { reqs: std::mem::take(&mut reqs), order: ord(t.get(6)), splitseed: t[1].parse().unwrap_or(0), kind: Kind::Bp(bp) });
                }
                Some("idle") if t.len() >= 2 => {
                    cases.push(Case { reqs: std::mem::take(&mut reqs), order: vec![], splitseed: 0, kind: Kind::Idle(t[1].parse().unwrap_or(20)) });
                }
                _ => (),
            }
        }
    } else {
        let n = if args.thorough { 12000 } else { 250 };
        for _ in 0..n {
            cases.push(gen_case(&mut rng, &mut s.stats, args.thorough));
        }
        let nbp = if args.thorough { 160 } else { 10 };
        for _ in 0..nbp {
            cases.push(gen_bp(&mut rng, &mut s.stats, args.thorough));
        }
    }
    let rt = tokio::runtime::Builder::new_current_thread().enable_all().build().expect("runtime");
    for case in cases.iter() {
        let c = s.case();
        let mut replay = vec![format!("case {}", c)];
        for (id, m) in case.reqs.iter() {
            let l = format!("req {} {}", id, m);
            replay.push(l.clone());
            s.op(&l, "-");
        }
        let order_txt = case.order.iter().map(|i| i.to_string()).collect::<Vec<_>>().join(",");
        let exp: Vec<String> = case.reqs.iter().map(|(i, m)| expected(*i, m)).collect();
        match case.kind {
            Kind::Go => {
                let l = format!("go {} {}", case.splitseed, order_txt);
                replay.push(l.clone());
                let r = rt.block_on(run_case(&case.reqs, &case.order, case.splitseed, false, None, None));
                s.op(&l, &r.replies.join(" "));
                s.stats.count("gen.kind.go");
                s.stats.add("out.replies", r.replies.len() as u64);
                if r.replies.len() != exp.len() {
                    s.stats.oracle_failure(c, &format!("C08: {} requests, {} replies read (session: {})", exp.len(), r.replies.len(), r.session_result), "", replay.clone());
                } else if let Some(i) = (0..exp.len()).find(|i| exp[*i] != r.replies[*i]) {
                    s.stats.oracle_failure(c, &format!("C08: reply {} is {} but request {} ({}) is owed {}", i, r.replies[i], case.reqs[i].0, case.reqs[i].1, exp[i]), "", replay.clone());
                }
                if r.second_accepted > 0 {
                    s.stats.oracle_failure(c, "C08: CmdReplySender accepted a second send", "", replay.clone());
                }
                s.stats.add("out.second_send_refused", r.second_sends - r.second_accepted);
                if case.reqs.len() >= 2 && case.reqs.iter().any(|r| r.1 != "ok") {
                    s.stats.nontrivial_case(&replay.join("|"));
                }
                if c <= 2 {
                    s.stats.sample(json!({"case": c, "requests": case.reqs.len(), "order": order_txt, "replies": r.replies}));
                }
            }
            Kind::Half => {
                let l = format!("half {} {}", case.splitseed, order_txt);
                replay.push(l.clone());
                let r = rt.block_on(run_case(&case.reqs, &case.order, case.splitseed, true, None, None));
                let ok = r.replies.len() <= exp.len() && (0..r.replies.len()).all(|i| exp[i] == r.replies[i]);
                s.op(&l, if ok { "prefix-ok" } else { "prefix-bad" });
                s.stats.count("gen.kind.half");
                s.stats.add("out.half.replies_read", r.replies.len() as u64);
                s.stats.add("out.half.replies_owed", exp.len() as u64);
                if !ok {
                    s.stats.oracle_failure(c, &format!("C08: after a half-close the client read {:?}, not a prefix of {:?}", r.replies, exp), "", replay.clone());
                }
                if !r.eof {
                    s.stats.count("out.half.no_eof");
                }
            }
            Kind::Bp(bp) => {
                let l = format!("bp {} {} {} {} {} {}", case.splitseed, bp.sndbuf, bp.rcvbuf, bp.delay_ms, bp.chunk, order_txt);
                replay.push(l.clone());
                let r = rt.block_on(run_case(&case.reqs, &case.order, case.splitseed, false, None, Some(bp)));
                s.op(&l, &r.replies.join(" "));
                s.stats.count("gen.kind.bp");
                s.stats.add("out.bp.bytes_read", r.bytes as u64);
                if r.replies.len() != exp.len() {
                    let what = match r.partial {
                        Some((have, need)) => format!(
                            "C08: silence under write backpressure: {} of {} replies complete, reply {} truncated after {} of {} bytes, then nothing for 3 s although the client keeps reading and sends nothing (session: {})",
                            r.replies.len(), exp.len(), r.replies.len(), have, need, r.session_result),
                        None => format!(
                            "C08: silence under write backpressure: {} of {} replies arrived ({} bytes), then nothing for 3 s (session: {})",
                            r.replies.len(), exp.len(), r.bytes, r.session_result),
                    };
                    s.stats.oracle_failure(c, &what, "", replay.clone());
                } else if let Some(i) = (0..exp.len()).find(|i| exp[*i] != r.replies[*i]) {
                    s.stats.oracle_failure(c, &format!("C08: reply {} is {} but request {} ({}) is owed {}", i, r.replies[i], case.reqs[i].0, case.reqs[i].1, exp[i]), "", replay.clone());
                } else if let Some(i) = (0..exp.len()).find(|i| big_size(&case.reqs[*i].1).map(|n| n != r.sizes[*i]).unwrap_or(false)) {
                    s.stats.oracle_failure(c, &format!("C08: reply {} has {} payload bytes, request {} is owed {}", i, r.sizes[i], case.reqs[i].0, case.reqs[i].1), "", replay.clone());
                }
                s.stats.nontrivial_case(&replay.join("|"));
            }
            Kind::Idle(ms) => {
                let l = format!("idle {}", ms);
                replay.push(l.clone());
                let r = rt.block_on(run_case(&[], &[], 0, false, Some(ms), None));
                let ok = r.eof && r.replies.is_empty();
                s.op(&l, if ok { "closed" } else { "open" });
                s.stats.count("gen.kind.idle");
                if !ok {
                    s.stats.oracle_failure(c, "C08: idle session was not closed by session_timeout", "", replay.clone());
                }
            }
        }
    }
    s.finish("session", "pipeline of at least 2 requests with at least one non-ok completion (error, drop, double send)");
}
