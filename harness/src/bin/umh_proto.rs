//! C17: control-plane wire encodings through the real encoders/decoders of undermoon.
//!
//! Wire convention of this stream: every Rust string / RESP payload travels as ONE hex token
//! (`-` = empty), numbers in decimal, structured values in the flat prefix syntax documented at
//! the top of lean/UmDriver/Proto.lean (also implemented in src/proto_support.rs).
//!
//! The oracle (Rust only, never consults the Lean model):
//!  * round trip: a well-formed value decodes from its own encoding to an equal value; any
//!    plain-expressible cluster meta, whatever its range lists look like, decodes from both the plain
//!    and the compressed form to its *compacted* value (plain == compressed; fix 23e5d8f) (also SETREPL, task descriptor through the INFOMGR journey,
//!    SwitchArg);
//!  * no misparse: whenever a (mutated) argument vector is accepted, re-encoding the accepted
//!    value and decoding again yields the same value (so the vector is an encoding of what it
//!    was parsed to); a corrupted compressed blob is rejected or decodes to the original value;
//!  * damaged range tokens: a plain SETCLUSTER vector / a task descriptor produced by the real encoder
//!    from a well-formed value and then damaged in ONE range token (no '-', non-numeric, missing
//!    start/end, garbage, empty, deleted) or cut inside a range list must be rejected; if it is
//!    accepted with fewer ranges than declared: "a damaged range token was dropped …";
//!  * C17_task_commit: on a real `MetaStore` with pending migrations, the descriptor served to the
//!    source proxy (MIGRATING) and to the destination proxy (IMPORTING) of every pending migration,
//!    taken through the INFOMGR string and the real coordinator parser, is accepted by the real
//!    `commit_migration` exactly once (whichever side reports first; the second submission gets
//!    MIGRATION_TASK_NOT_FOUND); a tag-None descriptor gets INVALID_MIGRATION_TASK;
//!  * F8: an argument vector containing an element that is not a UTF-8 bulk string must not be
//!    accepted by `ProxyClusterMeta::from_resp` / `ReplicatorMeta::from_resp`.
use serde_json::json;
use std::convert::TryFrom;
use std::future::Future;
use std::pin::Pin;
use std::sync::Arc;
use umharness::proto_support::*;
use umharness::util::*;
use umharness::broker_support::render_store;
use undermoon::broker::verif_export::store::{MetaStore, MetaStoreError};
use undermoon::common::cluster::{ClusterName, MigrationTaskMeta, RangeList, SlotRangeTag};
use undermoon::common::config::ClusterConfig;
use undermoon::common::proto::{ClusterMapFlags, ProxyClusterMeta, ProxyClusterMetaData};
use undermoon::coordinator::verif_export::core::MigrationStateChecker;
use undermoon::coordinator::verif_export::migration::MigrationStateRespChecker;
use undermoon::migration::task::{parse_switch_command, SwitchArg};
use undermoon::protocol::{
    Array, BinSafeStr, OptionalMulti, RedisClient, RedisClientError, RedisClientFactory, Resp, RespVec,
};
use undermoon::replication::replicator::{encode_repl_meta, ReplicatorMeta};

// ------------------------------------------------------------------------------------------
// helpers
// ------------------------------------------------------------------------------------------
fn sp(v: &[String]) -> String {
    v.join(" ")
}
fn toks_hex(v: &[String]) -> Vec<String> {
    v.iter().map(|s| hs(s)).collect()
}
fn catch<T>(f: impl FnOnce() -> T) -> Option<T> {
    std::panic::catch_unwind(std::panic::AssertUnwindSafe(f)).ok()
}

/// DEC: what the real `from_compressed_data` makes of the 4th string token
fn dec_of(tok: Option<&String>) -> (Vec<String>, Option<DData>) {
    match tok {
        None => (vec!["X".into()], None),
        Some(t) => match catch(|| ProxyClusterMetaData::from_compressed_data(t.clone())) {
            Some(Ok(d)) => match d_data(&d) {
                Some(dd) => {
                    let mut o = vec!["D".to_string()];
                    t_data(&dd, &mut o);
                    (o, Some(dd))
                }
                None => (vec!["E".into()], None),
            },
            _ => (vec!["E".into()], None),
        },
    }
}

type ParseRes = Result<(ProxyClusterMeta, bool), String>;

fn render_parse(r: &Option<ParseRes>) -> String {
    match r {
        None => "PANIC".into(),
        Some(Ok((m, ext))) => {
            let mut o = vec!["OK".to_string()];
            o.extend(render_meta(m));
            o.push(if *ext { "1" } else { "0" }.into());
            sp(&o)
        }
        Some(Err(e)) => format!("ERR {}", e),
    }
}

fn real_parse(toks: &[String]) -> Option<ParseRes> {
    catch(|| {
        let mut it = toks.to_vec().into_iter().peekable();
        match ProxyClusterMeta::parse(&mut it) {
            Ok((m, ext)) => Ok((m, ext.is_ok())),
            Err(e) => Err(format!("{:?}", e)),
        }
    })
}

fn real_from_resp(cmd: &Option<Vec<El>>) -> Option<ParseRes> {
    catch(|| {
        let resp: RespVec = cmd_resp(cmd, &|b: &[u8]| b.to_vec());
        match ProxyClusterMeta::from_resp(&resp) {
            Ok((m, ext)) => Ok((m, ext.is_ok())),
            Err(e) => Err(format!("{:?}", e)),
        }
    })
}

/// the string tokens an element vector denotes when every element is a UTF-8 bulk string
fn surviving_strings(cmd: &Option<Vec<El>>) -> (Vec<String>, bool) {
    let mut v = vec![];
    let mut all_valid = true;
    if let Some(els) = cmd {
        for e in els.iter().skip(2) {
            match e {
                El::B(b) => match String::from_utf8(b.clone()) {
                    Ok(s) => v.push(s),
                    Err(_) => all_valid = false,
                },
                _ => all_valid = false,
            }
        }
    }
    (v, all_valid)
}

fn render_repl(r: &Option<Result<ReplicatorMeta, String>>) -> String {
    match r {
        None => "PANIC".into(),
        Some(Ok(m)) => {
            let mut o = vec!["OK".to_string()];
            t_repl(&d_repl(m), &mut o);
            sp(&o)
        }
        Some(Err(e)) => format!("ERR {}", e),
    }
}

fn real_repl_parse(cmd: &Option<Vec<El>>) -> Option<Result<ReplicatorMeta, String>> {
    catch(|| {
        let resp: RespVec = cmd_resp(cmd, &|b: &[u8]| b.to_vec());
        ReplicatorMeta::from_resp(&resp).map_err(|e| format!("{:?}", e))
    })
}

// --- the real coordinator-side decoder of one INFOMGR reply element -------------------------
struct OneReplyClient(RespVec);
impl RedisClient for OneReplyClient {
    fn execute<'s>(
        &'s mut self,
        _command: OptionalMulti<Vec<BinSafeStr>>,
    ) -> Pin<Box<dyn Future<Output = Result<OptionalMulti<RespVec>, RedisClientError>> + Send + 's>> {
        let r = self.0.clone();
        Box::pin(async move { Ok(OptionalMulti::Single(r)) })
    }
}
struct OneReplyFactory(std::sync::Mutex<RespVec>);
impl RedisClientFactory for OneReplyFactory {
    type Client = OneReplyClient;
    fn create_client<'s>(
        &'s self,
        _address: String,
    ) -> Pin<Box<dyn Future<Output = Result<Self::Client, RedisClientError>> + Send + 's>> {
        let r = self.0.lock().map(|g| g.clone()).unwrap_or(Resp::Arr(Array::Nil));
        Box::pin(async move { Ok(OneReplyClient(r)) })
    }
}
/// UMCTL INFOMGR reply `[element]` through the real `MigrationStateRespChecker::check`
fn real_infomgr(el: &El) -> Option<Option<MigrationTaskMeta>> {
    catch(|| {
        use futures::StreamExt;
        let reply: RespVec = Resp::Arr(Array::Arr(vec![el_resp(el, &|b: &[u8]| b.to_vec())]));
        let checker = MigrationStateRespChecker::new(Arc::new(OneReplyFactory(std::sync::Mutex::new(reply))));
        let items: Vec<_> = futures::executor::block_on(checker.check("127.0.0.1:1".to_string()).collect::<Vec<_>>());
        match items.into_iter().next() {
            Some(Ok(m)) => Some(m),
            _ => None,
        }
    })
}

fn render_task(r: &Option<Option<MigrationTaskMeta>>, leftover: Option<usize>) -> String {
    match r {
        None => "PANIC".into(),
        Some(None) => "ERR".into(),
        Some(Some(t)) => {
            let mut o = vec!["OK".to_string()];
            t_task(&d_task(t), &mut o);
            if let Some(n) = leftover {
                o.push(n.to_string());
            }
            sp(&o)
        }
    }
}

// ------------------------------------------------------------------------------------------
// one function per op kind: runs the real code, writes the op line + observable, returns
// what the oracle needs
// ------------------------------------------------------------------------------------------
struct H {
    s: Streams,
    /// how many failures of each known-finding class have been recorded (the rest is counted)
    finding_recorded: std::collections::BTreeMap<String, u32>,
    /// the real store of the commit leg during a replay
    rstore: Option<MetaStore>,
    /// op lines of the current commit-leg case (the replay of a failure there)
    commit_ops: Vec<String>,
    /// replay directive `#!reject`: the next decode line is a damaged encoding and must be refused
    expect_reject: bool,
}

impl H {
    fn fail(&mut self, what: &str, finding: &str, replay: Vec<String>) {
        if !finding.is_empty() {
            let n = self.finding_recorded.entry(what.to_string()).or_insert(0);
            *n += 1;
            if *n > 2 {
                self.s.stats.count(&format!("oracle.{}.further_occurrences", finding));
                return;
            }
        }
        let c = self.s.cases;
        self.s.stats.oracle_failure(c, what, finding, replay);
    }

    /// `toargs`: the meta is described in the iteration order of the real maps and the config
    /// order is read off the real output (§2.3: the implementation's choice is fed to the model)
    fn op_toargs(&mut self, d: &DMeta) -> Option<(Vec<String>, String)> {
        let m = real_meta(d)?;
        let args = catch(|| m.to_args())?;
        let mut dd = d_meta(&m);
        dd.data.cluster = d.data.cluster.clone();
        let names = ["compression_strategy", "migration_max_migration_time", "migration_max_blocking_time",
                     "migration_scan_interval", "migration_scan_count"];
        let mut order = String::new();
        if let Some(ci) = args.iter().rposition(|t| t == "CONFIG") {
            let mut i = ci + 1;
            while let Some(t) = args.get(i) {
                match names.iter().position(|n| n == t) {
                    Some(k) => order.push_str(&k.to_string()),
                    None => order.push('?'),
                }
                i += 2;
            }
        }
        let mut o = vec!["toargs".to_string(), order];
        t_meta(&dd, &mut o);
        let op = sp(&o);
        let obs = format!("A {}", sp(&toks_hex(&args)));
        self.s.op(&op, obs.trim_end());
        Some((args, op))
    }

    fn op_toargsc(&mut self, d: &DMeta) -> Option<(Vec<String>, String)> {
        let m = real_meta(d)?;
        let args = catch(|| m.to_compressed_args())?.ok()?;
        let blob = args.get(3)?.clone();
        let mut o = vec!["toargsc".to_string(), hs(&blob)];
        t_meta(&d_meta(&m), &mut o);
        let op = sp(&o);
        self.s.op(&op, &format!("A {}", sp(&toks_hex(&args))));
        Some((args, op))
    }

    fn op_parse(&mut self, toks: &[String]) -> (Option<ParseRes>, String, Option<DData>) {
        let (dec, dd) = dec_of(toks.get(3));
        let r = real_parse(toks);
        let mut o = vec!["parse".to_string()];
        o.extend(dec);
        o.extend(toks_hex(toks));
        let op = sp(&o);
        self.s.op(&op, &render_parse(&r));
        self.s.stats.count(match &r { Some(Ok((_, true))) => "out.parse.ok", Some(Ok((_, false))) => "out.parse.ok_ext_err",
                                      Some(Err(_)) => "out.parse.err", None => "out.parse.PANIC" });
        if let Some(Err(e)) = &r { self.s.stats.count(&format!("out.parse.err.{}", e)); }
        (r, op, dd)
    }

    fn op_fromresp(&mut self, cmd: &Option<Vec<El>>) -> (Option<ParseRes>, String) {
        let (surv, _) = surviving_strings(cmd);
        let (dec, _) = dec_of(surv.get(3));
        let r = real_from_resp(cmd);
        let mut o = vec!["fromresp".to_string()];
        o.extend(dec);
        o.extend(cmd_toks(cmd));
        let op = sp(&o);
        self.s.op(&op, &render_parse(&r));
        self.s.stats.count(match &r { Some(Ok(_)) => "out.fromresp.ok", Some(Err(_)) => "out.fromresp.err", None => "out.fromresp.PANIC" });
        (r, op)
    }

    fn op_replenc(&mut self, d: &DRepl) -> Option<(Vec<String>, String)> {
        let m = real_repl(d)?;
        let args = catch(|| encode_repl_meta(m))?;
        let mut o = vec!["replenc".to_string()];
        t_repl(d, &mut o);
        let op = sp(&o);
        self.s.op(&op, &format!("A {}", sp(&toks_hex(&args))));
        Some((args, op))
    }

    fn op_repl(&mut self, cmd: &Option<Vec<El>>) -> (Option<Result<ReplicatorMeta, String>>, String) {
        let r = real_repl_parse(cmd);
        let mut o = vec!["repl".to_string()];
        o.extend(cmd_toks(cmd));
        let op = sp(&o);
        self.s.op(&op, &render_repl(&r));
        self.s.stats.count(match &r { Some(Ok(_)) => "out.repl.ok", Some(Err(_)) => "out.repl.err", None => "out.repl.PANIC" });
        if let Some(Err(e)) = &r { self.s.stats.count(&format!("out.repl.err.{}", e)); }
        (r, op)
    }

    /// proxy side of INFOMGR: `task.into_strings().join(" ")` (the one-line body of
    /// `handle_umctl_info_migration`, mirrored here; the executor itself is driven by C03/C10)
    fn op_taskenc(&mut self, d: &DTask) -> Option<(String, String)> {
        let t = real_task(d)?;
        let s = catch(|| t.into_strings().join(" "))?;
        let mut o = vec!["taskenc".to_string()];
        t_task(d, &mut o);
        let op = sp(&o);
        self.s.op(&op, &format!("S {}", hs(&s)));
        Some((s, op))
    }

    fn op_infomgr(&mut self, el: &El) -> (Option<Option<MigrationTaskMeta>>, String) {
        let r = real_infomgr(el);
        let op = format!("infomgr {}", el_tok(el));
        self.s.op(&op, &render_task(&r, None));
        self.s.stats.count(match &r { Some(Some(_)) => "out.infomgr.ok", Some(None) => "out.infomgr.err", None => "out.infomgr.PANIC" });
        (r, op)
    }

    fn op_taskfs(&mut self, toks: &[String]) -> (Option<Option<MigrationTaskMeta>>, String) {
        let mut left = 0usize;
        let r = catch(|| {
            let mut it = toks.to_vec().into_iter().peekable();
            let r = MigrationTaskMeta::from_strings(&mut it);
            (r, it.count())
        })
        .map(|(r, n)| { left = n; r });
        let op = format!("taskfs {}", sp(&toks_hex(toks)));
        self.s.op(op.trim_end(), &render_task(&r, Some(left)));
        self.s.stats.count(match &r { Some(Some(_)) => "out.taskfs.ok", Some(None) => "out.taskfs.err", None => "out.taskfs.PANIC" });
        (r, op)
    }

    fn op_switchenc(&mut self, d: &DSwitch) -> Option<(Vec<String>, String)> {
        let a = real_switch(d)?;
        let args = catch(|| a.into_strings())?;
        let mut o = vec!["switchenc".to_string()];
        t_switch(d, &mut o);
        let op = sp(&o);
        self.s.op(&op, &format!("A {}", sp(&toks_hex(&args))));
        Some((args, op))
    }

    fn op_switchfs(&mut self, toks: &[String]) -> (Option<Option<SwitchArg>>, String) {
        let mut left = 0usize;
        let r = catch(|| {
            let mut it = toks.to_vec().into_iter().peekable();
            let r = SwitchArg::from_strings(&mut it);
            (r, it.count())
        })
        .map(|(r, n)| { left = n; r });
        let op = format!("switchfs {}", sp(&toks_hex(toks)));
        let obs = match &r {
            None => "PANIC".to_string(),
            Some(None) => "ERR".to_string(),
            Some(Some(a)) => { let mut o = vec!["OK".to_string()]; t_switch(&d_switch(a), &mut o); o.push(left.to_string()); sp(&o) }
        };
        self.s.op(op.trim_end(), &obs);
        self.s.stats.count(match &r { Some(Some(_)) => "out.switchfs.ok", _ => "out.switchfs.err" });
        (r, op)
    }

    fn op_switchcmd(&mut self, cmd: &Option<Vec<El>>) -> (Option<Option<SwitchArg>>, String) {
        let r = catch(|| {
            let resp: Resp<&[u8]> = cmd_resp(cmd, &|b| b);
            parse_switch_command(&resp)
        });
        let op = format!("switchcmd {}", sp(&cmd_toks(cmd)));
        let obs = match &r {
            None => "PANIC".to_string(),
            Some(None) => "ERR".to_string(),
            Some(Some(a)) => { let mut o = vec!["OK".to_string()]; t_switch(&d_switch(a), &mut o); sp(&o) }
        };
        self.s.op(&op, &obs);
        self.s.stats.count(match &r { Some(Some(_)) => "out.switchcmd.ok", _ => "out.switchcmd.err" });
        (r, op)
    }

    fn op_rangelist(&mut self, s: &str) -> Option<Vec<(usize, usize)>> {
        let r = catch(|| RangeList::try_from(s).ok());
        let obs = match &r {
            None => "PANIC".to_string(),
            Some(None) => "ERR".to_string(),
            Some(Some(rl)) => {
                let mut o = vec!["OK".to_string(), rl.get_ranges().len().to_string()];
                for x in rl.get_ranges() { o.push(x.start().to_string()); o.push(x.end().to_string()); }
                sp(&o)
            }
        };
        self.s.op(&format!("rangelist {}", hs(s)), &obs);
        self.s.stats.count(match &r { Some(Some(_)) => "out.rangelist.ok", _ => "out.rangelist.err" });
        r.flatten().map(|rl| rl.get_ranges().iter().map(|x| (x.start(), x.end())).collect())
    }

    fn op_flags(&mut self, s: &str) {
        let f = ClusterMapFlags::from_arg(s);
        self.s.op(&format!("flags {}", hs(s)), &format!("{} {}", f.force as u8, f.compress as u8));
    }
    fn op_flagenc(&mut self, force: bool, compress: bool) {
        let a = ClusterMapFlags { force, compress }.to_arg();
        self.s.op(&format!("flagenc {} {}", force as u8, compress as u8), &hs(&a));
    }
    fn op_cfgfield(&mut self, f: &str, v: &str) {
        let mut c = ClusterConfig::default();
        let obs = match c.set_field(f, v) {
            Ok(()) => { let mut o = vec!["OK".to_string()]; t_cfg(&d_cfg(&c), &mut o); sp(&o) }
            Err(_) => "ERR".to_string(),
        };
        self.s.stats.count(if obs == "ERR" { "out.cfgfield.err" } else { "out.cfgfield.ok" });
        self.s.op(&format!("cfgfield {} {}", hs(f), hs(v)), &obs);
    }
    fn op_casemap(&mut self, upper: bool, s: &str) {
        let m = if upper { s.to_uppercase() } else { s.to_lowercase() };
        let mut sk: Vec<u8> = vec![];
        let mut in_run = false;
        for b in m.bytes() {
            if b >= 0x80 { if !in_run { sk.push(b'?'); } in_run = true; } else { sk.push(b); in_run = false; }
        }
        self.s.op(&format!("casemap {} {}", if upper { "u" } else { "l" }, hs(s)), &hex(&sk));
    }
    fn op_cname(&mut self, s: &str) {
        let ok = ClusterName::try_from(s).is_ok();
        self.s.op(&format!("cname {}", hs(s)), if ok { "1" } else { "0" });
    }
    fn op_utf8(&mut self, b: &[u8]) {
        let ok = std::str::from_utf8(b).is_ok();
        self.s.stats.count(if ok { "out.utf8.valid" } else { "out.utf8.invalid" });
        self.s.op(&format!("utf8 {}", hex(b)), if ok { "1" } else { "0" });
    }
}

// ------------------------------------------------------------------------------------------
// generators (type-directed; mostly valid + a malformed stream)
// ------------------------------------------------------------------------------------------
const WEIRD: [&str; 16] = ["", " ", "a b", "peer", "PEER", "Config", "MIGRATING", "importing", "0", "1", "+1", "ünï:1",
                           "pe\u{212A}r", "\u{FB01}", "-", "v2"];

fn gen_addr(rng: &mut Rng, st: &mut Stats, clean: &mut bool) -> String {
    match rng.below(90) {
        0 => { *clean = false; st.count("gen.addr.weird"); rng.pick(&WEIRD).to_string() }
        1 => { st.count("gen.addr.host"); format!("redis-{}.svc.local:{}", rng.below(50), 6000 + rng.below(100)) }
        2 => { st.count("gen.addr.unicode"); format!("hôst{}:{}", rng.below(9), 7000 + rng.below(10)) }
        _ => format!("127.0.0.{}:{}", rng.below(8), 7000 + rng.below(6)),
    }
}

fn gen_u64(rng: &mut Rng) -> u64 {
    match rng.below(10) {
        0 => u64::MAX,
        1 => u64::MAX - rng.below(3),
        2 => 0,
        3 => rng.next_u64(),
        _ => rng.below(100_000),
    }
}

/// a compact range list (what `RangeList::new` produces): sorted, s<=e, gaps >= 2
fn gen_compact_ranges(rng: &mut Rng, n: usize) -> Vec<(usize, usize)> {
    let mut v = vec![];
    let mut cur = rng.below(50) as usize;
    for _ in 0..n {
        let len = if rng.chance(1, 4) { 0 } else { rng.below(2000) as usize };
        v.push((cur, cur + len));
        cur = cur + len + 2 + rng.below(300) as usize;
    }
    if n > 0 && rng.chance(1, 30) {
        // the top of the usize range (wrapping `end + 1`)
        if let Some(l) = v.last_mut() { *l = (usize::MAX - rng.below(3) as usize - 5, usize::MAX - rng.below(3) as usize); }
    }
    v
}

fn gen_mig(rng: &mut Rng, st: &mut Stats, clean: &mut bool) -> DMig {
    DMig { epoch: gen_u64(rng), a: [gen_addr(rng, st, clean), gen_addr(rng, st, clean), gen_addr(rng, st, clean), gen_addr(rng, st, clean)] }
}

/// `wf` is cleared when the slot range is outside what the plain encoder can express faithfully
fn gen_sr(rng: &mut Rng, st: &mut Stats, wf: &mut bool, clean: &mut bool) -> DSr {
    let n = match rng.below(20) { 0 => 0, 1..=11 => 1, 12..=16 => 2 + rng.below(3) as usize, 17..=18 => 5 + rng.below(8) as usize, _ => 20 + rng.below(30) as usize };
    st.count(&format!("gen.ranges.{}", match n { 0 => "0", 1 => "1", 2..=4 => "2-4", 5..=12 => "5-12", _ => "20+" }));
    let mut ranges = gen_compact_ranges(rng, n);
    if rng.chance(1, 60) && n > 0 {
        // not compact: reversed / unsorted / adjacent / overlapping
        *wf = false;
        st.count("gen.ranges.noncompact");
        match rng.below(4) {
            0 => { if let Some(r) = ranges.first_mut() { if r.0 != r.1 { *r = (r.1, r.0); } else { *r = (r.0 + 1, r.0); } } }
            1 => ranges.reverse(),
            2 => { let l = *ranges.last().unwrap_or(&(0, 0)); ranges.push((l.1.wrapping_add(1), l.1.wrapping_add(5))); }
            _ => { let l = *ranges.last().unwrap_or(&(0, 0)); ranges.push((l.0, l.1.wrapping_add(3))); }
        }
        if ranges.len() == 1 && n == 1 && rng.chance(1, 2) { ranges.push(ranges[0]); }
    }
    let tag = match rng.below(3) {
        0 => { st.count("gen.tag.none"); DTag::N }
        1 => { st.count("gen.tag.migrating"); DTag::M(gen_mig(rng, st, clean)) }
        _ => { st.count("gen.tag.importing"); DTag::I(gen_mig(rng, st, clean)) }
    };
    DSr { ranges, tag }
}

fn is_section_word(s: &str) -> bool {
    let u = s.to_uppercase();
    u == "PEER" || u == "CONFIG"
}

fn gen_map(rng: &mut Rng, st: &mut Stats, what: &str, wf: &mut bool, clean: &mut bool) -> DMap {
    let n = match rng.below(12) { 0 => 0, 1..=5 => 1, 6..=8 => 2, 9..=10 => 3 + rng.below(3) as usize, _ => 6 + rng.below(10) as usize };
    st.count(&format!("gen.{}.nodes.{}", what, match n { 0 => "0", 1 => "1", 2 => "2", 3..=5 => "3-5", _ => "6+" }));
    let mut m: DMap = vec![];
    for _ in 0..n {
        let a = gen_addr(rng, st, clean);
        if m.iter().any(|(x, _)| *x == a) { continue; }
        if is_section_word(&a) { *wf = false; st.count("gen.addr.section_word"); }
        let k = match rng.below(48) { 0 => 0, 1..=29 => 1, 30..=41 => 2, _ => 3 + rng.below(3) as usize };
        if k == 0 { *wf = false; st.count("gen.group.empty"); }
        m.push((a, (0..k).map(|_| gen_sr(rng, st, wf, clean)).collect()));
    }
    m
}

fn gen_cfg(rng: &mut Rng, st: &mut Stats, wf: &mut bool) -> DCfg {
    if rng.chance(1, 3) { st.count("gen.cfg.default"); return DCfg { comp: 0, mmt: 10800, mbt: 10000, si: 500, sc: 16 }; }
    let sc = if rng.chance(1, 25) { 0 } else { 1 + gen_u64(rng).saturating_sub(1) };
    if sc == 0 { *wf = false; st.count("gen.cfg.scan_count_zero"); }
    st.count("gen.cfg.custom");
    DCfg { comp: rng.below(3) as u8, mmt: gen_u64(rng), mbt: gen_u64(rng), si: gen_u64(rng), sc }
}

const NAMES: [&str; 8] = ["mycluster", "", "a", "prod@eu-1_x", "0123456789012345678901234567890", "CLUSTER", "t-1", "peer"];

fn gen_name(rng: &mut Rng) -> String {
    if rng.chance(1, 2) { "mycluster".to_string() } else { rng.pick(&NAMES).to_string() }
}

/// returns (meta, well-formed for the plain encoder, all strings free of spaces/oddities)
fn gen_meta(rng: &mut Rng, st: &mut Stats) -> (DMeta, bool) {
    let mut wf = true;
    let mut clean = true;
    let local = gen_map(rng, st, "local", &mut wf, &mut clean);
    let peer = gen_map(rng, st, "peer", &mut wf, &mut clean);
    let cfg = gen_cfg(rng, st, &mut wf);
    let m = DMeta { epoch: gen_u64(rng), force: rng.chance(1, 3), compress: false,
                    data: DData { cluster: gen_name(rng), local, peer, cfg } };
    st.count(if wf { "gen.meta.wellformed" } else { "gen.meta.not_wellformed" });
    (m, wf)
}

fn gen_task(rng: &mut Rng, st: &mut Stats) -> (DTask, bool, bool) {
    let mut wf = true;
    let mut clean = true;
    let sr = gen_sr(rng, st, &mut wf, &mut clean);
    (DTask { cluster: gen_name(rng), sr }, wf, clean)
}

fn gen_repl(rng: &mut Rng, st: &mut Stats) -> DRepl {
    let mut clean = true;
    let mut ent = |rng: &mut Rng, st: &mut Stats| {
        let k = match rng.below(8) { 0 => 0, 1..=5 => 1, _ => 2 + rng.below(3) as usize };
        DEntry { cluster: gen_name(rng), node: gen_addr(rng, st, &mut clean),
                 peers: (0..k).map(|_| (gen_addr(rng, st, &mut clean), gen_addr(rng, st, &mut clean))).collect() }
    };
    let nm = rng.below(4) as usize;
    let nr = rng.below(4) as usize;
    st.count(&format!("gen.repl.masters.{}", nm));
    st.count(&format!("gen.repl.replicas.{}", nr));
    DRepl { epoch: gen_u64(rng), force: rng.chance(1, 2), compress: rng.chance(1, 8),
            masters: (0..nm).map(|_| ent(rng, st)).collect(), replicas: (0..nr).map(|_| ent(rng, st)).collect() }
}

// ------------------------------------------------------------------------------------------
// mutations of one token
// ------------------------------------------------------------------------------------------
/// string-level corruptions (the result is still a Rust `String`)
fn mutate_string(rng: &mut Rng, t: &str) -> (String, &'static str) {
    let chars: Vec<char> = t.chars().collect();
    let pick_pos = |rng: &mut Rng, pred: &dyn Fn(char) -> bool| -> Option<usize> {
        let idx: Vec<usize> = chars.iter().enumerate().filter(|(_, c)| pred(**c)).map(|(i, _)| i).collect();
        if idx.is_empty() { None } else { Some(*rng.pick(&idx)) }
    };
    let with = |i: usize, rep: &str| -> String {
        chars.iter().enumerate().map(|(j, c)| if j == i { rep.to_string() } else { c.to_string() }).collect()
    };
    for _ in 0..6 {
        match rng.below(11) {
            0 => if let Some(i) = pick_pos(rng, &|c| c.is_ascii_digit()) {
                let d = chars[i].to_digit(10).unwrap_or(0);
                let nd = (d + 1 + rng.below(9) as u32) % 10;
                return (with(i, &nd.to_string()), "digit_flip");
            },
            1 => if let Some(i) = pick_pos(rng, &|c| c.is_ascii_digit()) {
                let rep: &str = *rng.pick(&["x", "-", " ", "", "+", "٣"]);
                return (with(i, rep), "digit_to_nondigit");
            },
            2 => if let Some(i) = pick_pos(rng, &|c| c.is_ascii_alphabetic()) {
                let c = chars[i];
                let f = if c.is_ascii_uppercase() { c.to_ascii_lowercase() } else { c.to_ascii_uppercase() };
                return (with(i, &f.to_string()), "case_flip");
            },
            3 => if let Some(i) = pick_pos(rng, &|c| "iIsSkK".contains(c)) {
                let rep = match chars[i] { 'i' | 'I' => *rng.pick(&["ı", "İ"]), 's' | 'S' => *rng.pick(&["ſ", "ß"]), _ => "\u{212A}" };
                return (with(i, rep), "unicode_case");
            },
            4 => if !chars.is_empty() {
                return (chars[..chars.len() - 1].iter().collect(), "truncate_token");
            },
            5 => return (String::new(), "empty_token"),
            6 => return (format!("+{}", t), "prepend_plus"),
            7 => return (format!("{}-9", t), "append_dash"),
            8 => return (format!("0{}", t), "leading_zero"),
            9 => if let Some(i) = pick_pos(rng, &|c| c.is_ascii_alphabetic()) {
                let c = (b'a' + rng.below(26) as u8) as char;
                if c != chars[i] { return (with(i, &c.to_string()), "letter_change"); }
            },
            _ => return (rng.pick(&["PEER", "CONFIG", "MIGRATING", "IMPORTING", "0", "1", "99999999999999999999", "v1", "x"]).to_string(), "replace_word"),
        }
    }
    (format!("{}x", t), "append_x")
}

/// element-level corruptions (what only the RESP layer can carry)
fn mutate_el(rng: &mut Rng, t: &str) -> (El, &'static str) {
    match rng.below(6) {
        0 => { let mut b = t.as_bytes().to_vec(); let i = rng.below(b.len() as u64 + 1) as usize; b.insert(i, 0xFF); (El::B(b), "nonutf8_insert") }
        1 => { let mut b = t.as_bytes().to_vec(); if b.is_empty() { b.push(0x80); } else { let i = rng.below(b.len() as u64) as usize; b[i] |= 0x80; } (El::B(b), "nonutf8_highbit") }
        2 => { let mut b = t.as_bytes().to_vec(); b.extend_from_slice(&[0xE2, 0x82]); (El::B(b), "nonutf8_truncated_char") }
        3 => (El::S(t.as_bytes().to_vec()), "simple_string"),
        4 => (El::O(*rng.pick(&['i', 'e', 'n', 'a', 'z'])), "non_bulk"),
        _ => (El::B(vec![0xC0, 0xAF]), "nonutf8_overlong"),
    }
}

fn wrap_cmd(sub: &str, toks: &[String]) -> Vec<El> {
    let mut v = vec![El::B(b"UMCTL".to_vec()), El::B(sub.as_bytes().to_vec())];
    v.extend(toks.iter().map(|t| El::B(t.as_bytes().to_vec())));
    v
}

// ------------------------------------------------------------------------------------------
// cases + oracle
// ------------------------------------------------------------------------------------------
const F8_CLUSTER: &str = "ProxyClusterMeta::from_resp accepted an argument vector containing an element that is not a UTF-8 bulk string (the element is dropped silently)";
const F8_REPL: &str = "parse_repl_meta accepted an argument vector containing an element that is not a UTF-8 bulk string (the element is dropped silently)";

fn meta_key(m: &ProxyClusterMeta) -> String {
    sp(&render_meta(m))
}
fn meta_key_noflag(m: &ProxyClusterMeta) -> String {
    let mut d = d_meta(m);
    d.compress = false;
    d.data.local = sorted_map(&d.data.local);
    d.data.peer = sorted_map(&d.data.peer);
    let mut o = vec![];
    t_meta(&d, &mut o);
    sp(&o)
}

// ------------------------------------------------------------------------------------------
// damaged range tokens (seeded change C17-4): a message produced by the project's own encoder and
// then damaged in ONE range token, or cut inside a range list, must be rejected.
// ------------------------------------------------------------------------------------------
const DROPPED_RANGE: &str = "a damaged range token was dropped: the message decoded to metadata with fewer ranges than declared";
const DAMAGED_ACCEPTED: &str = "a message with a damaged range token (not of the form start-end) or cut inside a range list was accepted";

/// `start-end` as the encoder writes it
fn is_range_token(t: &str) -> bool {
    let mut it = t.split('-');
    match (it.next(), it.next(), it.next()) {
        (Some(a), Some(b), None) => !a.is_empty() && !b.is_empty() && a.bytes().all(|c| c.is_ascii_digit()) && b.bytes().all(|c| c.is_ascii_digit()),
        _ => false,
    }
}
/// where a range token sits: which section, and under which tag
fn range_token_class(args: &[String], i: usize) -> &'static str {
    let peer = args.iter().take(i).any(|t| t == "PEER");
    let mut j = i;
    while j > 0 && is_range_token(&args[j - 1]) { j -= 1; }
    // args[j-1] is the count, args[j-2] the tag word or the address
    let tag = if j >= 2 { args[j - 2].as_str() } else { "" };
    match (peer, tag) {
        (false, "MIGRATING") => "local_migrating", (false, "IMPORTING") => "local_importing", (false, _) => "local_stable",
        (true, "MIGRATING") => "peer_migrating", (true, "IMPORTING") => "peer_importing", (true, _) => "peer_stable",
    }
}
/// one damaged version of a range token that is certainly not `start-end`
fn damage_range_token(rng: &mut Rng, t: &str) -> (String, &'static str) {
    let (a, b) = t.split_once('-').unwrap_or((t, ""));
    match rng.below(7) {
        0 => (format!("{}{}", a, b), "missing_dash"),
        1 => { let mut c: Vec<char> = t.chars().collect(); let idx: Vec<usize> = c.iter().enumerate().filter(|(_, x)| x.is_ascii_digit()).map(|(i, _)| i).collect();
               let k = *rng.pick(&idx); c[k] = *rng.pick(&['x', 'O', 'l', ' ', '.']); (c.into_iter().collect(), "non_numeric") }
        2 => (format!("{}-", a), "missing_end"),
        3 => (format!("-{}", b), "missing_start"),
        4 => (format!("{}-{}", b.chars().rev().collect::<String>(), "x"), "reversed_garbage"),
        5 => (format!("{}:{}", a, b), "wrong_separator"),
        _ => (String::new(), "empty"),
    }
}
fn total_ranges(m: &ProxyClusterMeta) -> usize {
    m.get_local().values().chain(m.get_peer().values()).flat_map(|v| v.iter()).map(|sr| sr.get_range_list().get_ranges().len()).sum()
}

impl H {
    /// plain SETCLUSTER vector of a well-formed meta: every range token damaged / deleted, and cuts inside range lists
    fn damaged_ranges_cluster(&mut self, rng: &mut Rng, args: &[String], orig_ranges: usize, per_case: usize) {
        let pos: Vec<usize> = (0..args.len()).filter(|&i| is_range_token(&args[i]) && i >= 4).collect();
        if pos.is_empty() { return; }
        // every class present gets at least one position, the rest is sampled
        let mut chosen: Vec<usize> = vec![];
        for cl in ["local_stable", "local_migrating", "local_importing", "peer_stable", "peer_migrating", "peer_importing"] {
            let c: Vec<usize> = pos.iter().cloned().filter(|&i| range_token_class(args, i) == cl).collect();
            if !c.is_empty() { chosen.push(*rng.pick(&c)); }
        }
        while chosen.len() < per_case.min(pos.len()) { let i = *rng.pick(&pos); if !chosen.contains(&i) { chosen.push(i); } }
        for &i in chosen.iter() {
            let cl = range_token_class(args, i);
            let mut variants: Vec<(Vec<String>, String)> = vec![];
            let (t2, kind) = damage_range_token(rng, &args[i]);
            let mut v = args.to_vec(); v[i] = t2; variants.push((v, format!("{}", kind)));
            let mut v = args.to_vec(); v.remove(i); variants.push((v, "deleted".to_string()));
            // the message ends inside the range list
            variants.push((args[..i].to_vec(), "cut_inside_list".to_string()));
            for (v, kind) in variants {
                self.s.stats.count(&format!("gen.damaged_range.{}.{}", cl, kind));
                let (r, op, _) = self.op_parse(&v);
                match &r {
                    Some(Err(_)) => self.s.stats.count("out.damaged_range.rejected"),
                    None => self.fail("panic in ProxyClusterMeta::parse", "", vec![op]),
                    Some(Ok((m2, _))) => {
                        let what = if total_ranges(m2) < orig_ranges { DROPPED_RANGE } else { DAMAGED_ACCEPTED };
                        self.fail(what, "", vec![format!("# plain SETCLUSTER of a well-formed meta, range token #{} ({}) {}", i, cl, kind), "#!reject".to_string(), op]);
                    }
                }
            }
        }
    }

    /// task descriptor (INFOMGR string and token vector): every range token damaged / deleted / list cut
    fn damaged_ranges_task(&mut self, rng: &mut Rng, toks: &[String], orig_ranges: usize) {
        let pos: Vec<usize> = (0..toks.len()).filter(|&i| is_range_token(&toks[i]) && i >= 2).collect();
        for &i in pos.iter() {
            let mut variants: Vec<(Vec<String>, &'static str)> = vec![];
            let (t2, kind) = damage_range_token(rng, &toks[i]);
            if !t2.contains(' ') { let mut v = toks.to_vec(); v[i] = t2; variants.push((v, kind)); }
            let mut v = toks.to_vec(); v.remove(i); variants.push((v, "deleted"));
            variants.push((toks[..i].to_vec(), "cut_inside_list"));
            for (v, kind) in variants {
                self.s.stats.count(&format!("gen.damaged_range.task.{}", kind));
                let (r, op) = self.op_infomgr(&El::B(v.join(" ").into_bytes()));
                let (r2, op2) = self.op_taskfs(&v);
                for (res, o) in [(r, op), (r2, op2)] {
                    match &res {
                        Some(None) => self.s.stats.count("out.damaged_range.task.rejected"),
                        None => self.fail("panic in MigrationTaskMeta::from_strings", "", vec![o]),
                        Some(Some(t)) => {
                            let n = t.slot_range.get_range_list().get_ranges().len();
                            let what = if n < orig_ranges { DROPPED_RANGE } else { DAMAGED_ACCEPTED };
                            self.fail(what, "", vec![format!("# task descriptor, range token #{} {}", i, kind), "#!reject".to_string(), o]);
                        }
                    }
                }
            }
        }
    }
}

/// the description with every range list passed through the real `RangeList::new` (= `compact`):
/// the value both wire forms are specified to denote
fn compacted_desc(d: &DMeta) -> DMeta {
    let cm = |m: &DMap| -> DMap {
        m.iter().map(|(a, srs)| (a.clone(), srs.iter().map(|sr| DSr {
            ranges: RangeList::new(sr.ranges.iter().map(|(s, e)| undermoon::common::cluster::Range(*s, *e)).collect())
                .get_ranges().iter().map(|r| (r.start(), r.end())).collect(),
            tag: sr.tag.clone() }).collect())).collect()
    };
    let mut c = d.clone();
    c.data.local = cm(&d.data.local);
    c.data.peer = cm(&d.data.peer);
    c
}
/// expressible by the plain encoder whatever the range lists look like: no empty group, no
/// section-word address, scan_count != 0
fn is_bd(d: &DMeta) -> bool {
    let okm = |m: &DMap| m.iter().all(|(a, srs)| !srs.is_empty() && !is_section_word(a));
    okm(&d.data.local) && okm(&d.data.peer) && d.data.cfg.sc != 0
}

impl H {
    /// no-misparse oracle on an accepted plain vector: the accepted value re-encodes to a vector
    /// that decodes to the same value
    fn check_accepted_cluster(&mut self, r: &Option<ParseRes>, orig_key: &str, op: &str, kind: &str) {
        match r {
            None => self.fail("panic in ProxyClusterMeta::parse/from_resp", "", vec![op.to_string()]),
            Some(Err(_)) => { self.s.stats.count("mut.cluster.rejected"); self.s.stats.count(&format!("mut.kind.{}.rejected", kind)); }
            Some(Ok((m, ext))) => {
                if !*ext { self.s.stats.count("mut.cluster.accepted_with_warning"); return; }
                let key = meta_key(m);
                self.s.stats.count(if key == orig_key { "mut.cluster.accepted_same_value" } else { "mut.cluster.accepted_other_wellformed_value" });
                self.s.stats.count(&format!("mut.kind.{}.accepted", kind));
                if m.get_flags().compress { return; } // decoded from a blob: checked by the blob oracle
                let again = real_parse(&m.to_args());
                let ok = matches!(&again, Some(Ok((m2, true))) if meta_key(m2) == key);
                if !ok {
                    self.fail("accepted argument vector is not an encoding of the value it was parsed to (re-encode/decode differs)", "", vec![op.to_string()]);
                }
            }
        }
    }

    fn case_cluster(&mut self, rng: &mut Rng, d: &DMeta, wf: bool, budget: usize) {
        self.s.case();
        let m_real = match real_meta(d) { Some(m) => m, None => return };
        let orig_key = meta_key(&m_real);
        let (args, op_enc) = match self.op_toargs(d) { Some(x) => x, None => { self.fail("panic in to_args", "", vec![]); return; } };
        self.s.stats.add("size.plain_tokens", args.len() as u64);
        let (r, op_p, _) = self.op_parse(&args);
        let rt_ok = matches!(&r, Some(Ok((m2, true))) if meta_key(m2) == orig_key);
        if wf {
            if !rt_ok { self.fail("well-formed cluster meta does not decode from its plain encoding to an equal value", "", vec![op_enc.clone(), op_p.clone()]); }
            self.s.stats.nontrivial_case(&op_enc);
        } else {
            self.s.stats.count(if rt_ok { "out.rt.not_wellformed_but_equal" } else { "out.rt.not_wellformed_differs" });
        }
        let bd = is_bd(d);
        if bd {
            // whatever the range lists look like, the plain form denotes the compacted value
            let want = real_meta(&compacted_desc(d)).map(|m| meta_key(&m));
            let got = match &r { Some(Ok((m2, true))) => Some(meta_key(m2)), _ => None };
            if want.is_none() || want != got {
                self.fail("cluster meta does not decode from its plain encoding to its compacted value", "", vec![op_enc.clone(), op_p.clone()]);
            }
            if !wf { self.s.stats.count("out.rt.noncompact_decodes_to_compacted"); }
        }
        let cmd = Some(wrap_cmd("SETCLUSTER", &args));
        let (r2, op_f) = self.op_fromresp(&cmd);
        if render_parse(&r2) != render_parse(&r) {
            self.fail("from_resp of an all-bulk vector differs from parse of the same strings", "", vec![op_f]);
        }
        // compressed path
        let mut dc = d.clone();
        dc.compress = true;
        // both wire forms denote the compacted value (fix 23e5d8f: the compressed branch of parse compacts too)
        let mc_real = match real_meta(&compacted_desc(&dc)) { Some(m) => m, None => return };
        let c_key = meta_key(&mc_real);
        let mut cargs_saved: Option<Vec<String>> = None;
        match self.op_toargsc(&dc) {
            None => self.fail("to_compressed_args failed", "", vec![]),
            Some((cargs, op_ce)) => {
                self.s.stats.add("size.blob_bytes", cargs.get(3).map(|b| b.len()).unwrap_or(0) as u64);
                let (rc, op_cp, _) = self.op_parse(&cargs);
                let ok = matches!(&rc, Some(Ok((m2, true))) if meta_key(m2) == c_key);
                if !ok { self.fail("cluster meta does not decode from its compressed encoding to its compacted value", "", vec![op_ce.clone(), op_cp.clone()]); }
                if bd {
                    if let (Some(Ok((a, _))), Some(Ok((b, _)))) = (&r, &rc) {
                        if meta_key_noflag(a) != meta_key_noflag(b) {
                            self.fail("plain and compressed encodings of a meta decode to different values", "", vec![op_p.clone(), op_cp]);
                        }
                    }
                }
                cargs_saved = Some(cargs);
            }
        }
        // single-token deletions and corruptions of the plain vector
        let n = args.len();
        let positions: Vec<usize> = if n <= budget { (0..n).collect() } else { (0..budget).map(|_| rng.below(n as u64) as usize).collect() };
        for &i in positions.iter() {
            let mut v = args.clone();
            v.remove(i);
            self.s.stats.count("gen.mut.delete");
            let (r, op, _) = self.op_parse(&v);
            self.check_accepted_cluster(&r, &orig_key, &op, "delete");
            let (t2, kind) = mutate_string(rng, &args[i]);
            if t2 != args[i] {
                let mut v = args.clone();
                v[i] = t2;
                self.s.stats.count(&format!("gen.mut.{}", kind));
                let (r, op, _) = self.op_parse(&v);
                self.check_accepted_cluster(&r, &orig_key, &op, kind);
            }
            if rng.chance(1, 2) {
                let (el, kind) = mutate_el(rng, &args[i]);
                let mut els = wrap_cmd("SETCLUSTER", &args);
                els[i + 2] = el;
                self.s.stats.count(&format!("gen.mut.{}", kind));
                let cmd = Some(els);
                let (r, op) = self.op_fromresp(&cmd);
                if matches!(&r, Some(Ok(_))) && !surviving_strings(&cmd).1 {
                    self.fail(F8_CLUSTER, "F8", vec![op.clone()]);
                    self.s.stats.count("out.f8.cluster_accepted_invalid_element");
                }
                self.check_accepted_cluster(&r, &orig_key, &op, kind);
            }
            if rng.chance(1, 5) {
                // an extra element that is not a UTF-8 bulk string, anywhere (also trailing)
                let (el, _) = mutate_el(rng, "x");
                let mut els = wrap_cmd("SETCLUSTER", &args);
                let at = if rng.chance(1, 4) { els.len() } else { i + 2 };
                els.insert(at, el);
                self.s.stats.count("gen.mut.insert_invalid_element");
                let cmd = Some(els);
                let (r, op) = self.op_fromresp(&cmd);
                if matches!(&r, Some(Ok(_))) && !surviving_strings(&cmd).1 {
                    self.fail(F8_CLUSTER, "F8", vec![op.clone()]);
                    self.s.stats.count("out.f8.cluster_accepted_invalid_element");
                }
                self.check_accepted_cluster(&r, &orig_key, &op, "insert_invalid_element");
            }
            if rng.chance(1, 6) && i + 1 < n {
                let mut v = args.clone();
                v.swap(i, i + 1);
                self.s.stats.count("gen.mut.swap_adjacent");
                let (r, op, _) = self.op_parse(&v);
                self.check_accepted_cluster(&r, &orig_key, &op, "swap_adjacent");
            }
            if rng.chance(1, 10) {
                let mut v = args.clone();
                v.insert(i, args[i].clone());
                self.s.stats.count("gen.mut.duplicate");
                let (r, op, _) = self.op_parse(&v);
                self.check_accepted_cluster(&r, &orig_key, &op, "duplicate");
            }
        }
        // targeted: one damaged range token / a cut inside a range list must be rejected
        if wf {
            let orig_ranges = total_ranges(&m_real);
            let per_case = if budget > 30 { 10 } else { 6 };
            self.damaged_ranges_cluster(rng, &args, orig_ranges, per_case);
        }
        // corruptions of the compressed vector
        if let Some(cargs) = cargs_saved {
            for _ in 0..4 {
                let mut v = cargs.clone();
                let blob: Vec<char> = v[3].chars().collect();
                let kind = match rng.below(6) {
                    0 => { let k = rng.below(blob.len() as u64) as usize; v[3] = blob[..k].iter().collect(); "blob_truncate" }
                    1 => { let k = rng.below(blob.len() as u64) as usize; let mut b = blob.clone();
                           b[k] = *rng.pick(&['A', 'B', 'z', '0', '+', '/', '=', '!']); v[3] = b.iter().collect(); "blob_char_change" }
                    2 => { let k = rng.below(blob.len() as u64) as usize; let mut b = blob.clone(); b.remove(k); v[3] = b.iter().collect(); "blob_char_delete" }
                    3 => { v.remove(rng.below(4) as usize); "compressed_delete_token" }
                    4 => { v.push(rng.pick(&WEIRD).to_string()); "compressed_trailing_token" }
                    _ => { let (t, _) = mutate_string(rng, &cargs[2]); v[2] = t; "compressed_flag_change" }
                };
                self.s.stats.count(&format!("gen.mut.{}", kind));
                let (r, op, _) = self.op_parse(&v);
                match &r {
                    Some(Ok((m2, _))) if m2.get_flags().compress => {
                        self.s.stats.count(&format!("mut.blob.{}.accepted", kind));
                        let mut a = d_meta(m2); let mut b = d_meta(&mc_real);
                        a.data.local = sorted_map(&a.data.local); a.data.peer = sorted_map(&a.data.peer);
                        b.data.local = sorted_map(&b.data.local); b.data.peer = sorted_map(&b.data.peer);
                        if a.data != b.data && kind.starts_with("blob_") {
                            self.fail("a corrupted compressed blob decoded to different metadata", "", vec![op]);
                        }
                    }
                    Some(Ok(_)) => { self.check_accepted_cluster(&r, &c_key, &op, kind); }
                    Some(Err(_)) => self.s.stats.count(&format!("mut.blob.{}.rejected", kind)),
                    None => self.fail("panic in parse (compressed)", "", vec![op]),
                }
            }
        }
    }

    fn check_accepted_repl(&mut self, r: &Option<Result<ReplicatorMeta, String>>, op: &str) {
        match r {
            None => self.fail("panic in parse_repl_meta", "", vec![op.to_string()]),
            Some(Err(_)) => self.s.stats.count("mut.repl.rejected"),
            Some(Ok(m)) => {
                self.s.stats.count("mut.repl.accepted");
                let d = d_repl(m);
                let args = encode_repl_meta(m.clone());
                let again = real_repl_parse(&Some(wrap_cmd("SETREPL", &args)));
                if !matches!(&again, Some(Ok(m2)) if d_repl(m2) == d) {
                    self.fail("accepted SETREPL vector is not an encoding of the value it was parsed to", "", vec![op.to_string()]);
                }
            }
        }
    }

    fn case_repl(&mut self, rng: &mut Rng, d: &DRepl) {
        self.s.case();
        let (args, op_e) = match self.op_replenc(d) { Some(x) => x, None => return };
        let (r, op_p) = self.op_repl(&Some(wrap_cmd("SETREPL", &args)));
        if !matches!(&r, Some(Ok(m)) if d_repl(m) == *d) {
            self.fail("replication meta does not decode from its own encoding to an equal value", "", vec![op_e.clone(), op_p]);
        }
        if !d.masters.is_empty() || !d.replicas.is_empty() { self.s.stats.nontrivial_case(&op_e); }
        for i in 0..args.len() {
            let mut v = args.clone();
            v.remove(i);
            self.s.stats.count("gen.mut.repl.delete");
            let (r, op) = self.op_repl(&Some(wrap_cmd("SETREPL", &v)));
            self.check_accepted_repl(&r, &op);
            let (t2, kind) = mutate_string(rng, &args[i]);
            let mut v = args.clone();
            v[i] = t2;
            self.s.stats.count(&format!("gen.mut.repl.{}", kind));
            let (r, op) = self.op_repl(&Some(wrap_cmd("SETREPL", &v)));
            self.check_accepted_repl(&r, &op);
            if rng.chance(1, 2) {
                let (el, kind) = mutate_el(rng, &args[i]);
                let mut els = wrap_cmd("SETREPL", &args);
                els[i + 2] = el;
                self.s.stats.count(&format!("gen.mut.repl.{}", kind));
                let cmd = Some(els);
                let (r, op) = self.op_repl(&cmd);
                if matches!(&r, Some(Ok(_))) && !surviving_strings(&cmd).1 {
                    self.fail(F8_REPL, "F8", vec![op.clone()]);
                    self.s.stats.count("out.f8.repl_accepted_invalid_element");
                }
                self.check_accepted_repl(&r, &op);
            }
            if rng.chance(1, 4) {
                let (el, _) = mutate_el(rng, "x");
                let mut els = wrap_cmd("SETREPL", &args);
                let at = if rng.chance(1, 3) { els.len() } else { i + 2 };
                els.insert(at, el);
                self.s.stats.count("gen.mut.repl.insert_invalid_element");
                let cmd = Some(els);
                let (r, op) = self.op_repl(&cmd);
                if matches!(&r, Some(Ok(_))) && !surviving_strings(&cmd).1 {
                    self.fail(F8_REPL, "F8", vec![op.clone()]);
                    self.s.stats.count("out.f8.repl_accepted_invalid_element");
                }
                self.check_accepted_repl(&r, &op);
            }
        }
        if rng.chance(1, 10) { self.op_repl(&None); }
    }

    fn case_task(&mut self, rng: &mut Rng, d: &DTask, wf: bool) {
        self.s.case();
        let real = match real_task(d) { Some(t) => t, None => return };
        let toks = real.clone().into_strings();
        let spacefree = toks.iter().all(|t| !t.contains(' '));
        let (s, op_e) = match self.op_taskenc(d) { Some(x) => x, None => return };
        let (r, op_i) = self.op_infomgr(&El::B(s.as_bytes().to_vec()));
        if wf && spacefree {
            self.s.stats.nontrivial_case(&op_e);
            if !matches!(&r, Some(Some(t)) if d_task(t) == *d) {
                self.fail("task descriptor does not survive join(' ') / split(' ') / from_strings", "", vec![op_e.clone(), op_i]);
            }
        } else {
            self.s.stats.count(if spacefree { "gen.task.not_wellformed" } else { "gen.task.token_with_space" });
        }
        let (r, op_f) = self.op_taskfs(&toks);
        if wf && !matches!(&r, Some(Some(t)) if d_task(t) == *d) {
            self.fail("task descriptor does not decode from its own into_strings", "", vec![op_f]);
        }
        // the proxy -> importing proxy switch command carries the same descriptor
        let version = if rng.chance(1, 6) { rng.pick(&WEIRD).to_string() } else { "mgr-0.2".to_string() };
        let ds = DSwitch { version, task: d.clone() };
        if let Some((sargs, op_se)) = self.op_switchenc(&ds) {
            let (r, op_sf) = self.op_switchfs(&sargs);
            if wf && !matches!(&r, Some(Some(a)) if d_switch(a) == ds) {
                self.fail("SwitchArg does not decode from its own into_strings", "", vec![op_se.clone(), op_sf]);
            }
            let (r, op_sc) = self.op_switchcmd(&Some(wrap_cmd("TMPSWITCH", &sargs)));
            if wf && !matches!(&r, Some(Some(a)) if d_switch(a) == ds) {
                self.fail("SwitchArg does not decode from its own command", "", vec![op_se, op_sc]);
            }
            for i in 0..sargs.len() {
                if rng.chance(1, 2) {
                    let mut v = sargs.clone(); v.remove(i);
                    self.op_switchfs(&v);
                }
                if rng.chance(1, 3) {
                    let (el, kind) = mutate_el(rng, &sargs[i]);
                    // get_resp_strings takes bulk and simple strings that are valid UTF-8
                    let is_simple = match &el { El::S(b) | El::B(b) => std::str::from_utf8(b).is_ok(), El::O(_) => false };
                    let mut els = wrap_cmd("TMPSWITCH", &sargs);
                    els[i + 2] = el;
                    self.s.stats.count(&format!("gen.mut.switch.{}", kind));
                    let (r, op) = self.op_switchcmd(&Some(els));
                    if !is_simple && !matches!(&r, Some(None)) {
                        self.fail("parse_switch_command accepted a vector with a non-UTF-8 / non-string element", "", vec![op]);
                    }
                }
            }
        }
        if wf && spacefree {
            let n = real.slot_range.get_range_list().get_ranges().len();
            self.damaged_ranges_task(rng, &toks, n);
        }
        // token-level and character-level corruptions of the INFOMGR string
        for i in 0..toks.len() {
            let mut v = toks.clone(); v.remove(i);
            self.s.stats.count("gen.mut.task.delete");
            let (r, op) = self.op_infomgr(&El::B(v.join(" ").into_bytes()));
            self.check_accepted_task(&r, &op);
            let (t2, kind) = mutate_string(rng, &toks[i]);
            let mut v = toks.clone(); v[i] = t2;
            self.s.stats.count(&format!("gen.mut.task.{}", kind));
            let (r, op) = self.op_infomgr(&El::B(v.join(" ").into_bytes()));
            self.check_accepted_task(&r, &op);
        }
        let bytes = s.as_bytes().to_vec();
        for _ in 0..3 {
            if bytes.is_empty() { break; }
            let mut b = bytes.clone();
            let k = rng.below(b.len() as u64) as usize;
            match rng.below(5) {
                0 => { b.truncate(k); self.s.stats.count("gen.mut.task.string_truncate"); }
                1 => { b[k] = b' '; self.s.stats.count("gen.mut.task.space_inserted"); }
                2 => { b.insert(k, b' '); self.s.stats.count("gen.mut.task.space_inserted"); }
                3 => { b[k] = 0xFF; self.s.stats.count("gen.mut.task.nonutf8"); }
                _ => { b.remove(k); self.s.stats.count("gen.mut.task.char_delete"); }
            }
            let (r, op) = self.op_infomgr(&El::B(b));
            self.check_accepted_task(&r, &op);
        }
        if rng.chance(1, 8) { self.op_infomgr(&El::O('i')); self.op_infomgr(&El::S(bytes)); }
    }

    fn check_accepted_task(&mut self, r: &Option<Option<MigrationTaskMeta>>, op: &str) {
        match r {
            None => self.fail("panic in parse_migration_task_meta", "", vec![op.to_string()]),
            Some(None) => self.s.stats.count("mut.task.rejected"),
            Some(Some(t)) => {
                self.s.stats.count("mut.task.accepted");
                let toks = t.clone().into_strings();
                if toks.iter().any(|x| x.contains(' ')) { return; }
                let again = real_infomgr(&El::B(toks.join(" ").into_bytes()));
                if !matches!(&again, Some(Some(t2)) if t2 == t) {
                    self.fail("accepted INFOMGR descriptor is not an encoding of the value it was parsed to", "", vec![op.to_string()]);
                }
            }
        }
    }

    fn case_misc(&mut self, rng: &mut Rng, n: usize) {
        self.s.case();
        for f in [false, true] { for c in [false, true] { self.op_flagenc(f, c); } }
        for s in ["", "NOFLAG", "FORCE", "COMPRESS", "FORCE,COMPRESS", "force", "Force,compress", "FORCE ", ",FORCE,", "FORCECOMPRESS",
                  "compress,force,x", "f\u{212A}", "FORCE,COMPRES", "noflag,FORCE"] { self.op_flags(s); }
        // every character of the two case tables, alone and inside the words the code compares with
        let specials = ["ß", "ı", "ŉ", "ſ", "ǰ", "ẖ", "ẗ", "ẘ", "ẙ", "ẚ", "ﬀ", "ﬁ", "ﬂ", "ﬃ", "ﬄ", "ﬅ", "ﬆ", "İ", "\u{212A}", "Σ", "ά", "Ǆ", "ǅ"];
        for c in specials.iter() { self.op_casemap(true, c); self.op_casemap(false, c); self.op_casemap(true, &format!("a{}b", c)); self.op_casemap(false, &format!("A{}B", c)); }
        for w in ["mıgratıng", "MıGRATING", "ımportıng", "peer", "confıg", "ma\u{17F}ter", "maßter", "replıca", "con\u{FB01}g", "conﬁg"] { self.op_casemap(true, w); }
        for (f, v) in [("compression_strategy", "allow_all"), ("COMPRESSION_STRATEGY", "Set_Get_Only"), ("compression_strategy", "dısabled"),
                       ("compression_strategy", "x"), ("migration_scan_count", "0"), ("migration_scan_count", "+7"), ("migration_scan_count", "-0"),
                       ("migration_scan_count", "18446744073709551615"), ("migration_scan_count", "18446744073709551616"),
                       ("migration_max_bloc\u{212A}ing_time", "5"), ("MIGRATION_MAX_BLOCKING_TIME", "5"), ("migration_", "1"), ("migration", "1"),
                       ("migration_max_migration_time", ""), ("migration_scan_interval", "007"), ("mİgration_scan_interval", "1"),
                       ("migration_scan_intervaL", "1"), ("max_blocking_time", "1"), ("migration__scan_count", "1"), ("", "")] { self.op_cfgfield(f, v); }
        for s in ["", "a", "A-z_0@9", "has space", "ünï", "0123456789012345678901234567890", "01234567890123456789012345678901", "a.b", "a:b", "PEER"] { self.op_cname(s); }
        for b in [&b""[..], b"abc", &[0xC3, 0xA9], &[0xC3], &[0xC0, 0xAF], &[0xC1, 0xBF], &[0xE0, 0x80, 0x80], &[0xE0, 0xA0, 0x80], &[0xED, 0xA0, 0x80],
                  &[0xED, 0x9F, 0xBF], &[0xEF, 0xBF, 0xBF], &[0xF0, 0x8F, 0xBF, 0xBF], &[0xF0, 0x90, 0x80, 0x80], &[0xF4, 0x8F, 0xBF, 0xBF],
                  &[0xF4, 0x90, 0x80, 0x80], &[0xF5, 0x80, 0x80, 0x80], &[0x80], &[0xE2, 0x82], &[0xF0, 0x9F, 0x98], &[0x61, 0xFF], &[0xE2, 0x28, 0xA1]] { self.op_utf8(b); }
        for s in ["0", "1 5-3", "2 1-2 3-4", "2 0-18446744073709551615 5-6", "2 5-18446744073709551615 0-3", "1 18446744073709551615-18446744073709551615",
                  "1 0-18446744073709551616", "3 10-12 1-5 6-7", "2 1-5", "1 1-5 9-9", "+1 +1-+5", "1 1-5-9", "1 1", "1 -1-5", "x", "", " 0", "0 ", "1  1-2", "-0",
                  "2 4-4 4-4", "3 1-1 3-3 2-2", "2 10-1 3-20"] { self.op_rangelist(s); }
        for _ in 0..n {
            match rng.below(7) {
                0 | 1 => {
                    // structured range-list strings: overlapping / adjacent / reversed / huge
                    let k = match rng.below(10) { 0 => 0, 1..=6 => 1 + rng.below(6) as usize, 7..=8 => 7 + rng.below(10) as usize, _ => 30 + rng.below(40) as usize };
                    let hi = if rng.chance(1, 3) { 40 } else { 20000 };
                    let mut toks = vec![];
                    for _ in 0..k {
                        let a = if rng.chance(1, 40) { usize::MAX - rng.below(4) as usize } else { rng.below(hi) as usize };
                        let b = if rng.chance(1, 40) { usize::MAX - rng.below(4) as usize } else if rng.chance(1, 3) { a } else { a.wrapping_add(rng.below(12) as usize) };
                        let (a, b) = if rng.chance(1, 8) { (b, a) } else { (a, b) };
                        toks.push(format!("{}-{}", a, b));
                    }
                    let cnt = match rng.below(12) { 0 => k + 1, 1 => k.saturating_sub(1), _ => k };
                    let mut all = vec![cnt.to_string()];
                    all.extend(toks);
                    if rng.chance(1, 8) && !all.is_empty() { let i = rng.below(all.len() as u64) as usize; let (t, _) = mutate_string(rng, &all[i]); all[i] = t; }
                    self.s.stats.count("gen.rangelist");
                    if let Some(out) = self.op_rangelist(&all.join(" ")) {
                        if out.len() >= 2 { self.s.stats.nontrivial_case(&all.join(" ")); }
                    }
                }
                2 => {
                    let words = ["FORCE", "COMPRESS", "NOFLAG", "force", "Compress", "x", "", "FORC", "F\u{212A}"];
                    let k = 1 + rng.below(3) as usize;
                    let s: Vec<&str> = (0..k).map(|_| *rng.pick(&words)).collect();
                    self.s.stats.count("gen.flags");
                    self.op_flags(&s.join(if rng.chance(1, 8) { " " } else { "," }));
                }
                3 => {
                    let fields = ["compression_strategy", "migration_max_migration_time", "migration_max_blocking_time", "migration_scan_interval", "migration_scan_count"];
                    let mut f = rng.pick(&fields).to_string();
                    if rng.chance(1, 3) { let (t, _) = mutate_string(rng, &f); f = t; }
                    let mut v = if f.starts_with("comp") { rng.pick(&["disabled", "set_get_only", "allow_all", "ALLOW_ALL"]).to_string() } else { gen_u64(rng).to_string() };
                    if rng.chance(1, 4) { let (t, _) = mutate_string(rng, &v); v = t; }
                    self.s.stats.count("gen.cfgfield");
                    self.op_cfgfield(&f, &v);
                }
                4 => {
                    let k = rng.below(8) as usize;
                    let s: String = (0..k).map(|_| match rng.below(6) {
                        0 => char::from_u32(rng.below(0x3000) as u32).unwrap_or('x'),
                        1 => specials[rng.below(specials.len() as u64) as usize].chars().next().unwrap_or('x'),
                        2 => char::from_u32(0x10000 + rng.below(0x1000) as u32).unwrap_or('y'),
                        _ => (0x20 + rng.below(0x5F) as u8) as char }).collect();
                    self.s.stats.count("gen.casemap");
                    self.op_casemap(rng.chance(1, 2), &s);
                }
                5 => {
                    let k = rng.below(36) as usize;
                    let s: String = (0..k).map(|_| *rng.pick(&['a', 'Z', '0', '@', '-', '_', '.', ' ', 'é', ':'])).collect();
                    self.s.stats.count("gen.cname");
                    self.op_cname(&s);
                }
                _ => {
                    // byte strings around the UTF-8 grammar: valid text with one byte disturbed
                    let base = *rng.pick(&["héllo wörld", "日本語", "a😀b", "plain", "ıſ\u{212A}", "\u{7FF}\u{800}\u{FFFF}\u{10000}\u{10FFFF}"]);
                    let mut b = base.as_bytes().to_vec();
                    match rng.below(5) {
                        0 => {}
                        1 => { let i = rng.below(b.len() as u64) as usize; b[i] = rng.next_u64() as u8; }
                        2 => { let i = rng.below(b.len() as u64) as usize; b.remove(i); }
                        3 => { let i = rng.below(b.len() as u64 + 1) as usize; b.truncate(i); }
                        _ => { let k = 1 + rng.below(5) as usize; b = rng.bytes(k); }
                    }
                    self.s.stats.count("gen.utf8");
                    self.op_utf8(&b);
                }
            }
        }
    }

    /// the two case tables of the model against Rust's Unicode tables, over every scalar value
    fn unicode_table_sweep(&mut self) {
        let upper: &[(&str, &str)] = &[("ß", "SS"), ("ı", "I"), ("ŉ", "ʼN"), ("ſ", "S"), ("ǰ", "J\u{30c}"), ("ẖ", "H\u{331}"), ("ẗ", "T\u{308}"),
            ("ẘ", "W\u{30a}"), ("ẙ", "Y\u{30a}"), ("ẚ", "Aʾ"), ("ﬀ", "FF"), ("ﬁ", "FI"), ("ﬂ", "FL"), ("ﬃ", "FFI"), ("ﬄ", "FFL"), ("ﬅ", "ST"), ("ﬆ", "ST")];
        let lower: &[(&str, &str)] = &[("İ", "i\u{307}"), ("\u{212A}", "k")];
        let mut bad = vec![];
        for cp in 0u32..=0x10FFFF {
            if let Some(c) = char::from_u32(cp) {
                let cs = c.to_string();
                let up: String = c.to_uppercase().collect();
                let lo: String = c.to_lowercase().collect();
                if c.is_ascii() {
                    if up != c.to_ascii_uppercase().to_string() || lo != c.to_ascii_lowercase().to_string() { bad.push(cp); }
                    continue;
                }
                match upper.iter().find(|(k, _)| *k == cs) {
                    Some((_, v)) => if up != *v { bad.push(cp); },
                    None => if up.chars().any(|x| x.is_ascii()) { bad.push(cp); },
                }
                match lower.iter().find(|(k, _)| *k == cs) {
                    Some((_, v)) => if lo != *v { bad.push(cp); },
                    None => if lo.chars().any(|x| x.is_ascii()) { bad.push(cp); },
                }
            }
        }
        self.s.stats.add("unicode_sweep.scalars_checked", 0x110000 - 0x800);
        if !bad.is_empty() {
            self.fail(&format!("the model's case tables differ from Rust's Unicode tables at code points {:?}", &bad[..bad.len().min(8)]), "", vec![]);
        }
    }
}

// ------------------------------------------------------------------------------------------
// the commit leg (C17_task_commit): broker -> proxies -> coordinator -> broker on a real MetaStore.
// Broker op lines (`b …`) use the grammar of umh_broker.rs / UmDriver/Broker.lean.
// ------------------------------------------------------------------------------------------
fn code(e: &MetaStoreError) -> String {
    e.to_code().to_string()
}
fn cluster_pairs(store: &MetaStore, name: &str) -> Vec<String> {
    ClusterName::try_from(name).ok().and_then(|cn| store.clusters.get(&cn).map(|c| {
        c.chunks.iter().map(|ch| format!("{},{}", ch.proxy_addresses[0], ch.proxy_addresses[1])).collect()
    })).unwrap_or_default()
}
fn new_pairs(before: &[String], after: &[String]) -> String {
    let v: Vec<String> = after.iter().filter(|p| !before.contains(p)).cloned().collect();
    if v.is_empty() { "-".into() } else { v.join(";") }
}
/// one mutating broker op against the real store: (op line with the implementation's choice, observable)
fn broker_exec(st: &mut MetaStore, toks: &[&str]) -> (String, String) {
    let r = std::panic::catch_unwind(std::panic::AssertUnwindSafe(|| {
        let fin = |st: &MetaStore, r: Result<String, MetaStoreError>| match r {
            Ok(extra) => format!("OK{} g={}", extra, st.global_epoch),
            Err(e) => format!("ERR {} g={}", code(&e), st.global_epoch),
        };
        match toks {
            ["add_proxy", a, n0, n1, h] => {
                let host = if *h == "-" { None } else { Some(h.to_string()) };
                let r = st.add_proxy(a.to_string(), [n0.to_string(), n1.to_string()], host, None);
                (toks.join(" "), fin(st, r.map(|_| String::new())))
            }
            ["add_cluster", n, k, _] => {
                let before = cluster_pairs(st, n);
                let r = st.add_cluster(n.to_string(), k.parse().unwrap_or(0), undermoon::common::config::ClusterConfig::default());
                let choice = if r.is_ok() { new_pairs(&before, &cluster_pairs(st, n)) } else { "-".into() };
                (format!("add_cluster {} {} {}", n, k, choice), fin(st, r.map(|_| String::new())))
            }
            ["add_nodes", n, k, _] => {
                let before = cluster_pairs(st, n);
                let r = st.auto_add_nodes(n.to_string(), k.parse().unwrap_or(0));
                let choice = if r.is_ok() { new_pairs(&before, &cluster_pairs(st, n)) } else { "-".into() };
                (format!("add_nodes {} {} {}", n, k, choice), fin(st, r.map(|_| String::new())))
            }
            ["migrate", n] => { let r = st.migrate_slots(n.to_string()); (toks.join(" "), fin(st, r.map(|_| String::new()))) }
            ["scale_down", n, k] => { let r = st.migrate_slots_to_scale_down(n.to_string(), k.parse().unwrap_or(0)); (toks.join(" "), fin(st, r.map(|_| String::new()))) }
            ["failover", a, _] => {
                let r = st.replace_failed_proxy(a.to_string(), 0);
                let (choice, r2) = match r {
                    Ok(Some(p)) => (p.get_address().to_string(), Ok(format!(" {}", p.get_address()))),
                    Ok(None) => ("-".to_string(), Ok(" none".to_string())),
                    Err(e) => ("-".to_string(), Err(e)),
                };
                (format!("failover {} {}", a, choice), fin(st, r2))
            }
            _ => (toks.join(" "), "bad-op".to_string()),
        }
    }));
    r.unwrap_or_else(|_| (toks.join(" "), "PANIC".to_string()))
}

/// (cluster, epoch, rendered ranges) of every pending (migrating) entry
fn pending_entries(store: &MetaStore) -> Vec<(String, u64, String)> {
    let mut v = vec![];
    for c in store.clusters.values() { for ch in c.chunks.iter() { for l in ch.migrating_slots.iter() { for m in l.iter() {
        if m.is_migrating { v.push((c.name.to_string(), m.meta.epoch, umharness::broker_support::render_ranges(&m.range_list))); }
    } } } }
    v.sort();
    v
}

struct Served { s: String, epoch: u64, ranges: String, importing: bool }

impl H {
    fn b(&mut self, store: &mut MetaStore, line: &str) -> String {
        let toks: Vec<&str> = line.split(' ').collect();
        let (op, obs) = broker_exec(store, &toks);
        self.s.op(&format!("b {}", op), &obs);
        self.commit_ops.push(format!("b {}", op));
        self.s.stats.count(&format!("commit.op.{}", toks[0]));
        self.s.op("b state", &render_store(store));
        obs
    }

    /// what the broker serves to one proxy, as the INFOMGR strings the proxy will report
    fn op_served(&mut self, store: &MetaStore, addr: &str, limit: u64) -> Vec<Served> {
        let mut out = vec![];
        let obs = match catch(|| store.get_proxy_by_address(addr, limit)) {
            None => "PANIC".to_string(),
            Some(None) => "S".to_string(),
            Some(Some(p)) => {
                if let Some(cn) = p.get_cluster_name().cloned() {
                    for node in p.get_nodes().iter() {
                        for sr in node.get_slots().iter() {
                            let (epoch, importing) = match &sr.tag {
                                SlotRangeTag::None => continue,
                                SlotRangeTag::Migrating(m) => (m.epoch, false),
                                SlotRangeTag::Importing(m) => (m.epoch, true),
                            };
                            let task = MigrationTaskMeta { cluster_name: cn.clone(), slot_range: sr.clone() };
                            // proxy side of INFOMGR (handle_umctl_info_migration)
                            let s = task.into_strings().join(" ");
                            out.push(Served { s, epoch, ranges: umharness::broker_support::render_ranges(sr.get_range_list()), importing });
                        }
                    }
                }
                let mut o = vec!["S".to_string()];
                o.extend(out.iter().map(|d| hs(&d.s)));
                sp(&o)
            }
        };
        self.s.op(&format!("served {} {}", addr, limit), &obs);
        out
    }

    /// one INFOMGR element -> real coordinator parser -> real `commit_migration`
    fn op_commitdesc(&mut self, store: &mut MetaStore, el: &El, clear: bool) -> String {
        let obs = match real_infomgr(el) {
            None => "PANIC".to_string(),
            Some(None) => "REJECT".to_string(),
            Some(Some(task)) => match catch(|| store.commit_migration(task, clear)) {
                None => "PANIC".to_string(),
                Some(Ok(())) => format!("OK g={}", store.global_epoch),
                Some(Err(e)) => format!("ERR {} g={}", code(&e), store.global_epoch),
            },
        };
        self.s.op(&format!("commitdesc {} {}", el_tok(el), clear as u8), &obs);
        self.commit_ops.push(format!("commitdesc {} {}", el_tok(el), clear as u8));
        let kind = if obs.starts_with("OK") { "OK".to_string() } else { obs.split(" g=").next().unwrap_or("?").replace(' ', "_") };
        self.s.stats.count(&format!("out.commitdesc.{}", kind));
        self.s.op("b state", &render_store(store));
        obs
    }

    fn case_commit(&mut self, rng: &mut Rng) {
        self.s.case();
        self.commit_ops.clear();
        let mut store = MetaStore::new(false);
        let mut replay: Vec<String> = vec![];
        let np = 12 + 2 * rng.below(6) as usize;
        for j in 0..np {
            let l = format!("add_proxy p{}:{} n{}:{} n{}:{} h{}", j, 6000 + j, j, 7000 + 2 * j, j, 7001 + 2 * j, j);
            self.b(&mut store, &l); replay.push(format!("b {}", l));
        }
        let (start, scale_down) = match rng.below(4) { 0 => (8, true), 1 => (8, false), 2 => (12, true), _ => (4, false) };
        let l = format!("add_cluster c0 {} -", start); self.b(&mut store, &l);
        if scale_down {
            let to = if start == 12 { *rng.pick(&[4usize, 8]) } else { 4 };
            let l = format!("scale_down c0 {}", to); self.b(&mut store, &l);
            self.s.stats.count("gen.commit.scale_down");
        } else {
            let l = format!("add_nodes c0 {} -", *rng.pick(&[4usize, 8])); self.b(&mut store, &l);
            self.b(&mut store, "migrate c0");
            self.s.stats.count("gen.commit.scale_out");
        }
        if rng.chance(1, 3) {
            // a failover in between: epochs of the affected entries are bumped, addresses change
            let addrs: Vec<String> = cluster_pairs(&store, "c0").iter().flat_map(|p| p.split(',').map(|x| x.to_string()).collect::<Vec<_>>()).collect();
            if !addrs.is_empty() { let a = rng.pick(&addrs).clone(); self.b(&mut store, &format!("failover {} -", a)); self.s.stats.count("gen.commit.failover"); }
        }
        let pend = pending_entries(&store);
        self.s.stats.add("commit.pending_migrations", pend.len() as u64);
        if pend.is_empty() { return; }
        // serve every proxy of the cluster (limit 0 = every pending migration is served)
        let addrs: Vec<String> = cluster_pairs(&store, "c0").iter().flat_map(|p| p.split(',').map(|x| x.to_string()).collect::<Vec<_>>()).collect();
        let mut served: Vec<Served> = vec![];
        for a in addrs.iter() { served.extend(self.op_served(&store, a, 0)); }
        if rng.chance(1, 2) { let a = rng.pick(&addrs).clone(); self.op_served(&store, &a, 1 + rng.below(2)); }
        let ops_so_far = |h: &H| -> Vec<String> { let _ = h; vec![] };
        let _ = ops_so_far;
        for (cl, epoch, ranges) in pend.iter() {
            let src: Vec<&Served> = served.iter().filter(|d| !d.importing && d.epoch == *epoch && d.ranges == *ranges).collect();
            let dst: Vec<&Served> = served.iter().filter(|d| d.importing && d.epoch == *epoch && d.ranges == *ranges).collect();
            if src.len() != 1 || dst.len() != 1 {
                self.fail(&format!("pending migration {} {}@{} is not served exactly once to its source and once to its destination proxy (src {}, dst {})", cl, ranges, epoch, src.len(), dst.len()), "", vec![]);
                continue;
            }
            let first_importing = rng.chance(1, 2);
            let (first, second) = if first_importing { (dst[0], src[0]) } else { (src[0], dst[0]) };
            self.s.stats.count(if first_importing { "gen.commit.first_from_destination" } else { "gen.commit.first_from_source" });
            if rng.chance(1, 4) {
                // a descriptor without a tag and one of an unknown cluster are refused
                self.op_commitdesc(&mut store, &El::B(format!("c0 1 {}", "0-100").into_bytes()), false);
                self.op_commitdesc(&mut store, &El::B(first.s.replacen("c0", "zz", 1).into_bytes()), false);
            }
            let clear = rng.chance(1, 2);
            let o1 = self.op_commitdesc(&mut store, &El::B(first.s.clone().into_bytes()), clear);
            if !o1.starts_with("OK") {
                self.fail("the descriptor a proxy reports for a pending migration was not accepted by commit_migration", "",
                    { let mut r = vec![format!("# first report from the {} proxy: {}", if first_importing { "destination (IMPORTING)" } else { "source (MIGRATING)" }, first.s)];
                      r.extend(self.commit_ops.clone()); r });
            } else {
                self.s.stats.nontrivial_case(&first.s);
            }
            let o2 = self.op_commitdesc(&mut store, &El::B(second.s.clone().into_bytes()), clear);
            if o1.starts_with("OK") && !o2.starts_with("ERR MIGRATION_TASK_NOT_FOUND") {
                self.fail("the second report of an already committed migration was not answered MIGRATION_TASK_NOT_FOUND", "", self.commit_ops.clone());
            }
        }
        if !pending_entries(&store).is_empty() {
            self.fail("pending migrations remain after every reported descriptor has been committed", "", self.commit_ops.clone());
        }
    }
}

// ------------------------------------------------------------------------------------------
// replay: run exactly the op lines of a file against the real code (DEC and the toargs order
// are recomputed from the real code; the oracle is applied per line where it is line-local)
// ------------------------------------------------------------------------------------------
fn strings_of(toks: &[String]) -> Option<Vec<String>> {
    toks.iter().map(|t| unhex(t).and_then(|b| String::from_utf8(b).ok())).collect()
}
fn skip_dec(t: &[String]) -> Option<&[String]> {
    match t.first().map(|s| s.as_str()) {
        Some("X") | Some("E") => t.get(1..),
        Some("D") => { let mut c = Cur::new(t.get(1..)?); p_data(&mut c)?; Some(c.rest()) }
        _ => None,
    }
}

impl H {
    fn replay_line(&mut self, line: &str) {
        let toks: Vec<String> = line.split(' ').map(|s| s.to_string()).collect();
        let rest = toks.get(1..).unwrap_or(&[]).to_vec();
        let expect_reject = std::mem::replace(&mut self.expect_reject, false);
        let done: Option<()> = (|| {
            match toks.first()?.as_str() {
                "case" => { self.s.case(); self.rstore = None; }
                "b" => {
                    let mut st = self.rstore.take().unwrap_or_else(|| MetaStore::new(false));
                    if rest.first().map(|x| x.as_str()) == Some("state") {
                        self.s.op("b state", &render_store(&st));
                    } else {
                        let t: Vec<&str> = rest.iter().map(|x| x.as_str()).collect();
                        let (op, obs) = broker_exec(&mut st, &t);
                        self.s.op(&format!("b {}", op), &obs);
                    }
                    self.rstore = Some(st);
                }
                "served" => {
                    let st = self.rstore.take().unwrap_or_else(|| MetaStore::new(false));
                    self.op_served(&st, rest.first()?, rest.get(1)?.parse().ok()?);
                    self.rstore = Some(st);
                }
                "commitdesc" => {
                    let mut st = self.rstore.take().unwrap_or_else(|| MetaStore::new(false));
                    let el = p_el(rest.first()?)?;
                    // line-local oracle: a descriptor of a pending migration (either tag) must be accepted
                    let parsed = real_infomgr(&el).flatten();
                    let pend = pending_entries(&st);
                    let obs = self.op_commitdesc(&mut st, &el, rest.get(1).map(|x| x == "1").unwrap_or(false));
                    if let Some(t) = parsed {
                        let ep = match &t.slot_range.tag { SlotRangeTag::Migrating(m) | SlotRangeTag::Importing(m) => Some(m.epoch), SlotRangeTag::None => None };
                        let key = ep.map(|e| (t.cluster_name.to_string(), e, umharness::broker_support::render_ranges(t.slot_range.get_range_list())));
                        if key.map(|k| pend.contains(&k)).unwrap_or(false) && !obs.starts_with("OK") {
                            self.fail("the descriptor a proxy reports for a pending migration was not accepted by commit_migration", "", vec![line.to_string()]);
                        }
                    }
                    self.rstore = Some(st);
                }
                "toargs" => {
                    // encode, then decode the real vector: a plain-expressible meta denotes its compacted value
                    let mut c = Cur::new(rest.get(1..)?); let d = p_meta(&mut c)?;
                    let (args, op_e) = self.op_toargs(&d)?;
                    let (r, op_p, _) = self.op_parse(&args);
                    if is_bd(&d) && !d.compress {
                        let want = real_meta(&compacted_desc(&d)).map(|m| meta_key(&m));
                        let got = match &r { Some(Ok((m2, true))) => Some(meta_key(m2)), _ => None };
                        if want.is_none() || want != got { self.fail("cluster meta does not decode from its plain encoding to its compacted value", "", vec![op_e, op_p]); }
                    }
                }
                "toargsc" => {
                    let mut c = Cur::new(rest.get(1..)?); let mut d = p_meta(&mut c)?;
                    d.compress = true;
                    let (args, op_e) = self.op_toargsc(&d)?;
                    let (r, op_p, _) = self.op_parse(&args);
                    let want = real_meta(&compacted_desc(&d)).map(|m| meta_key(&m));
                    let got = match &r { Some(Ok((m2, true))) => Some(meta_key(m2)), _ => None };
                    if want.is_none() || want != got { self.fail("cluster meta does not decode from its compressed encoding to its compacted value", "", vec![op_e, op_p]); }
                }
                "parse" => {
                    let v = strings_of(skip_dec(&rest)?)?;
                    let (r, op, _) = self.op_parse(&v);
                    if expect_reject { if let Some(Ok(_)) = &r { self.fail(DAMAGED_ACCEPTED, "", vec!["#!reject".to_string(), op.clone()]); } }
                    self.check_accepted_cluster(&r, "", &op, "replay");
                }
                "fromresp" => {
                    let cmd = p_cmd(skip_dec(&rest)?)?;
                    let (r, op) = self.op_fromresp(&cmd);
                    let (_, all_valid) = surviving_strings(&cmd);
                    if !all_valid && matches!(&r, Some(Ok(_))) { self.fail(F8_CLUSTER, "F8", vec![op.clone()]); }
                    self.check_accepted_cluster(&r, "", &op, "replay");
                }
                "replenc" => { let mut c = Cur::new(&rest); let d = p_repl(&mut c)?; self.op_replenc(&d)?; }
                "repl" => {
                    let cmd = p_cmd(&rest)?;
                    let (r, op) = self.op_repl(&cmd);
                    let (_, all_valid) = surviving_strings(&cmd);
                    if !all_valid && matches!(&r, Some(Ok(_))) { self.fail(F8_REPL, "F8", vec![op.clone()]); }
                    self.check_accepted_repl(&r, &op);
                }
                "taskenc" => { let mut c = Cur::new(&rest); let d = p_task(&mut c)?; self.op_taskenc(&d)?; }
                "infomgr" => {
                    let el = p_el(rest.first()?)?; let (r, op) = self.op_infomgr(&el);
                    if expect_reject { if let Some(Some(_)) = &r { self.fail(DAMAGED_ACCEPTED, "", vec!["#!reject".to_string(), op.clone()]); } }
                    self.check_accepted_task(&r, &op);
                }
                "taskfs" => {
                    let v = strings_of(&rest)?; let (r, op) = self.op_taskfs(&v);
                    if expect_reject { if let Some(Some(_)) = &r { self.fail(DAMAGED_ACCEPTED, "", vec!["#!reject".to_string(), op]); } }
                }
                "switchenc" => { let mut c = Cur::new(&rest); let d = p_switch(&mut c)?; self.op_switchenc(&d)?; }
                "switchfs" => { let v = strings_of(&rest)?; self.op_switchfs(&v); }
                "switchcmd" => { let cmd = p_cmd(&rest)?; self.op_switchcmd(&cmd); }
                "rangelist" => { let s = String::from_utf8(unhex(rest.first()?)?).ok()?; self.op_rangelist(&s); }
                "flags" => { let s = String::from_utf8(unhex(rest.first()?)?).ok()?; self.op_flags(&s); }
                "flagenc" => { self.op_flagenc(rest.first()? == "1", rest.get(1)? == "1"); }
                "cfgfield" => { let f = String::from_utf8(unhex(rest.first()?)?).ok()?; let v = String::from_utf8(unhex(rest.get(1)?)?).ok()?; self.op_cfgfield(&f, &v); }
                "casemap" => { let s = String::from_utf8(unhex(rest.get(1)?)?).ok()?; self.op_casemap(rest.first()? == "u", &s); }
                "cname" => { let s = String::from_utf8(unhex(rest.first()?)?).ok()?; self.op_cname(&s); }
                "utf8" => { let b = unhex(rest.first()?)?; self.op_utf8(&b); }
                _ => return None,
            }
            Some(())
        })();
        if done.is_none() {
            // not expressible against the real code (e.g. a non-UTF-8 token where a String is needed)
            self.s.op(line, "bad-op");
        }
    }
}

fn main() {
    // panics are observables here (`PANIC`), not noise on stderr
    std::panic::set_hook(Box::new(|_| {}));
    let args = parse_args();
    let mut rng = Rng::new(args.seed);
    let mut h = H { s: Streams::new(&args), finding_recorded: Default::default(), rstore: None, commit_ops: vec![], expect_reject: false };
    if let Some(p) = &args.replay {
        let lines = read_lines(p);
        if !lines.iter().any(|l| l.starts_with("case ")) { h.s.case(); }
        for l in lines {
            if l.starts_with("#!reject") { h.expect_reject = true; continue; }
            if l.starts_with('#') { continue; }
            h.replay_line(&l);
        }
    } else {
        let (n_cluster, n_repl, n_task, n_misc, budget) = if args.thorough { (2_000, 1_200, 1_200, 20_000, 40) } else { (260, 160, 200, 2_500, 24) };
        h.unicode_table_sweep();
        h.case_misc(&mut rng, n_misc);
        for i in 0..n_cluster {
            let (d, wf) = gen_meta(&mut rng, &mut h.s.stats);
            if i < 5 { let mut o = vec![]; t_meta(&d, &mut o); h.s.stats.sample(json!({"meta": sp(&o), "wellformed": wf})); }
            h.case_cluster(&mut rng, &d, wf, budget);
        }
        for _ in 0..n_repl {
            let d = gen_repl(&mut rng, &mut h.s.stats);
            h.case_repl(&mut rng, &d);
        }
        for _ in 0..n_task {
            let (d, wf, _) = gen_task(&mut rng, &mut h.s.stats);
            h.case_task(&mut rng, &d, wf);
        }
        let n_commit = if args.thorough { 400 } else { 40 };
        for _ in 0..n_commit { h.case_commit(&mut rng); }
    }
    h.s.finish("proto", "cases: one generated value each (cluster meta / replication meta / task descriptor) with its encodings, decodings and every single-token deletion + sampled corruptions; non-trivial = a well-formed cluster meta (>=0 nodes, all tag kinds, peers, config), a replication meta with >=1 entry, a space-free well-formed task descriptor, a range list that compacts to >=2 ranges, a pending migration of a real MetaStore whose reported descriptor was committed; distinct = distinct encode op lines");
}
