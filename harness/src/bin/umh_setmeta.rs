//! C05 (cluster metadata): sequences of `UMCTL SETCLUSTER` through the real `ForwardHandler`
//! (→ `ProxyClusterMeta::from_resp` → `MetaManager::set_meta`) over fake backends.
//!
//! After every message the harness asks the same proxy for `UMCTL GETEPOCH` and probes its routing
//! (a few keys spread over the slot space + `UMCTL LISTCLUSTER`); the probe result is hashed into a
//! *fingerprint*.  The fingerprint a message *would* install is measured on a scratch proxy that has
//! seen only this message (forced).  The Lean driver `setmeta` replays the parsed messages through
//! the model `Um.ProxyMeta.handle` with the fingerprint as the opaque content.
//!
//! Oracle (independent of the model): the reply, the reported epoch and the routing fingerprint must
//! be those of the property's own state machine — accept iff local hosts match ∧ (FORCE ∨ epoch >
//! installed), `OLD_EPOCH` / `ERR_NOT_MY_META` otherwise, state = last accepted message.
use arc_swap::ArcSwap;
use futures::channel::mpsc;
use futures::{Future, SinkExt, StreamExt, TryStreamExt};
use serde_json::json;
use std::collections::BTreeMap;
use std::net::SocketAddr;
use std::num::NonZeroUsize;
use std::pin::Pin;
use std::sync::atomic::{AtomicBool, AtomicI64, AtomicU64};
use std::sync::{Arc, Mutex};
use std::time::Duration;
use umharness::util::*;
use undermoon::common::batch::BatchStrategy;
use undermoon::common::proto::{ProxyClusterMeta, SET_CLUSTER_API_VERSION};
use undermoon::common::track::TrackedFutureRegistry;
use undermoon::common::utils::{generate_slot, SLOT_NUM};
use undermoon::protocol::{
    Array, BinSafeStr, BulkStr, OptionalMulti, RedisClient, RedisClientError, RedisClientFactory, Resp,
    RespPacket, RespVec,
};
use undermoon::proxy::backend::{BackendError, ConnFactory, ConnSink, ConnStream, CreateConnResult};
use undermoon::proxy::command::{new_command_pair, Command};
use undermoon::proxy::executor::ForwardHandler;
use undermoon::proxy::manager::MetaMap;
use undermoon::proxy::service::{ClusterNodesVersion, ServerProxyConfig};
use undermoon::proxy::session::{CmdCtx, CmdCtxHandler};
use undermoon::proxy::slowlog::SlowRequestLogger;

const ANNOUNCE_HOST: &str = "127.0.0.1";

// ------------------------------------------------------------------------------------------
// in-process proxy: the real command handler over fakes (pattern of tests/proxy_manager_test.rs)
// ------------------------------------------------------------------------------------------
type Log = Arc<Mutex<Vec<String>>>;

/// fake Redis: answers every command with its own address as a bulk string and records the address
struct EchoAddrConnFactory {
    log: Log,
}

impl ConnFactory for EchoAddrConnFactory {
    type Pkt = RespPacket;

    fn create_conn(&self, addr: SocketAddr) -> Pin<Box<dyn Future<Output = CreateConnResult<Self::Pkt>> + Send>> {
        let (sender, receiver) = mpsc::unbounded();
        let log = self.log.clone();
        let addr = addr.to_string();
        let receiver = receiver.map(move |_packet: RespPacket| {
            log.lock().expect("log").push(addr.clone());
            Ok::<_, ()>(RespPacket::Data(Resp::Bulk(BulkStr::Str(addr.as_bytes().to_vec()))))
        });
        let sink: ConnSink<RespPacket> = Box::pin(sender.sink_map_err(|_| BackendError::Canceled));
        let stream: ConnStream<RespPacket> = Box::pin(receiver.map_err(|_| BackendError::Canceled));
        Box::pin(async { Ok((sink, stream)) })
    }
}

struct OkClient;

impl RedisClient for OkClient {
    fn execute<'s>(
        &'s mut self,
        command: OptionalMulti<Vec<BinSafeStr>>,
    ) -> Pin<Box<dyn Future<Output = Result<OptionalMulti<RespVec>, RedisClientError>> + Send + 's>> {
        let res = command.map(|_| Resp::Simple(b"OK".to_vec()));
        Box::pin(async { Ok(res) })
    }
}

struct OkClientFactory;

impl RedisClientFactory for OkClientFactory {
    type Client = OkClient;

    fn create_client<'s>(
        &'s self,
        _address: String,
    ) -> Pin<Box<dyn Future<Output = Result<Self::Client, RedisClientError>> + Send + 's>> {
        Box::pin(async { Ok(OkClient) })
    }
}

fn server_config() -> ServerProxyConfig {
    ServerProxyConfig {
        address: "127.0.0.1:5299".to_string(),
        announce_address: "127.0.0.1:5299".to_string(),
        announce_host: ANNOUNCE_HOST.to_string(),
        slowlog_len: NonZeroUsize::new(16).expect("nz"),
        slowlog_log_slower_than: AtomicI64::new(1_000_000_000),
        slowlog_sample_rate: AtomicU64::new(1_000_000),
        thread_number: NonZeroUsize::new(1).expect("nz"),
        backend_conn_num: NonZeroUsize::new(1).expect("nz"),
        active_redirection: false,
        max_redirections: None,
        default_redirection_address: None,
        backend_batch_strategy: BatchStrategy::Fixed,
        backend_flush_size: NonZeroUsize::new(1024).expect("nz"),
        backend_low_flush_interval: Duration::from_nanos(2_000),
        backend_high_flush_interval: Duration::from_nanos(8_000),
        session_timeout: None,
        backend_timeout: Duration::from_secs(30),
        password: None,
        command_cluster_nodes_version: ClusterNodesVersion::V2,
    }
}

struct Proxy {
    handler: ForwardHandler<OkClientFactory, EchoAddrConnFactory>,
    log: Log,
    _stopped: mpsc::UnboundedReceiver<()>,
}

impl Proxy {
    fn new() -> Self {
        let config = Arc::new(server_config());
        let log: Log = Arc::new(Mutex::new(vec![]));
        let conn_factory = Arc::new(EchoAddrConnFactory { log: log.clone() });
        let meta_map = Arc::new(ArcSwap::new(Arc::new(MetaMap::empty())));
        let future_registry = Arc::new(TrackedFutureRegistry::default());
        let (tx, rx) = mpsc::unbounded();
        let handler = ForwardHandler::new(
            config.clone(),
            Arc::new(OkClientFactory),
            Arc::new(SlowRequestLogger::new(config)),
            meta_map,
            conn_factory,
            future_registry,
            tx,
        );
        Proxy { handler, log, _stopped: rx }
    }

    /// one command through `ForwardHandler::handle_cmd_ctx`
    async fn run(&self, args: &[Vec<u8>]) -> Result<RespVec, String> {
        let resp = Resp::Arr(Array::Arr(args.iter().map(|b| Resp::Bulk(BulkStr::Str(b.clone()))).collect()));
        let cmd = Command::new(Box::new(RespPacket::Data(resp)));
        let (s, r) = new_command_pair(&cmd);
        let ctx = CmdCtx::new(cmd, s, 1, false);
        let authenticated = AtomicBool::new(false);
        use futures::FutureExt;
        let fut = std::panic::AssertUnwindSafe(self.handler.handle_cmd_ctx(ctx, r, &authenticated)).catch_unwind();
        match fut.await {
            Ok(Ok(task_reply)) => Ok(task_reply.into_resp_vec()),
            Ok(Err(e)) => Err(format!("{:?}", e)),
            Err(_) => Err("PANIC".to_string()),
        }
    }
}

fn render_resp(r: &Result<RespVec, String>) -> String {
    match r {
        Err(e) => format!("X:{}", e),
        Ok(Resp::Error(b)) => format!("E:{}", String::from_utf8_lossy(b)),
        Ok(Resp::Simple(b)) => format!("S:{}", String::from_utf8_lossy(b)),
        Ok(Resp::Integer(b)) => format!("I:{}", String::from_utf8_lossy(b)),
        Ok(Resp::Bulk(BulkStr::Str(b))) => format!("B:{}", String::from_utf8_lossy(b)),
        Ok(Resp::Bulk(BulkStr::Nil)) => "N".to_string(),
        Ok(Resp::Arr(Array::Nil)) => "NA".to_string(),
        Ok(Resp::Arr(Array::Arr(xs))) => {
            format!("A[{}]", xs.iter().map(|x| render_resp(&Ok(x.clone()))).collect::<Vec<_>>().join(","))
        }
    }
}

const PROBE_SLOTS: [usize; 7] = [0, 4000, 4096, 8191, 8192, 12288, 16383];

struct Ctx {
    probe_keys: Vec<Vec<u8>>,
}

impl Ctx {
    /// routing fingerprint of a proxy: where the probe keys go + the cluster name it reports
    async fn fingerprint(&self, p: &Proxy) -> (String, String) {
        let mut text = String::new();
        let lc = p.run(&[b"UMCTL".to_vec(), b"LISTCLUSTER".to_vec()]).await;
        text.push_str(&render_resp(&lc));
        for k in &self.probe_keys {
            p.log.lock().expect("log").clear();
            let r = p.run(&[b"GET".to_vec(), k.clone()]).await;
            let got = p.log.lock().expect("log").join(",");
            text.push_str(&format!("|{}>{}", render_resp(&r), got));
        }
        (format!("{:016x}", fnv(text.as_bytes())), text)
    }
}

// ------------------------------------------------------------------------------------------
// messages
// ------------------------------------------------------------------------------------------
#[derive(Clone, Debug)]
struct Parsed {
    epoch: u64,
    force: bool,
    compress: bool,
    cfg_ok: bool,
    locals: Vec<String>,
}

/// the real parser on the same command
fn parse(args: &[Vec<u8>]) -> Option<Parsed> {
    let resp: RespVec = Resp::Arr(Array::Arr(args.iter().map(|b| Resp::Bulk(BulkStr::Str(b.clone()))).collect()));
    match ProxyClusterMeta::from_resp(&resp) {
        Err(_) => None,
        Ok((meta, ext)) => {
            let mut locals: Vec<String> = meta.get_local().keys().cloned().collect();
            locals.sort();
            Some(Parsed {
                epoch: meta.get_epoch(),
                force: meta.get_flags().force,
                compress: meta.get_flags().compress,
                cfg_ok: ext.is_ok(),
                locals,
            })
        }
    }
}

/// the property's host rule, written independently of the code: every local address must be
/// `<announce host>:<something>`
fn oracle_hosts_ok(locals: &[String]) -> bool {
    locals.iter().all(|a| match a.find(':') {
        Some(i) => &a[..i] == ANNOUNCE_HOST,
        None => false,
    })
}

#[derive(Clone, Debug)]
struct Content {
    /// tokens after the flags word of a plain (uncompressed) command: cluster name, local groups,
    /// PEER section, CONFIG section
    body: Vec<String>,
    class: &'static str,
}

fn gen_content(rng: &mut Rng, idx: usize) -> Content {
    let cuts = [4096usize, 8192, 12288];
    let cut = *rng.pick(&cuts);
    let cut2 = if rng.chance(1, 3) { Some(cut + 1024) } else { None };
    let (host, class): (&str, &'static str) = match rng.below(20) {
        0 | 1 => ("10.0.0.9", "foreign_host"),
        2 => ("127.0.0.10", "host_prefix_only"),
        _ => (ANNOUNCE_HOST, "own_host"),
    };
    let mut body = vec![];
    let name = match rng.below(8) {
        0 => String::new(),
        1 => "other".to_string(),
        _ => "c1".to_string(),
    };
    body.push(name);
    let local_lo = rng.chance(1, 2);
    let l1 = format!("{}:{}", host, 7000 + idx);
    let l2 = if rng.chance(1, 12) { "nocolon".to_string() } else { format!("{}:{}", ANNOUNCE_HOST, 7100 + idx) };
    let mut class = class;
    let p1 = format!("10.0.1.{}:{}", 1 + idx, 5299);
    let (loc_range, peer_range) = if local_lo { ((0, cut - 1), (cut, SLOT_NUM - 1)) } else { ((cut, SLOT_NUM - 1), (0, cut - 1)) };
    match rng.below(20) {
        0 | 1 => {
            class = "no_local";
        }
        2 => {
            // an address without a colon among the locals
            body.extend(["nocolon".to_string(), "1".to_string(), format!("{}-{}", loc_range.0, loc_range.1)]);
            class = "bad_address";
        }
        _ => {
            match cut2 {
                Some(c2) if local_lo && c2 < SLOT_NUM => {
                    body.extend([l1.clone(), "1".to_string(), format!("{}-{}", loc_range.0, loc_range.1)]);
                    body.extend([l2.clone(), "1".to_string(), format!("{}-{}", c2, c2 + 100)]);
                    if l2.starts_with("nocolon") {
                        class = "bad_address";
                    }
                }
                _ => {
                    body.extend([l1.clone(), "1".to_string(), format!("{}-{}", loc_range.0, loc_range.1)]);
                }
            }
        }
    }
    if !rng.chance(1, 6) {
        body.push(if rng.chance(1, 4) { "peer".to_string() } else { "PEER".to_string() });
        // peers are never host-checked: one of them may well sit on the announce host
        let ph = if rng.chance(1, 5) { format!("{}:{}", "10.0.0.9", 5299) } else { p1 };
        body.extend([ph, "1".to_string(), format!("{}-{}", peer_range.0, peer_range.1)]);
    }
    match rng.below(8) {
        0 => body.extend(["CONFIG".to_string(), "compression_strategy".to_string(), "set_get_only".to_string()]),
        1 => body.extend(["CONFIG".to_string(), "compression_strategy".to_string(), "bogus".to_string()]),
        2 => body.extend(["CONFIG".to_string(), "migration_scan_count".to_string(), "0".to_string()]),
        3 => body.extend(["config".to_string(), "migration_max_blocking_time".to_string(), "77".to_string()]),
        _ => {}
    }
    Content { body, class }
}

fn plain_args(epoch: &str, flags: &str, c: &Content) -> Vec<Vec<u8>> {
    let mut v: Vec<Vec<u8>> = vec![
        b"UMCTL".to_vec(),
        b"SETCLUSTER".to_vec(),
        SET_CLUSTER_API_VERSION.as_bytes().to_vec(),
        epoch.as_bytes().to_vec(),
        flags.as_bytes().to_vec(),
    ];
    v.extend(c.body.iter().map(|s| s.clone().into_bytes()));
    v
}

/// the compressed form of a plain command, produced by the real encoder (None if the plain form
/// does not parse)
fn compressed_args(epoch: &str, force: bool, c: &Content) -> Option<Vec<Vec<u8>>> {
    let plain = plain_args("1", "NOFLAGS", c);
    let resp: RespVec = Resp::Arr(Array::Arr(plain.iter().map(|b| Resp::Bulk(BulkStr::Str(b.clone()))).collect()));
    let (meta, _) = ProxyClusterMeta::from_resp(&resp).ok()?;
    let cargs = meta.to_compressed_args().ok()?;
    let blob = cargs.get(3)?.clone();
    Some(vec![
        b"UMCTL".to_vec(),
        b"SETCLUSTER".to_vec(),
        SET_CLUSTER_API_VERSION.as_bytes().to_vec(),
        epoch.as_bytes().to_vec(),
        if force { b"FORCE,COMPRESS".to_vec() } else { b"COMPRESS".to_vec() },
        blob.into_bytes(),
    ])
}

// ------------------------------------------------------------------------------------------
// one case
// ------------------------------------------------------------------------------------------
struct Runner {
    s: Streams,
    ctx: Ctx,
    fp_cache: BTreeMap<Vec<Vec<u8>>, String>,
    empty_fp: String,
}

struct CaseState {
    proxy: Proxy,
    /// the property's state machine (oracle)
    exp_epoch: u64,
    exp_fp: String,
    ops: Vec<String>,
    accepted: u64,
    rejected: u64,
}

impl Runner {
    /// fingerprint a message would install, measured on a scratch proxy that sees only it
    async fn content_fp(&mut self, args: &[Vec<u8>], p: &Parsed) -> String {
        // key: the command without its epoch and flags words
        let mut key: Vec<Vec<u8>> = args.to_vec();
        if key.len() > 4 {
            key[3] = vec![];
            key[4] = if p.compress { b"C".to_vec() } else { b"P".to_vec() };
        }
        if let Some(fp) = self.fp_cache.get(&key) {
            return fp.clone();
        }
        let mut forced = args.to_vec();
        forced[4] = if p.compress { b"FORCE,COMPRESS".to_vec() } else { b"FORCE".to_vec() };
        let scratch = Proxy::new();
        let r = scratch.run(&forced).await;
        let fp = match &r {
            Ok(Resp::Simple(_)) => self.ctx.fingerprint(&scratch).await.0,
            _ => "-".to_string(), // never installable (foreign host): content is irrelevant
        };
        self.s.stats.count("scratch.installs");
        self.fp_cache.insert(key, fp.clone());
        fp
    }

    async fn new_case(&mut self) -> CaseState {
        self.s.case();
        let proxy = Proxy::new();
        let host_op = format!("host {} {}", hex(ANNOUNCE_HOST.as_bytes()), self.empty_fp);
        self.s.op(&host_op, "ok");
        CaseState { proxy, exp_epoch: 0, exp_fp: self.empty_fp.clone(), ops: vec![host_op], accepted: 0, rejected: 0 }
    }

    async fn send(&mut self, cs: &mut CaseState, args: &[Vec<u8>], class: &str) {
        let parsed = parse(args);
        let mut op = format!("set {}", args.len());
        for a in args {
            op.push(' ');
            op.push_str(&hex(a));
        }
        let mut content_fp = String::new();
        match &parsed {
            None => op.push_str(" P"),
            Some(p) => {
                content_fp = self.content_fp(args, p).await;
                op.push_str(&format!(
                    " M {} {} {} {} {}",
                    p.epoch,
                    p.force as u8,
                    p.cfg_ok as u8,
                    content_fp,
                    p.locals.len()
                ));
                for a in &p.locals {
                    op.push(' ');
                    op.push_str(&hex(a.as_bytes()));
                }
            }
        }
        // the real thing
        let reply = cs.proxy.run(args).await;
        let mut shown = render_resp(&reply);
        if shown.starts_with("E:Failed to parse args") {
            shown = "E:Failed to parse args".to_string();
        }
        let ge = cs.proxy.run(&[b"UMCTL".to_vec(), b"GETEPOCH".to_vec()]).await;
        let epoch_txt = match &ge {
            Ok(Resp::Integer(b)) => String::from_utf8_lossy(b).to_string(),
            other => format!("?{}", render_resp(other)),
        };
        let (fp, fp_text) = self.ctx.fingerprint(&cs.proxy).await;
        let observed = format!("{} {} {}", shown, epoch_txt, fp);
        self.s.op(&op, &observed);
        cs.ops.push(op.clone());

        // ---- oracle: the property's own state machine on the observables --------------------
        let st = &mut self.s.stats;
        st.count(&format!("gen.{}", class));
        let expect_reply: &str;
        match &parsed {
            None => {
                expect_reply = "E:Failed to parse args";
                st.count("out.parse_error");
            }
            Some(p) => {
                let hosts = oracle_hosts_ok(&p.locals);
                if !hosts {
                    expect_reply = "E:ERR_NOT_MY_META";
                    st.count("out.not_my_meta");
                    cs.rejected += 1;
                } else if p.force || p.epoch > cs.exp_epoch {
                    expect_reply = if p.cfg_ok { "S:OK" } else { "S:WARNING: ignored invalid config" };
                    st.count(if p.cfg_ok { "out.ok" } else { "out.warning" });
                    if p.force && p.epoch <= cs.exp_epoch {
                        st.count("out.forced_not_newer");
                    }
                    cs.exp_epoch = p.epoch;
                    cs.exp_fp = content_fp.clone();
                    cs.accepted += 1;
                } else {
                    expect_reply = "E:OLD_EPOCH";
                    st.count(if p.epoch == cs.exp_epoch { "out.old_epoch_equal" } else { "out.old_epoch_lower" });
                    cs.rejected += 1;
                }
                if p.compress {
                    st.count("flag.compress");
                }
                if p.force {
                    st.count("flag.force");
                }
            }
        }
        let c = self.s.cases;
        if shown != expect_reply {
            let what = format!("SETCLUSTER answered `{}`, the property prescribes `{}`", shown, expect_reply);
            self.s.stats.oracle_failure(c, &what, "", cs.ops.clone());
        }
        if epoch_txt != cs.exp_epoch.to_string() {
            let what = format!("GETEPOCH reports {} but the last accepted message carries {}", epoch_txt, cs.exp_epoch);
            self.s.stats.oracle_failure(c, &what, "", cs.ops.clone());
        }
        if fp != cs.exp_fp {
            let what = format!(
                "routing does not correspond to the accepted message carrying the reported epoch {}: {}",
                cs.exp_epoch, fp_text
            );
            self.s.stats.oracle_failure(c, &what, "", cs.ops.clone());
        }
    }

    async fn gen_case(&mut self, rng: &mut Rng, len: usize) {
        let mut cs = self.new_case().await;
        let npool = 3 + rng.below(4) as usize;
        let pool: Vec<Content> = (0..npool).map(|i| gen_content(rng, i)).collect();
        let mut sent: Vec<(Vec<Vec<u8>>, String)> = vec![];
        for _ in 0..len {
            // duplicates / stale replays of something already sent
            if !sent.is_empty() && rng.chance(1, 7) {
                let (args, _) = rng.pick(&sent).clone();
                self.send(&mut cs, &args, "replayed_duplicate").await;
                continue;
            }
            let c = rng.pick(&pool).clone();
            let cur = cs.exp_epoch;
            let (epoch, eclass): (String, &str) = match rng.below(32) {
                0..=13 => (cur.saturating_add(1 + rng.below(3)).to_string(), "higher"),
                14..=19 => (cur.to_string(), "equal"),
                20..=23 => (cur.saturating_sub(1 + rng.below(3)).to_string(), "lower"),
                24 | 25 => ("0".to_string(), "zero"),
                26 => ((u64::MAX - rng.below(2)).to_string(), "max"),
                27 | 28 => (rng.below(12).to_string(), "small_random"),
                29 => (format!("+{}", cur.saturating_add(1)), "plus_sign"),
                30 => ((u64::MAX as u128 + 1 + rng.below(5) as u128).to_string(), "overflow"),
                _ => (cur.saturating_add(1000).to_string(), "jump"),
            };
            let (flags, force, compress): (&str, bool, bool) = match rng.below(20) {
                0 | 1 | 2 => ("FORCE", true, false),
                3 => ("force", true, false),
                4 | 5 | 6 => ("COMPRESS", false, true),
                7 => ("FORCE,COMPRESS", true, true),
                8 => ("NOFLAG", false, false),
                9 => ("FORCED", false, false),
                _ => ("NOFLAGS", false, false),
            };
            let mut args = if compress {
                match compressed_args(&epoch, force, &c) {
                    Some(a) => a,
                    None => plain_args(&epoch, if force { "FORCE" } else { "NOFLAGS" }, &c),
                }
            } else {
                plain_args(&epoch, flags, &c)
            };
            let mut class = format!("{}.{}.{}", c.class, eclass, if compress { "compress" } else { "plain" });
            // malformed stream
            if rng.chance(1, 12) {
                class = "malformed".to_string();
                match rng.below(5) {
                    0 => {
                        let i = 2 + rng.below((args.len() - 2) as u64) as usize;
                        args.remove(i);
                    }
                    1 => {
                        args.truncate(2 + rng.below((args.len() - 1) as u64) as usize);
                    }
                    2 => {
                        let i = 2 + rng.below((args.len() - 2) as u64) as usize;
                        args[i] = rng.bytes(3);
                    }
                    3 => args[2] = b"v1".to_vec(),
                    _ => args[3] = b"-1".to_vec(),
                }
            }
            self.send(&mut cs, &args, &class).await;
            sent.push((args, class));
        }
        if cs.accepted >= 2 && cs.rejected >= 1 {
            let text = cs.ops.join("\n");
            self.s.stats.nontrivial_case(&text);
        }
        if self.s.stats.samples.len() < 3 {
            self.s.stats.sample(json!({"case": self.s.cases, "ops": cs.ops.iter().take(6).collect::<Vec<_>>() }));
        }
    }

    async fn replay(&mut self, lines: &[String]) {
        let mut cs: Option<CaseState> = None;
        for l in lines {
            if l.starts_with('#') {
                continue;
            }
            let toks: Vec<&str> = l.split(' ').collect();
            match toks[0] {
                "case" => cs = Some(self.new_case().await),
                "host" => {
                    if cs.is_none() {
                        cs = Some(self.new_case().await);
                    }
                }
                "set" => {
                    if cs.is_none() {
                        cs = Some(self.new_case().await);
                    }
                    let n: usize = toks.get(1).and_then(|t| t.parse().ok()).unwrap_or(0);
                    let args: Vec<Vec<u8>> = toks.iter().skip(2).take(n).filter_map(|t| unhex(t)).collect();
                    if let Some(c) = cs.as_mut() {
                        self.send(c, &args, "replay").await;
                    }
                }
                _ => {}
            }
        }
    }
}

fn main() {
    let args = parse_args();
    let rt = tokio::runtime::Builder::new_current_thread().enable_all().build().expect("runtime");
    rt.block_on(async move {
        let mut rng = Rng::new(args.seed);
        // probe keys for fixed slots, found with the real hash function
        let mut probe_keys = vec![];
        for slot in PROBE_SLOTS {
            let mut i = 0u64;
            loop {
                let k = format!("p{}", i).into_bytes();
                if generate_slot(&k) == slot {
                    probe_keys.push(k);
                    break;
                }
                i += 1;
            }
        }
        let ctx = Ctx { probe_keys };
        let empty_fp = ctx.fingerprint(&Proxy::new()).await.0;
        let mut r = Runner { s: Streams::new(&args), ctx, fp_cache: BTreeMap::new(), empty_fp };
        if let Some(p) = &args.replay {
            let lines = read_lines(p);
            r.replay(&lines).await;
        } else {
            let (cases, len) = if args.thorough { (1200, 40) } else { (60, 20) };
            for _ in 0..cases {
                let l = len / 2 + rng.below(len as u64) as usize;
                r.gen_case(&mut rng, l).await;
            }
        }
        r.s.finish(
            "setmeta",
            "cases = SETCLUSTER sequences against one real proxy (pool of 3-6 contents x epoch class {higher,equal,lower,zero,max,+sign,jump} x flags {NOFLAGS,FORCE,force,COMPRESS,FORCE+COMPRESS,unknown} x own/foreign/prefix/malformed host, duplicates, malformed commands); non-trivial = at least two accepted and one refused message; distinct = distinct op sequences",
        );
    });
}
