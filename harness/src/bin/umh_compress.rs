//! C20: two real `ForwardHandler`s (real `MetaManager`, senders, `DecompressCommitHandler`) wired to
//! each other and to two *storing* fake Redis instances; every client command shape x value class x
//! strategy x redirection mode. Observables: client replies, the commands that reached a backend,
//! the logical content of the stores. Real zstd frames are mapped to the model's toy frames
//! (`real_to_toy`), so zstd output is only ever checked through `decode(stored) = written`.
//! Unit cases call the real `try_compressing_cmd_ctx` / `decompress` directly.
use arc_swap::ArcSwap;
use serde_json::json;
use std::collections::{BTreeMap, HashMap};
use std::num::NonZeroUsize;
use std::sync::atomic::{AtomicI64, AtomicU64, Ordering};
use std::sync::Arc;
use std::time::Duration;
use umharness::compress_support::*;
use umharness::util::*;
use undermoon::common::batch::BatchStrategy;
use undermoon::common::config::CompressionStrategy;
use undermoon::common::track::TrackedFutureRegistry;
use undermoon::common::utils::generate_slot;
use undermoon::protocol::{Array, BulkStr, Resp, RespPacket, RespVec};
use undermoon::proxy::command::{new_command_pair, Command};
use undermoon::proxy::executor::SharedForwardHandler;
use undermoon::proxy::manager::MetaMap;
use undermoon::proxy::service::{ClusterNodesVersion, ServerProxyConfig};
use undermoon::proxy::session::CmdCtx;
use undermoon::proxy::slowlog::SlowRequestLogger;
use undermoon::proxy::verif_export::compress::{
    CmdCompressor, CmdReplyDecompressor, CompressionError, CompressionStrategyConfig,
};

type Handler = SharedForwardHandler<NullClientFactory, ClusterConnFactory>;

const PROXY_ADDR: [&str; 2] = ["127.0.0.1:6001", "127.0.0.2:6002"];
const PROXY_HOST: [&str; 2] = ["127.0.0.1", "127.0.0.2"];
const REDIS_ADDR: [&str; 2] = ["127.0.0.1:7001", "127.0.0.2:7002"];
const PROXY_PORT: [u16; 2] = [6001, 6002];
const REDIS_PORT: [u16; 2] = [7001, 7002];

struct Cluster {
    handlers: Vec<Arc<Handler>>,
    redis: Vec<Arc<FakeRedis>>,
    registry: Arc<Registry>,
    epoch: u64,
}

fn proxy_config(i: usize, ar: bool, maxr: Option<usize>) -> ServerProxyConfig {
    ServerProxyConfig {
        address: PROXY_ADDR[i].to_string(),
        announce_address: PROXY_ADDR[i].to_string(),
        announce_host: PROXY_HOST[i].to_string(),
        slowlog_len: NonZeroUsize::new(16).unwrap(),
        slowlog_log_slower_than: AtomicI64::new(100_000_000),
        slowlog_sample_rate: AtomicU64::new(1_000_000),
        thread_number: NonZeroUsize::new(1).unwrap(),
        backend_conn_num: NonZeroUsize::new(1).unwrap(),
        active_redirection: ar,
        max_redirections: maxr.and_then(NonZeroUsize::new),
        default_redirection_address: None,
        backend_batch_strategy: BatchStrategy::Disabled,
        backend_flush_size: NonZeroUsize::new(1024).unwrap(),
        backend_low_flush_interval: Duration::from_nanos(200_000),
        backend_high_flush_interval: Duration::from_nanos(800_000),
        session_timeout: None,
        backend_timeout: Duration::from_secs(30),
        password: None,
        command_cluster_nodes_version: ClusterNodesVersion::V2,
    }
}

impl Cluster {
    fn new(ar: bool, maxr: Option<usize>) -> Self {
        let registry = Arc::new(Registry::default());
        let mut handlers = vec![];
        let mut redis = vec![];
        for i in 0..2 {
            let r = Arc::new(FakeRedis::new(i));
            registry.redis.lock().unwrap().insert(REDIS_PORT[i], r.clone());
            redis.push(r);
            let config = Arc::new(proxy_config(i, ar, maxr));
            let meta_map = Arc::new(ArcSwap::new(Arc::new(MetaMap::empty())));
            let (stopped, _rx) = futures::channel::mpsc::unbounded();
            let h = Arc::new(SharedForwardHandler::new(
                config.clone(),
                Arc::new(NullClientFactory),
                Arc::new(SlowRequestLogger::new(config)),
                meta_map,
                Arc::new(ClusterConnFactory { registry: registry.clone() }),
                Arc::new(TrackedFutureRegistry::default()),
                stopped,
            ));
            handlers.push(h);
        }
        for i in 0..2 {
            let h = handlers[i].clone();
            let reg = registry.clone();
            let f: PeerFn = Arc::new(move |packet: RespPacket| {
                let h = h.clone();
                let reg = reg.clone();
                Box::pin(async move {
                    let r = run_through_handler(&*h, packet, 900 + i).await;
                    make_packet(r, reg.indexed_replies.load(Ordering::SeqCst))
                })
            });
            registry.peers.lock().unwrap().insert(PROXY_PORT[i], f);
        }
        Cluster { handlers, redis, registry, epoch: 0 }
    }
}

/// ranges owned by proxy 0 -> (ranges of proxy 0, ranges of proxy 1)
fn complement(r0: &[(usize, usize)]) -> Vec<(usize, usize)> {
    let mut out = vec![];
    let mut next = 0usize;
    for (a, b) in r0 {
        if *a > next {
            out.push((next, a - 1));
        }
        next = b + 1;
    }
    if next <= 16383 {
        out.push((next, 16383));
    }
    out
}

fn ranges_str(r: &[(usize, usize)]) -> String {
    if r.is_empty() {
        "-".to_string()
    } else {
        r.iter().map(|(a, b)| format!("{}-{}", a, b)).collect::<Vec<_>>().join(",")
    }
}

fn parse_ranges(s: &str) -> Vec<(usize, usize)> {
    if s == "-" {
        return vec![];
    }
    s.split(',')
        .filter_map(|r| {
            let mut it = r.split('-');
            Some((it.next()?.parse().ok()?, it.next()?.parse().ok()?))
        })
        .collect()
}

fn strategy_name(s: char) -> &'static str {
    match s {
        's' => "set_get_only",
        'a' => "allow_all",
        _ => "disabled",
    }
}

#[derive(Clone)]
struct Cfg {
    strategy: char,
    ar: bool,
    maxr: Option<usize>,
    r0: Vec<(usize, usize)>,
}

impl Cfg {
    fn line(&self) -> String {
        format!(
            "cfg {} {} {} {}",
            self.strategy,
            self.ar as u8,
            self.maxr.map(|n| n.to_string()).unwrap_or_else(|| "-".to_string()),
            ranges_str(&self.r0)
        )
    }
    fn owner(&self, key: &[u8]) -> usize {
        let slot = generate_slot(key);
        if self.r0.iter().any(|(a, b)| *a <= slot && slot <= *b) {
            0
        } else {
            1
        }
    }
}

fn set_cluster_args(cfg: &Cfg, i: usize, epoch: u64) -> Vec<Vec<u8>> {
    let r = [cfg.r0.clone(), complement(&cfg.r0)];
    let mut a: Vec<String> = vec!["UMCTL".into(), "SETCLUSTER".into(), "v2".into(), epoch.to_string(), "NOFLAGS".into(), "c20".into()];
    let node = |addr: &str, rs: &[(usize, usize)], a: &mut Vec<String>| {
        if !rs.is_empty() {
            a.push(addr.to_string());
            a.push(rs.len().to_string());
            for (x, y) in rs {
                a.push(format!("{}-{}", x, y));
            }
        }
    };
    node(REDIS_ADDR[i], &r[i], &mut a);
    if !r[1 - i].is_empty() {
        a.push("PEER".into());
        node(PROXY_ADDR[1 - i], &r[1 - i], &mut a);
    }
    a.push("CONFIG".into());
    a.push("compression_strategy".into());
    a.push(strategy_name(cfg.strategy).into());
    a.into_iter().map(|s| s.into_bytes()).collect()
}

struct World {
    rt: tokio::runtime::Runtime,
    clusters: HashMap<(bool, Option<usize>), Cluster>,
}

impl World {
    fn new() -> Self {
        let rt = tokio::runtime::Builder::new_current_thread().enable_all().build().expect("rt");
        World { rt, clusters: HashMap::new() }
    }

    fn setup(&mut self, cfg: &Cfg, indexed: bool) -> Result<(), String> {
        let key = (cfg.ar, cfg.maxr);
        let rt = &self.rt;
        let cl = self.clusters.entry(key).or_insert_with(|| {
            let _g = rt.enter();
            Cluster::new(cfg.ar, cfg.maxr)
        });
        cl.epoch += 1;
        cl.registry.indexed_replies.store(indexed, Ordering::SeqCst);
        for i in 0..2 {
            let mut st = cl.redis[i].state.lock().unwrap();
            st.store.clear();
            st.log.clear();
            st.applied.clear();
        }
        for i in 0..2 {
            let args = set_cluster_args(cfg, i, cl.epoch);
            let h = cl.handlers[i].clone();
            let r = rt.block_on(async move { run_through_handler(&*h, make_packet(cmd_resp(&args), false), 1).await });
            match r {
                Resp::Simple(s) if s == b"OK" => (),
                other => return Err(format!("SETCLUSTER failed: {}", show_resp(&other, &|b| b.to_vec()))),
            }
        }
        Ok(())
    }

    fn client(&mut self, cfg: &Cfg, p: usize, real_cmd: &[Vec<u8>], indexed: bool) -> RespVec {
        let cl = self.clusters.get(&(cfg.ar, cfg.maxr)).expect("cluster");
        let h = cl.handlers[p].clone();
        let packet = make_packet(cmd_resp(real_cmd), indexed);
        let fut = async move {
            match tokio::time::timeout(Duration::from_secs(20), run_through_handler(&*h, packet, 7)).await {
                Ok(r) => r,
                Err(_) => Resp::Error(b"<harness timeout>".to_vec()),
            }
        };
        let reply = self.rt.block_on(fut);
        // sub-commands may still be in flight when the parent already replied (e.g. the arity
        // error of `MSET k v k2`): let the backend tasks run until the fake Redis logs are stable
        let redis = cl.redis.clone();
        self.rt.block_on(async move {
            let total = |r: &Vec<Arc<FakeRedis>>| r.iter().map(|x| x.state.lock().unwrap().log.len()).sum::<usize>();
            let mut last = total(&redis);
            let mut stable = 0;
            while stable < 3 {
                for _ in 0..16 {
                    tokio::task::yield_now().await;
                }
                let now = total(&redis);
                if now == last { stable += 1 } else { stable = 0; last = now }
            }
        });
        reply
    }

    fn take_logs(&mut self, cfg: &Cfg) -> (Vec<(usize, Vec<Vec<u8>>)>, Vec<(usize, Vec<u8>, Vec<u8>)>) {
        let cl = self.clusters.get(&(cfg.ar, cfg.maxr)).expect("cluster");
        let (mut log, mut applied) = (vec![], vec![]);
        for i in 0..2 {
            let mut st = cl.redis[i].state.lock().unwrap();
            for c in st.log.drain(..) {
                log.push((i, c));
            }
            for (k, v) in st.applied.drain(..) {
                applied.push((i, k, v));
            }
        }
        (log, applied)
    }

    fn dump(&self, cfg: &Cfg) -> (String, Vec<BTreeMap<Vec<u8>, Vec<u8>>>) {
        let cl = self.clusters.get(&(cfg.ar, cfg.maxr)).expect("cluster");
        let mut parts = vec![];
        let mut stores = vec![];
        for i in 0..2 {
            let st = cl.redis[i].state.lock().unwrap();
            let mut items: Vec<String> =
                st.store.iter().map(|(k, v)| format!("{}={}", hex(&real_to_toy(k)), hex(&real_to_toy(v)))).collect();
            items.sort();
            parts.push(format!("b{}{{{}}}", i, items.join(",")));
            stores.push(st.store.clone());
        }
        (parts.join(";"), stores)
    }
}

// ---------------------------------------------------------------------------------------------
// generators (all byte strings in the model's "toy" form; `toy_to_real` gives the real bytes)
// ---------------------------------------------------------------------------------------------

fn rbytes(rng: &mut Rng, lo: i64, hi: i64) -> Vec<u8> {
    let n = rng.range(lo, hi) as usize;
    rng.bytes(n)
}

fn fix_raw(mut v: Vec<u8>) -> Vec<u8> {
    // a raw (non-frame) byte string must not look like a toy frame nor be a decodable zstd stream
    while (v.len() >= 4 && v[..4] == TOY_MAGIC) || is_real_decodable(&v) {
        v.insert(0, b'#');
    }
    v
}

fn gen_value(rng: &mut Rng, st: &mut Stats, thorough: bool) -> Vec<u8> {
    gen_value_opt(rng, st, thorough, false)
}

/// `line_safe`: no CR/LF anywhere (payloads of line-type replies)
fn gen_value_opt(rng: &mut Rng, st: &mut Stats, thorough: bool, line_safe: bool) -> Vec<u8> {
    let raw = match rng.below(12) {
        0 => { st.count("val.empty"); vec![] }
        1 | 2 => { st.count("val.short_ascii"); let n = rng.range(1, 12) as usize; (0..n).map(|_| b'a' + rng.below(26) as u8).collect() }
        3 => { st.count("val.binary_small"); let n = rng.range(1, 40) as usize; rng.bytes(n) }
        4 => { st.count("val.incompressible_1k"); let n = rng.range(200, 1500) as usize; rng.bytes(n) }
        5 => { st.count("val.compressible"); let n = rng.range(100, 2000) as usize; let pat = rbytes(rng, 1, 6); (0..n).map(|i| pat[i % pat.len()]).collect() }
        6 => { st.count("val.zstd_magic_garbage"); let mut v = vec![0x28, 0xB5, 0x2F, 0xFD]; v.extend(rbytes(rng, 0, 12)); v }
        7 => { st.count("val.truncated_frame"); let inner = rbytes(rng, 1, 64); let mut f = zstd::encode_all(inner.as_slice(), 1).unwrap(); let cut = rng.range(1, f.len() as i64 - 1) as usize; f.truncate(cut); f }
        8 => { st.count("val.crlf_and_nul"); let n = rng.range(1, 10) as usize; (0..n).map(|_| *rng.pick(&[b'\r', b'\n', 0u8, b' ', b'$', b'*'])).collect() }
        9 => {
            if rng.chance(1, 40) {
                let n = if thorough && rng.chance(1, 10) { st.count("val.large_1MiB"); 1 << 20 } else { st.count("val.large_64KiB"); 1 << 16 };
                if rng.chance(1, 2) { rng.bytes(n) } else { let pat = rng.bytes(7); (0..n).map(|i| pat[i % 7]).collect() }
            } else { st.count("val.number"); rng.range(-1000, 100000).to_string().into_bytes() }
        }
        10 => { st.count("val.frame_plus_garbage"); let mut f = zstd::encode_all(&b"abc"[..], 1).unwrap(); f.extend(rbytes(rng, 1, 5)); f }
        _ => { st.count("val.utf8_text"); "héllo wörld ✓".as_bytes().to_vec() }
    };
    let raw: Vec<u8> = if line_safe { raw.into_iter().filter(|b| *b != b'\r' && *b != b'\n').collect() } else { raw };
    let mut v = fix_raw(raw);
    // a value that is itself a valid frame (nested up to 2 levels)
    if rng.chance(1, 7) {
        let depth = if rng.chance(1, 4) { 2 } else { 1 };
        st.count("val.is_a_frame");
        for _ in 0..depth {
            let mut f = TOY_MAGIC.to_vec();
            f.extend(v);
            v = f;
        }
    }
    v
}

fn gen_keys(rng: &mut Rng, st: &mut Stats) -> Vec<Vec<u8>> {
    let n = rng.range(2, 5) as usize;
    let tag = format!("{{t{}}}", rng.below(3));
    let mut keys: Vec<Vec<u8>> = vec![];
    for i in 0..n {
        let k = match rng.below(8) {
            0 | 1 => { st.count("key.short"); format!("k{}", rng.below(1000)).into_bytes() }
            2 | 3 => { st.count("key.hashtag"); format!("{}{}", tag, i).into_bytes() }
            4 => { st.count("key.binary"); fix_raw(rbytes(rng, 1, 8)) }
            5 => { st.count("key.cmd_name"); rng.pick(&["SET", "get", "MSET", "UMFORWARD"]).as_bytes().to_vec() }
            6 => { st.count("key.long"); let n = rng.range(60, 200) as usize; (0..n).map(|_| b'a' + rng.below(26) as u8).collect() }
            _ => { st.count("key.empty_or_braces"); rng.pick(&["", "{}", "{", "a{}b", "{x"]).as_bytes().to_vec() }
        };
        if !keys.contains(&k) {
            keys.push(k);
        }
    }
    keys
}

fn mix_case(rng: &mut Rng, name: &str) -> Vec<u8> {
    match rng.below(5) {
        0 => name.to_lowercase().into_bytes(),
        1 => name.bytes().map(|b| if rng.chance(1, 2) { b.to_ascii_lowercase() } else { b }).collect(),
        _ => name.as_bytes().to_vec(),
    }
}

const RESTRICTED: &[&str] = &[
    "APPEND", "BITCOUNT", "BITFIELD", "BITOP", "BITPOS", "DECR", "DECRBY", "GETBIT", "GETRANGE", "INCR", "INCRBY",
    "INCRBYFLOAT", "SETBIT", "SETRANGE", "STRLEN",
];

fn gen_cmd(rng: &mut Rng, st: &mut Stats, keys: &[Vec<u8>], thorough: bool) -> Vec<Vec<u8>> {
    let k = |rng: &mut Rng| rng.pick(keys).clone();
    let b = |s: &str| s.as_bytes().to_vec();
    match rng.below(40) {
        0..=4 => {
            st.count("cmd.SET");
            let mut c = vec![mix_case(rng, "SET"), k(rng), gen_value(rng, st, thorough)];
            for _ in 0..rng.below(3) {
                match rng.below(6) {
                    0 => { c.push(mix_case(rng, "EX")); c.push(b("100")); }
                    1 => { c.push(mix_case(rng, "PX")); c.push(b("100000")); }
                    2 => { st.count("cmd.SET.nx"); c.push(mix_case(rng, "NX")); }
                    3 => { st.count("cmd.SET.xx"); c.push(mix_case(rng, "XX")); }
                    4 => c.push(b("KEEPTTL")),
                    _ => c.push(gen_value(rng, st, false)),
                }
            }
            c
        }
        5 | 6 => { st.count("cmd.SETEX"); vec![mix_case(rng, "SETEX"), k(rng), b("100"), gen_value(rng, st, thorough)] }
        7 | 8 => { st.count("cmd.PSETEX"); vec![mix_case(rng, "PSETEX"), k(rng), b("100000"), gen_value(rng, st, thorough)] }
        9 | 10 => { st.count("cmd.SETNX"); vec![mix_case(rng, "SETNX"), k(rng), gen_value(rng, st, thorough)] }
        11 | 12 => { st.count("cmd.GETSET"); vec![mix_case(rng, "GETSET"), k(rng), gen_value(rng, st, thorough)] }
        13..=18 => { st.count("cmd.GET"); vec![mix_case(rng, "GET"), k(rng)] }
        19..=21 => {
            st.count("cmd.MGET");
            let mut c = vec![mix_case(rng, "MGET")];
            for _ in 0..rng.range(1, 4) { c.push(k(rng)); }
            c
        }
        22..=24 => {
            st.count("cmd.MSET");
            let mut c = vec![mix_case(rng, "MSET")];
            for _ in 0..rng.range(1, 4) { c.push(k(rng)); c.push(gen_value(rng, st, false)); }
            c
        }
        25..=27 => {
            st.count("cmd.MSETNX");
            let mut c = vec![mix_case(rng, "MSETNX")];
            for _ in 0..rng.range(1, 4) { c.push(k(rng)); c.push(gen_value(rng, st, false)); }
            c
        }
        28 => { st.count("cmd.DEL"); vec![mix_case(rng, "DEL"), k(rng)] }
        29 => { st.count("cmd.EXISTS"); vec![mix_case(rng, "EXISTS"), k(rng)] }
        30 | 31 => {
            st.count("cmd.restricted");
            let name = *rng.pick(RESTRICTED);
            let mut c = vec![mix_case(rng, name), k(rng)];
            for _ in 0..rng.below(3) { c.push(gen_value(rng, st, false)); }
            c
        }
        32 | 33 => {
            st.count("cmd.XECHO");
            let kind = *rng.pick(&["int", "simple", "err", "bulk", "nil", "arr", "narr"]);
            let payload = if matches!(kind, "int" | "simple" | "err") {
                // line-type replies cannot carry CR/LF on a real wire
                gen_value_opt(rng, st, false, true)
            } else { gen_value(rng, st, false) };
            vec![mix_case(rng, "XECHO"), k(rng), b(kind), payload]
        }
        34 => {
            st.count("cmd.other_known_or_unknown");
            let name = *rng.pick(&["EXPIRE", "LPOP", "HDEL", "FOO", "SUBSTR", "GETDEL", "TTL"]);
            vec![mix_case(rng, name), k(rng), b("1"), b("2")]
        }
        35 | 36 => {
            st.count("cmd.malformed_arity");
            match rng.below(9) {
                0 => vec![b("SET"), k(rng)],
                1 => vec![b("SETEX"), k(rng), b("10")],
                2 => vec![b("MSET"), k(rng)],
                3 => vec![b("MSET"), k(rng), gen_value(rng, st, false), k(rng)],
                4 => vec![b("MGET")],
                5 => vec![b("GETSET"), k(rng)],
                6 => vec![b("MSETNX"), k(rng), gen_value(rng, st, false), k(rng)],
                7 => vec![b("GET")],
                _ => vec![b("MSETNX")],
            }
        }
        37 => {
            st.count("cmd.umforward_crafted");
            let times = *rng.pick(&["0", "1", "3", "+2", "x", "", "18446744073709551616"]);
            let mut c = vec![mix_case(rng, "UMFORWARD"), b(times)];
            match rng.below(5) {
                0 => { c.extend(vec![b("SET"), k(rng), gen_value(rng, st, false)]); }
                1 => { c.extend(vec![b("GET"), k(rng)]); }
                2 => { c.extend(vec![b("MGET"), k(rng), k(rng)]); }
                3 => {}
                _ => { c.extend(vec![b("MSET"), k(rng), gen_value(rng, st, false)]); }
            }
            if rng.chance(1, 8) { c.truncate(1); }
            c
        }
        38 => { st.count("cmd.long_name"); vec![vec![b'S'; rng.range(63, 66) as usize], k(rng), b("v")] }
        _ => { st.count("cmd.empty_array"); vec![] }
    }
}

fn gen_cfg(rng: &mut Rng, st: &mut Stats) -> Cfg {
    let strategy = match rng.below(20) { 0..=2 => 'd', 3..=11 => 's', _ => 'a' };
    let ar = rng.chance(1, 2);
    let maxr = if ar { *rng.pick(&[None, Some(1), Some(2), Some(4)]) } else { None };
    let r0 = match rng.below(6) {
        0 => vec![(0, 8191)],
        1 => vec![(0, 16383)],
        2 => vec![],
        3 => { let a = rng.range(1, 16382) as usize; vec![(0, a)] }
        4 => { let a = rng.range(1, 8000) as usize; let c = rng.range(8001, 16000) as usize; vec![(a, 8000), (c, 16383)] }
        _ => { let a = rng.range(0, 5000) as usize; let b2 = rng.range(5001, 10000) as usize; let c = rng.range(12001, 16383) as usize; vec![(a, a + 10), (b2, b2 + 2000), (c, c)] }
    };
    st.count(&format!("cfg.strategy.{}", strategy_name(strategy)));
    st.count(if ar { "cfg.active_redirection.on" } else { "cfg.active_redirection.off" });
    st.count(&format!("cfg.max_redirections.{}", maxr.map(|n| n.to_string()).unwrap_or_else(|| "none".into())));
    Cfg { strategy, ar, maxr, r0 }
}

// ---------------------------------------------------------------------------------------------
// the property's oracle, evaluated on the implementation's observables only
// ---------------------------------------------------------------------------------------------

#[derive(Clone)]
struct Written {
    value: Vec<u8>,
    tainted: bool,
}

#[derive(Default)]
struct Oracle {
    logical: HashMap<Vec<u8>, Written>,
}

fn upper(b: &[u8]) -> String {
    String::from_utf8_lossy(&b.to_ascii_uppercase()).to_string()
}

fn is_routing_error(r: &RespVec) -> bool {
    matches!(r, Resp::Error(e) if e.starts_with(b"MOVED ") || e.starts_with(b"ERR_TOO_MANY_REDIRECTIONS")
        || e.starts_with(b"ERR_MULTI_SLOTS") || e.starts_with(b"slot not covered"))
}

fn client_pairs(name: &str, cmd: &[Vec<u8>]) -> Vec<(Vec<u8>, Vec<u8>)> {
    match name {
        "SET" | "SETNX" | "GETSET" if cmd.len() >= 3 => vec![(cmd[1].clone(), cmd[2].clone())],
        "SETEX" | "PSETEX" if cmd.len() >= 4 => vec![(cmd[1].clone(), cmd[3].clone())],
        "MSET" | "MSETNX" => cmd[1..].chunks(2).filter(|c| c.len() == 2).map(|c| (c[0].clone(), c[1].clone())).collect(),
        _ => vec![],
    }
}

type Failure = (String, &'static str);

impl Oracle {
    #[allow(clippy::too_many_arguments)]
    fn check(
        &mut self,
        cfg: &Cfg,
        p: usize,
        cmd: &[Vec<u8>],
        reply: &RespVec,
        log: &[(usize, Vec<Vec<u8>>)],
        applied: &[(usize, Vec<u8>, Vec<u8>)],
    ) -> Vec<Failure> {
        let mut fails: Vec<Failure> = vec![];
        let name = cmd.first().map(|n| upper(n)).unwrap_or_default();
        let enabled = cfg.strategy != 'd';
        let taint = |o: &mut Oracle, keys: &[Vec<u8>]| {
            for k in keys {
                o.logical.insert(k.clone(), Written { value: vec![], tainted: true });
            }
        };
        if name == "UMFORWARD" || name.is_empty() {
            // internal command sent by a client: outside the property; forget what it touched
            taint(self, &applied.iter().map(|a| a.1.clone()).collect::<Vec<_>>());
            return fails;
        }
        // (1) restricted commands in set_get_only: refused, nothing reaches a backend
        if cfg.strategy == 's' && RESTRICTED.contains(&name.as_str()) {
            if !matches!(reply, Resp::Error(_)) || !log.is_empty() {
                fails.push((format!("restricted command {} was not refused in set_get_only", name), ""));
            }
            return fails;
        }
        // (2) reads return the written bytes
        let mut check_read = |key: &[u8], r: &RespVec, fails: &mut Vec<Failure>| {
            if let Some(w) = self.logical.get(key) {
                if w.tainted {
                    return;
                }
                match r {
                    Resp::Bulk(BulkStr::Str(b)) => {
                        if *b != w.value {
                            fails.push((format!("{} returned bytes different from the value written", name), ""));
                        }
                    }
                    Resp::Bulk(BulkStr::Nil) => fails.push((format!("{} returned nil for a key that was written", name), "")),
                    _ => (),
                }
            }
        };
        match name.as_str() {
            "GET" | "GETSET" if cmd.len() >= 2 && !is_routing_error(reply) => check_read(&cmd[1], reply, &mut fails),
            "MGET" => {
                if let Resp::Arr(Array::Arr(rs)) = reply {
                    if rs.len() == cmd.len() - 1 {
                        for (k, r) in cmd[1..].iter().zip(rs.iter()) {
                            check_read(k, r, &mut fails);
                        }
                    } else {
                        fails.push(("MGET reply length differs from the number of keys".to_string(), ""));
                    }
                }
            }
            _ => (),
        }
        // (3) what was stored is the (once) compressed form of what the client wrote
        let pairs = client_pairs(&name, cmd);
        for (_b, k, stored) in applied {
            let cands: Vec<&Vec<u8>> = pairs.iter().filter(|(pk, _)| pk == k).map(|(_, v)| v).collect();
            if name == "APPEND" || cands.is_empty() {
                if name != "APPEND" {
                    fails.push((format!("{} stored a key the client did not write", name), ""));
                }
                taint(self, &[k.clone()]);
                continue;
            }
            let dec1 = zstd::decode_all(stored.as_slice()).ok();
            let good = cands.iter().find(|v| if enabled { dec1.as_ref() == Some(**v) } else { stored == **v });
            if let Some(v) = good {
                self.logical.insert(k.clone(), Written { value: (*v).clone(), tainted: false });
                continue;
            }
            // (F10, fixed in 04a2318: a forwarded write used to be stored compressed twice; any
            // double compression is now a plain violation)
            let dec2 = dec1.as_ref().and_then(|d| zstd::decode_all(d.as_slice()).ok());
            let twice = enabled && cands.iter().any(|v| dec2.as_ref() == Some(*v));
            if twice {
                fails.push((format!("{}: the value written is stored compressed twice", name), ""));
            } else {
                fails.push((format!("{}: stored bytes are not the compressed form of the value written", name), ""));
            }
            taint(self, &[k.clone()]);
        }
        if name == "DEL" && matches!(reply, Resp::Integer(n) if n == b"1") && cmd.len() >= 2 {
            self.logical.remove(&cmd[1]);
        }
        // (4) keys, options and non-value arguments reach the backend unchanged
        let value_idx: Option<usize> = match name.as_str() {
            "SET" | "SETNX" | "GETSET" => Some(2),
            "SETEX" | "PSETEX" => Some(3),
            _ => None,
        };
        match name.as_str() {
            "MSET" => {
                for (_, c) in log {
                    if !(c.len() == 3 && c[0] == b"SET" && pairs.iter().any(|(k, _)| *k == c[1])) {
                        fails.push(("MSET sub-command is not `SET <client key> <value>`".to_string(), ""));
                    }
                }
            }
            "MSETNX" => {
                let mut sent: Vec<Vec<u8>> = vec![];
                for (_, c) in log {
                    if c.is_empty() || c[0] != b"MSETNX" || c.len() % 2 != 1 {
                        fails.push(("MSETNX sub-command has an unexpected shape".to_string(), ""));
                        continue;
                    }
                    sent.extend(c[1..].chunks(2).map(|kv| kv[0].clone()));
                }
                let mut want: Vec<Vec<u8>> = pairs.iter().map(|(k, _)| k.clone()).collect();
                sent.sort();
                want.sort();
                // a refused group (routing error) sends nothing; nothing may be invented
                let invented = sent.iter().any(|k| !want.contains(k));
                let lost = !matches!(reply, Resp::Error(_)) && sent != want;
                if invented || lost {
                    fails.push(("MSETNX regrouping lost or invented keys".to_string(), ""));
                }
            }
            "MGET" => {
                for (_, c) in log {
                    if !(c.len() == 2 && c[0] == b"GET" && cmd[1..].contains(&c[1])) {
                        fails.push(("MGET sub-command is not `GET <client key>`".to_string(), ""));
                    }
                }
            }
            _ => {
                for (_, c) in log {
                    let same = c.len() == cmd.len()
                        && c.iter().zip(cmd.iter()).enumerate().all(|(i, (x, y))| Some(i) == value_idx.filter(|_| enabled) || x == y);
                    if !same {
                        fails.push((format!("{}: a key, option or non-value argument was altered on the way to the backend", name), ""));
                    }
                }
            }
        }
        // (5) replies of commands that are not read forms pass through untouched
        if name == "XECHO" && cmd.len() >= 4 && !log.is_empty() && *reply != xecho(&cmd[2], &cmd[3]) {
            fails.push(("reply of a non-string command was altered".to_string(), ""));
        }
        fails
    }
}

// ---------------------------------------------------------------------------------------------
// unit level: the real CmdCompressor / CmdReplyDecompressor
// ---------------------------------------------------------------------------------------------

struct FixedStrategy(CompressionStrategy);
impl CompressionStrategyConfig for FixedStrategy {
    fn get_config(&self) -> CompressionStrategy {
        self.0
    }
}

fn strategy_of(c: char) -> CompressionStrategy {
    match c {
        's' => CompressionStrategy::SetGetOnly,
        'a' => CompressionStrategy::AllowAll,
        _ => CompressionStrategy::Disabled,
    }
}

fn err_name(e: &CompressionError) -> &'static str {
    match e {
        CompressionError::Io(_) => "Io",
        CompressionError::InvalidRequest => "InvalidRequest",
        CompressionError::InvalidResp => "InvalidResp",
        CompressionError::Disabled => "Disabled",
        CompressionError::UnsupportedCmdType => "UnsupportedCmdType",
        CompressionError::RestrictedCmd => "RestrictedCmd",
    }
}

fn make_ctx(real_cmd: &[Vec<u8>], indexed: bool) -> CmdCtx {
    let cmd = Command::new(Box::new(make_packet(cmd_resp(real_cmd), indexed)));
    let (s, _r) = new_command_pair(&cmd);
    CmdCtx::new(cmd, s, 1, false)
}

fn unit_compress(strategy: char, toy_cmd: &[Vec<u8>], indexed: bool) -> String {
    let real: Vec<Vec<u8>> = toy_cmd.iter().map(|a| toy_to_real(a)).collect();
    let r = std::panic::catch_unwind(|| {
        let mut ctx = make_ctx(&real, indexed);
        let c = CmdCompressor::new(FixedStrategy(strategy_of(strategy)));
        match c.try_compressing_cmd_ctx(&mut ctx) {
            Ok(()) => {
                let n = ctx.get_cmd().get_command_len().unwrap_or(0);
                let args: Vec<String> = (0..n)
                    .map(|i| ctx.get_cmd().get_command_element(i).map(|e| hex(&real_to_toy(e))).unwrap_or_else(|| "<none>".into()))
                    .collect();
                format!("ok {}", args.join(","))
            }
            Err(e) => format!("err {}", err_name(&e)),
        }
    });
    r.unwrap_or_else(|_| "PANIC".to_string())
}

fn unit_decompress(strategy: char, name: &[u8], toy_reply: &str, indexed: bool) -> String {
    let reply = match parse_resp(toy_reply, &|b| toy_to_real(b)) {
        Some(r) => r,
        None => return "bad-op".to_string(),
    };
    let name = name.to_vec();
    let r = std::panic::catch_unwind(move || {
        let ctx = make_ctx(&[name, b"k".to_vec()], false);
        let d = CmdReplyDecompressor::new(FixedStrategy(strategy_of(strategy)));
        let mut packet = make_packet(reply, indexed);
        match d.decompress(&ctx, &mut packet) {
            Ok(()) => format!("ok {}", show_resp(&packet.to_resp_vec(), &|b| real_to_toy(b))),
            Err(e) => format!("err {}", err_name(&e)),
        }
    });
    r.unwrap_or_else(|_| "PANIC".to_string())
}

fn gen_reply(rng: &mut Rng, st: &mut Stats, depth: u32) -> String {
    let v = |rng: &mut Rng, st: &mut Stats| hex(&gen_value(rng, st, false));
    let line = |rng: &mut Rng, st: &mut Stats| hex(&gen_value_opt(rng, st, false, true));
    match rng.below(if depth >= 2 { 7 } else { 10 }) {
        0 | 1 | 2 => format!("B:{}", v(rng, st)),
        3 => "N".to_string(),
        4 => format!("I:{}", line(rng, st)),
        5 => format!("S:{}", line(rng, st)),
        6 => format!("E:{}", line(rng, st)),
        7 => "Z".to_string(),
        _ => {
            let n = rng.below(4);
            format!("A[{}]", (0..n).map(|_| gen_reply(rng, st, depth + 1)).collect::<Vec<_>>().join(";"))
        }
    }
}

// ---------------------------------------------------------------------------------------------

struct Runner {
    world: World,
    s: Streams,
    cfg: Option<Cfg>,
    oracle: Oracle,
    case_ops: Vec<String>,
    roundtrips: u64,
    indexed: bool,
}

impl Runner {
    fn start_case(&mut self) {
        self.s.case();
        self.cfg = None;
        self.oracle = Oracle::default();
        self.case_ops.clear();
        self.roundtrips = 0;
    }

    fn end_case(&mut self) {
        if self.roundtrips > 0 {
            let text = self.case_ops.join("\n");
            self.s.stats.nontrivial_case(&text);
        }
    }

    /// run one op line against the real code; returns the client reply of a `c` op
    fn op(&mut self, line: &str) -> Option<RespVec> {
        self.case_ops.push(line.to_string());
        let toks: Vec<&str> = line.split(' ').collect();
        match toks[0] {
            "cfg" if toks.len() == 5 => {
                let cfg = Cfg {
                    strategy: toks[1].chars().next().unwrap_or('d'),
                    ar: toks[2] == "1",
                    maxr: toks[3].parse().ok(),
                    r0: parse_ranges(toks[4]),
                };
                let out = match self.world.setup(&cfg, self.indexed) {
                    Ok(()) => "ok".to_string(),
                    Err(e) => format!("setup-failed {}", e.replace(' ', "_")),
                };
                self.cfg = Some(cfg);
                self.oracle = Oracle::default(); // a (re)configuration starts from empty stores
                self.s.op(line, &out);
                None
            }
            "c" if toks.len() >= 2 && self.cfg.is_some() => {
                let cfg = self.cfg.clone().unwrap();
                let p: usize = toks[1].parse().unwrap_or(0).min(1);
                let toy: Option<Vec<Vec<u8>>> = toks[2..].iter().map(|t| unhex(t)).collect();
                let toy = match toy { Some(t) => t, None => { self.s.op(line, "bad-op"); return None; } };
                let real: Vec<Vec<u8>> = toy.iter().map(|a| toy_to_real(a)).collect();
                self.world.take_logs(&cfg);
                let reply = self.world.client(&cfg, p, &real, self.indexed);
                let (log, applied) = self.world.take_logs(&cfg);
                let mut entries: Vec<String> = log
                    .iter()
                    .map(|(b, c)| format!("b{}:{}", b, c.iter().map(|a| hex(&real_to_toy(a))).collect::<Vec<_>>().join(",")))
                    .collect();
                entries.sort();
                let obs = format!("{} | {}", show_resp(&reply, &|b| real_to_toy(b)), entries.join(";"));
                self.s.op(line, &obs);
                let kind = match &reply {
                    Resp::Error(e) if e.starts_with(b"MOVED ") => "out.moved",
                    Resp::Error(e) if e.starts_with(b"unsupported string command") => "out.restricted_refused",
                    Resp::Error(_) => "out.error",
                    Resp::Bulk(BulkStr::Str(_)) => "out.bulk",
                    Resp::Bulk(BulkStr::Nil) => "out.nil",
                    Resp::Arr(_) => "out.array",
                    Resp::Integer(_) => "out.integer",
                    Resp::Simple(_) => "out.simple",
                };
                self.s.stats.count(kind);
                if log.iter().any(|(b, _)| *b != p) { self.s.stats.count("out.forwarded_to_peer"); }
                let name = real.first().map(|n| upper(n)).unwrap_or_default();
                if cfg.strategy != 'd' && matches!(name.as_str(), "GET" | "GETSET" | "MGET") {
                    let hit = match &reply {
                        Resp::Bulk(BulkStr::Str(_)) => true,
                        Resp::Arr(Array::Arr(a)) => a.iter().any(|x| matches!(x, Resp::Bulk(BulkStr::Str(_)))),
                        _ => false,
                    };
                    if hit { self.roundtrips += 1; self.s.stats.count("out.read_of_written_value"); }
                }
                let fails = self.oracle.check(&cfg, p, &real, &reply, &log, &applied);
                for (what, finding) in fails {
                    let c = self.s.cases;
                    self.s.stats.count("oracle.failure");
                    let replay = self.case_ops.clone();
                    self.s.stats.oracle_failure(c, &what, finding, replay);
                }
                Some(reply)
            }
            "dump" if self.cfg.is_some() => {
                let cfg = self.cfg.clone().unwrap();
                let (text, stores) = self.world.dump(&cfg);
                self.s.op(line, &text);
                // every key is stored on the backend of the proxy that owns its slot
                for (i, st) in stores.iter().enumerate() {
                    for k in st.keys() {
                        if cfg.owner(k) != i {
                            let c = self.s.cases;
                            let replay = self.case_ops.clone();
                            self.s.stats.oracle_failure(c, "key stored on a backend that does not own its slot", "", replay);
                        }
                    }
                }
                None
            }
            "uc" if toks.len() >= 2 => {
                let toy: Option<Vec<Vec<u8>>> = toks[2..].iter().map(|t| unhex(t)).collect();
                let out = match toy {
                    Some(t) => unit_compress(toks[1].chars().next().unwrap_or('d'), &t, self.indexed),
                    None => "bad-op".to_string(),
                };
                self.s.stats.count(&format!("out.unit.{}", out.split(' ').take(2).collect::<Vec<_>>()[..if out.starts_with("err") { 2 } else { 1 }].join("_")));
                self.s.op(line, &out);
                None
            }
            "ud" if toks.len() == 4 => {
                let out = match unhex(toks[2]) {
                    Some(n) => unit_decompress(toks[1].chars().next().unwrap_or('d'), &n, toks[3], self.indexed),
                    None => "bad-op".to_string(),
                };
                self.s.stats.count(&format!("out.unit.{}", out.split(' ').take(2).collect::<Vec<_>>()[..if out.starts_with("err") { 2 } else { 1 }].join("_")));
                self.s.op(line, &out);
                None
            }
            _ => {
                self.s.op(line, "bad-op");
                None
            }
        }
    }
}

fn cmd_line(p: usize, toy: &[Vec<u8>]) -> String {
    let mut s = format!("c {}", p);
    for a in toy {
        s.push(' ');
        s.push_str(&hex(a));
    }
    s
}

fn fixed_cases() -> Vec<Vec<String>> {
    let h = |s: &str| hex(s.as_bytes());
    let mut cases = vec![];
    // regression for F10 (fixed): SET via the non-owner with active redirection, GET at the owner and at the non-owner
    for maxr in ["-", "4"] {
        cases.push(vec![
            format!("cfg s 1 {} 0-8191", maxr),
            format!("c 0 {} {} {}", h("SET"), h("b"), h("value")),   // slot of "b" = 3300 -> proxy 0 (owner)
            format!("c 1 {} {}", h("GET"), h("b")),
            format!("c 1 {} {} {}", h("SET"), h("b"), h("value2")),  // via non-owner
            format!("c 0 {} {}", h("GET"), h("b")),
            format!("c 1 {} {}", h("GET"), h("b")),
            "dump".to_string(),
        ]);
    }
    // every write form x every read form at the owner, both enabled strategies, MOVED mode
    for s in ["s", "a", "d"] {
        let mut c = vec![format!("cfg {} 0 - 0-16383", s)];
        let k = h("{t}1");
        let k2 = h("{t}2");
        for (i, w) in [
            format!("{} {} {}", h("SET"), k, h("v-set")),
            format!("{} {} {} {} {} {}", h("set"), k, h("v-set-opts"), h("EX"), h("100"), h("XX")),
            format!("{} {} {} {}", h("SETEX"), k, h("100"), h("v-setex")),
            format!("{} {} {} {}", h("PSETEX"), k, h("100000"), h("v-psetex")),
            format!("{} {} {}", h("GETSET"), k, h("v-getset")),
            format!("{} {} {} {} {}", h("MSET"), k, h("v-mset"), k2, h("v-mset2")),
        ].iter().enumerate() {
            c.push(format!("c 0 {}", w));
            c.push(format!("c 0 {} {}", h("GET"), k));
            c.push(format!("c 0 {} {} {}", h("MGET"), k, k2));
            if i % 2 == 0 { c.push(format!("c 0 {} {} {}", h("GETSET"), k, h("tmp"))); }
        }
        c.push(format!("c 0 {} {}", h("DEL"), k));
        c.push(format!("c 0 {} {}", h("DEL"), k2));
        c.push(format!("c 0 {} {} {}", h("SETNX"), k, h("v-setnx")));
        c.push(format!("c 0 {} {}", h("GET"), k));
        c.push(format!("c 0 {} {}", h("DEL"), k));
        c.push(format!("c 0 {} {} {} {} {}", h("MSETNX"), k, h("v-msetnx"), k2, h("v-msetnx2")));
        c.push(format!("c 0 {} {} {}", h("MGET"), k, k2));
        c.push(format!("c 0 {} {} {}", h("APPEND"), k, h("x")));
        c.push(format!("c 0 {} {}", h("STRLEN"), k));
        c.push(format!("c 0 {} {} {} {}", h("XECHO"), k, h("arr"), hex(&[TOY_MAGIC.to_vec(), b"abc".to_vec()].concat())));
        c.push("dump".to_string());
        cases.push(c);
    }
    cases
}

fn main() {
    let args = parse_args();
    let mut rng = Rng::new(args.seed);
    let s = Streams::new(&args);
    let mut r = Runner { world: World::new(), s, cfg: None, oracle: Oracle::default(), case_ops: vec![], roundtrips: 0, indexed: true };

    if let Some(p) = &args.replay {
        let mut started = false;
        for l in read_lines(p) {
            if l.starts_with('#') { continue; }
            if l.starts_with("case ") { if started { r.end_case(); } r.start_case(); started = true; continue; }
            if !started { r.start_case(); started = true; }
            r.op(&l);
        }
        if started { r.end_case(); }
        r.s.finish("compress", RULE);
        return;
    }

    for c in fixed_cases() {
        r.start_case();
        for l in c { r.op(&l); }
        r.end_case();
    }

    let n_cases = if args.thorough { 16_000 } else { 700 };
    for case_i in 0..n_cases {
        r.start_case();
        r.indexed = rng.chance(3, 4);
        r.s.stats.count(if r.indexed { "gen.packets.indexed" } else { "gen.packets.data" });
        if case_i % 8 == 7 {
            // unit case
            r.s.stats.count("gen.case.unit");
            for _ in 0..12 {
                let strategy = *rng.pick(&['d', 's', 's', 'a', 'a']);
                if rng.chance(1, 2) {
                    let base: &str = if rng.chance(5, 6) { *rng.pick(KNOWN_DATA_CMDS) } else { *rng.pick(&["XECHO", "FOO", "", "SUBSTR"]) };
                    let name: Vec<u8> = mix_case(&mut rng, base);
                    let mut cmd = vec![name];
                    for _ in 0..rng.below(7) { cmd.push(gen_value(&mut rng, &mut r.s.stats, false)); }
                    if rng.chance(1, 20) { cmd.clear(); }
                    let mut line = format!("uc {}", strategy);
                    for a in &cmd { line.push(' '); line.push_str(&hex(a)); }
                    r.op(&line);
                } else {
                    let name = if rng.chance(3, 4) { *rng.pick(&["GET", "GETSET", "MGET", "get", "mGet"]) } else { *rng.pick(&["SET", "LRANGE", "XECHO", "STRLEN", "MSET"]) };
                    let reply = gen_reply(&mut rng, &mut r.s.stats, 0);
                    r.op(&format!("ud {} {} {}", strategy, hex(name.as_bytes()), reply));
                }
            }
            r.end_case();
            continue;
        }
        r.s.stats.count("gen.case.system");
        let cfg = gen_cfg(&mut rng, &mut r.s.stats);
        r.op(&cfg.line());
        let keys = gen_keys(&mut rng, &mut r.s.stats);
        let n_ops = rng.range(3, 12);
        for _ in 0..n_ops {
            let cmd = gen_cmd(&mut rng, &mut r.s.stats, &keys, args.thorough);
            // mostly talk to the owner of the first key (a cluster client would), sometimes not
            let owner = cmd.get(1).map(|k| cfg.owner(&toy_to_real(k))).unwrap_or(0);
            let p = if rng.chance(3, 5) { owner } else { rng.below(2) as usize };
            r.s.stats.count(if p == owner { "gen.sent_to.owner" } else { "gen.sent_to.non_owner" });
            let reply = r.op(&cmd_line(p, &cmd));
            if let Some(Resp::Error(e)) = reply {
                if e.starts_with(b"MOVED ") && rng.chance(3, 4) {
                    r.s.stats.count("gen.followed_moved");
                    r.op(&cmd_line(1 - p, &cmd));
                }
            }
        }
        r.op("dump");
        if case_i < 6 {
            let ops = r.case_ops.clone();
            r.s.stats.sample(json!({"case": ops.iter().take(4).cloned().collect::<Vec<_>>()}));
        }
        r.end_case();
    }
    r.s.finish("compress", RULE);
}

const RULE: &str = "cases: fixed (forwarded-write regression; every write form x read form per strategy) + generated system cases (cfg: strategy x active redirection x max redirections x slot split; 3-12 client commands over a small key pool: SET+options/SETEX/PSETEX/SETNX/GETSET/GET/MGET/MSET/MSETNX/DEL/EXISTS/restricted string commands/XECHO pass-through/unknown/malformed arity/client-crafted UMFORWARD/over-long names; values: empty, ascii, binary, incompressible, compressible, zstd-magic garbage, truncated frame, frame+garbage, CR/LF/NUL, 64KiB (1MiB in thorough), values that are valid frames; MOVED followed by the client) + unit cases (real try_compressing_cmd_ctx / decompress on random shapes); non-trivial = a case with compression enabled in which a read form returned a stored value; distinct = distinct op sequences";
