//! C11: the real `TaskBlockingQueue` (src/proxy/blocking.rs) under a deterministic scheduler.
//!
//! Sender and controller threads are real OS threads.  Every `verif_hook::point` of
//! blocking.rs / biatomic.rs is a scheduling point: the arriving thread records the observable of
//! the step it has just finished, asks the schedule who runs next and either goes on or wakes the
//! chosen thread and blocks (baton passing), so exactly one thread runs between two scheduling
//! decisions and one step = one SeqCst operation.  Schedules are seeded random (quick) or
//! enumerated by a stateless DFS with sleep sets (thorough).  One op line per step (`s <i>` /
//! `c <j>`); the observable of a step is: recorded events (inner sender / re-dispatch sender
//! calls), the value returned by `send` / `blocking_done`, the next point the thread parks at,
//! and the public observables `blocking_done()` / `get_blocking_state()` read right after the
//! step.  The Lean driver replays the same op lines with `step?`.
//!
//! Oracle (on the implementation log only):
//!  * barrier: once `blocking_done() && blocking` has been observed, no `handed` event until
//!    `blocking` becomes false;
//!  * no loss / exactly once: per task, the events match the value `send` returned; nothing is
//!    left in the queue when all threads have finished and no handle is alive;
//!  * timing (finding F11a): a task enqueued while blocking is not re-dispatched before blocking
//!    became false, unless an explicit `stop_blocking()` did it.
//!
//! No thread can wedge the run silently: if no scheduling point is reached for `STEP_TIMEOUT`
//! the process exits with `HARNESS-FAILURE` (exit code 3).
use crossbeam_channel::{unbounded, Receiver, Sender};
use serde_json::json;
use std::cell::{Cell, RefCell};
use std::collections::BTreeSet;
use std::sync::atomic::{AtomicBool, AtomicUsize, Ordering};
use std::sync::{Arc, Condvar, Mutex, MutexGuard, Weak};
use std::time::Duration;
use std::future::Future;
use std::pin::Pin;
use umharness::util::*;
use undermoon::common::cluster::{ClusterName, MigrationMeta, Range, RangeList, SlotRange, SlotRangeTag};
use undermoon::common::config::AtomicMigrationConfig;
use undermoon::migration::stats::MigrationStats;
use undermoon::migration::task::MigratingTask;
use undermoon::migration::verif_export::scan_task::RedisScanMigratingTask;
use undermoon::protocol::{OptionalMulti, RedisClient, RedisClientError, RedisClientFactory};
use undermoon::common::verif_hook::set_point_hook;
use undermoon::protocol::{Resp, RespVec};
use undermoon::proxy::backend::{CmdTask, SenderBackendError};
use undermoon::proxy::blocking::{
    BlockingCmdTaskSender, BlockingHandle, BlockingHint, BlockingHintTask, BlockingMap,
    CounterTask, TaskBlockingController, TaskBlockingControllerFactory, TaskBlockingQueue,
    TaskBlockingQueueSender,
    TaskBlockingQueueSenderFactory,
};
use undermoon::proxy::command::{CommandError, CommandResult};
use undermoon::proxy::sender::{CmdTaskSender, CmdTaskSenderFactory};
use undermoon::proxy::slowlog::TaskEvent;

const STEP_TIMEOUT: Duration = Duration::from_secs(20);

// ---------------------------------------------------------------------------------------------
// task, recording senders
// ---------------------------------------------------------------------------------------------

struct HTask {
    id: usize,
}

impl CmdTask for HTask {
    type Pkt = RespVec;
    type TaskType = u64;
    type Context = u32;
    fn get_key(&self) -> Option<&[u8]> {
        None
    }
    fn get_slot(&self) -> Option<usize> {
        Some(self.id)
    }
    fn set_result(self, _result: CommandResult<RespVec>) {}
    fn get_packet(&self) -> RespVec {
        Resp::Simple(b"t".to_vec())
    }
    fn get_type(&self) -> u64 {
        0
    }
    fn get_context(&self) -> u32 {
        0
    }
    fn set_resp_result(self, _result: Result<RespVec, CommandError>) {}
    fn log_event(&mut self, _event: TaskEvent) {}
}

#[derive(Clone, Debug, PartialEq)]
enum Ev {
    Handed(usize, bool),
    Redisp(usize),
}

struct Rec {
    events: Mutex<Vec<Ev>>,
    inflight: Mutex<Vec<Option<CounterTask<HTask>>>>,
    inner_ok: Vec<bool>,
}

struct RecInner(Arc<Rec>);

impl CmdTaskSender for RecInner {
    type Task = CounterTask<HTask>;
    fn send(&self, t: Self::Task) -> Result<(), SenderBackendError<Self::Task>> {
        let id = t.get_slot().unwrap_or(usize::MAX);
        let ok = self.0.inner_ok.get(id).copied().unwrap_or(true);
        self.0.events.lock().expect("events").push(Ev::Handed(id, ok));
        if ok {
            if let Some(slot) = self.0.inflight.lock().expect("inflight").get_mut(id) {
                *slot = Some(t);
            }
            Ok(())
        } else {
            Err(SenderBackendError::Retry(t))
        }
    }
}

struct RecInnerFactory(Arc<Rec>);

impl CmdTaskSenderFactory for RecInnerFactory {
    type Sender = RecInner;
    fn create(&self, _address: String) -> RecInner {
        RecInner(self.0.clone())
    }
}

struct RecRedisp(Arc<Rec>);

impl CmdTaskSender for RecRedisp {
    type Task = HTask;
    fn send(&self, t: HTask) -> Result<(), SenderBackendError<HTask>> {
        self.0.events.lock().expect("events").push(Ev::Redisp(t.id));
        Ok(())
    }
}

impl BlockingCmdTaskSender for RecRedisp {}

type Queue = TaskBlockingQueue<RecInner, RecRedisp>;
type QSender = TaskBlockingQueueSender<RecInner, RecRedisp>;

// ---------------------------------------------------------------------------------------------
// configuration of one schedule
// ---------------------------------------------------------------------------------------------

#[derive(Clone, Copy, Debug, PartialEq)]
enum Hint {
    N,
    B,
    M(u32),
}

impl Hint {
    fn text(&self) -> String {
        match self {
            Hint::N => "N".into(),
            Hint::B => "B".into(),
            Hint::M(t) => format!("M{}", t),
        }
    }
    fn real(&self) -> BlockingHint {
        match self {
            Hint::N => BlockingHint::NotBlocking,
            Hint::B => BlockingHint::Blocking,
            Hint::M(t) => BlockingHint::NotBlockingInMigration(*t),
        }
    }
    fn same(&self, h: BlockingHint) -> bool {
        match (self, h) {
            (Hint::N, BlockingHint::NotBlocking) => true,
            (Hint::B, BlockingHint::Blocking) => true,
            (Hint::M(a), BlockingHint::NotBlockingInMigration(b)) => *a == b,
            _ => false,
        }
    }
}

#[derive(Clone, Debug)]
struct Config {
    senders: Vec<(Hint, bool)>,
    ctrls: Vec<Vec<char>>, // programs over S P D R
    /// the backend address was used and completely released before this case obtains its sender
    /// and controller from the `BlockingMap` (the map entry holds a dead `Weak`)
    reuse: bool,
}

impl Config {
    fn text(&self) -> String {
        let ss = if self.senders.is_empty() {
            "-".to_string()
        } else {
            self.senders
                .iter()
                .map(|(h, ok)| format!("{}:{}", h.text(), if *ok { 1 } else { 0 }))
                .collect::<Vec<_>>()
                .join(",")
        };
        let cs = if self.ctrls.is_empty() {
            "-".to_string()
        } else {
            self.ctrls
                .iter()
                .map(|p| if p.is_empty() { "_".to_string() } else { p.iter().collect::<String>() })
                .collect::<Vec<_>>()
                .join(",")
        };
        format!("init {} {}{}", ss, cs, if self.reuse { " r" } else { "" })
    }
    fn parse(line: &str) -> Option<Config> {
        let mut it = line.split(' ');
        if it.next()? != "init" {
            return None;
        }
        let ss = it.next()?;
        let cs = it.next()?;
        let reuse = match it.next() {
            None => false,
            Some("r") => true,
            Some(_) => return None,
        };
        let mut senders = vec![];
        if ss != "-" {
            for item in ss.split(',') {
                let (h, ok) = item.split_once(':')?;
                let hint = match h.as_bytes().first()? {
                    b'N' if h.len() == 1 => Hint::N,
                    b'B' if h.len() == 1 => Hint::B,
                    b'M' => Hint::M(h[1..].parse().ok()?),
                    _ => return None,
                };
                senders.push((hint, match ok { "1" => true, "0" => false, _ => return None }));
            }
        }
        let mut ctrls = vec![];
        if cs != "-" {
            for p in cs.split(',') {
                if p == "_" {
                    ctrls.push(vec![]);
                } else {
                    if !p.chars().all(|c| "SPDRWB".contains(c)) || p.is_empty() {
                        return None;
                    }
                    ctrls.push(p.chars().collect());
                }
            }
        }
        Some(Config { senders, ctrls, reuse })
    }
    fn nthreads(&self) -> usize {
        self.senders.len() + self.ctrls.len()
    }
    fn tid_text(&self, t: usize) -> String {
        if t < self.senders.len() {
            format!("s {}", t)
        } else {
            format!("c {}", t - self.senders.len())
        }
    }
    fn tid_name(&self, t: usize) -> String {
        if t < self.senders.len() {
            format!("s{}", t)
        } else {
            format!("c{}", t - self.senders.len())
        }
    }
}

// ---------------------------------------------------------------------------------------------
// thread <-> scheduler plumbing
//
// Baton passing: the thread that arrives at a scheduling point records the observable of the step
// it has just finished, asks the schedule (`Chooser`) who runs next and either continues itself
// (no context switch) or wakes the chosen thread and blocks.  Exactly one thread runs at a time.
// The main thread only starts the case, watches for progress (timeout = harness failure) and
// evaluates the end-of-case oracle.
// ---------------------------------------------------------------------------------------------

/// (point each thread is parked at / None = finished, enabled threads) -> next thread;
/// `None` = abandon the schedule (all threads are released and finish on their own)
type Chooser = Box<dyn FnMut(&[Option<&'static str>], &[usize]) -> Option<usize> + Send>;

#[derive(PartialEq, Clone, Copy)]
enum Phase {
    Init,
    Run,
    Abandoned,
    Done,
}

enum Note {
    Ret(String),
    Polled(bool),
    /// controller starts executing command `c` (bookkeeping for the timing oracle)
    Cmd(char),
    /// the controller left its wait loop / `pre_block` returned: the caller proceeds to PreSwitch
    Proceed,
    Panic,
}

struct Core {
    phase: Phase,
    /// point each thread is parked at; None = finished
    at: Vec<Option<&'static str>>,
    registered: Vec<bool>,
    live: usize,
    /// controller: command being executed
    cur_cmd: Vec<char>,
    running: Option<usize>,
    from: &'static str,
    parts: Vec<String>,
    was_closed: bool,
    /// some controller holding a handle has finished `start; wait until blocking_done()`
    proceeded: bool,
    was_proceeded: bool,
    steps: Vec<usize>,
    lines: Vec<(String, String)>,
    chooser: Option<Chooser>,
    abandoned: bool,
    // ---- oracle state ----
    closed: bool,
    enq_open: Vec<bool>,
    handed: Vec<Vec<bool>>,
    redisp: Vec<u32>,
    rets: Vec<Vec<String>>,
    saw_closed: bool,
    sender_steps_while_closed: u32,
    failures: Vec<(String, &'static str)>,
}

struct Shared {
    cfg: Config,
    core: Mutex<Core>,
    cv: Condvar,
    gate_tx: Vec<Sender<()>>,
    gate_rx: Vec<Receiver<()>>,
    /// set when a schedule is abandoned: threads stop parking and run to completion
    free_run: AtomicBool,
    queue: Arc<Queue>,
    rec: Arc<Rec>,
}

thread_local! {
    static CTX: RefCell<Option<(usize, Arc<Shared>)>> = const { RefCell::new(None) };
    /// set while this thread reads the public observables on behalf of the scheduler
    static PASS: Cell<bool> = const { Cell::new(false) };
}

fn hook(point: &'static str) {
    if PASS.with(|p| p.get()) {
        return;
    }
    let me = CTX.with(|c| c.borrow().clone());
    if let Some((tid, sh)) = me {
        if sh.free_run.load(Ordering::SeqCst) {
            return;
        }
        sh.arrive(tid, Some(point));
    }
}

fn harness_failure(what: &str) -> ! {
    eprintln!("HARNESS-FAILURE: {}", what);
    std::process::exit(3);
}

enum Decision {
    Go(usize),
    Abandon,
    Done,
}

impl Shared {
    fn lock(&self) -> MutexGuard<'_, Core> {
        self.core.lock().unwrap_or_else(|e| e.into_inner())
    }

    fn wait_gate(&self, tid: usize) {
        if let Some(g) = self.gate_rx.get(tid) {
            // hand-offs are short: spin / yield briefly before blocking
            let mut n = 0u32;
            loop {
                match g.try_recv() {
                    Ok(()) => break,
                    Err(crossbeam_channel::TryRecvError::Disconnected) => break,
                    Err(crossbeam_channel::TryRecvError::Empty) => {}
                }
                n += 1;
                if n < 2000 {
                    std::hint::spin_loop();
                } else if n < 2100 {
                    std::thread::yield_now();
                } else {
                    let _ = g.recv();
                    break;
                }
            }
        }
    }

    /// public observables (`blocking_done()`, `get_blocking_state()`); hook calls pass through
    fn globals(&self) -> (String, bool, bool) {
        let old = PASS.with(|p| p.replace(true));
        let done = self.queue.blocking_done();
        let st = self.queue.get_blocking_state();
        PASS.with(|p| p.set(old));
        (
            format!("done={} blk={} term={}", if done { 1 } else { 0 }, if st.blocking { 1 } else { 0 }, st.term),
            done,
            st.blocking,
        )
    }

    fn note(&self, tid: usize, n: Note) {
        let mut core = self.lock();
        match n {
            Note::Cmd(c) => core.cur_cmd[tid] = c,
            Note::Proceed => core.proceeded = true,
            Note::Ret(s) => {
                core.rets[tid].push(s.clone());
                if core.phase == Phase::Run {
                    core.parts.push(s);
                }
            }
            Note::Polled(b) => {
                if core.phase == Phase::Run {
                    core.parts.push(format!("polled:{}", if b { 1 } else { 0 }));
                }
            }
            Note::Panic => {
                if core.phase == Phase::Run {
                    core.parts.push("PANIC".to_string());
                } else {
                    let name = self.cfg.tid_name(tid);
                    core.failures.push((format!("thread {} panicked", name), ""));
                }
            }
        }
    }

    fn begin_step(&self, core: &mut Core, u: usize) {
        core.running = Some(u);
        core.from = core.at.get(u).copied().flatten().unwrap_or("end");
        core.parts.clear();
        core.was_closed = core.closed;
        core.was_proceeded = core.proceeded;
    }

    fn decide(&self, core: &mut Core) -> Decision {
        let en: Vec<usize> = (0..core.at.len()).filter(|t| core.at[*t].is_some()).collect();
        if en.is_empty() {
            return Decision::Done;
        }
        let mut ch = match core.chooser.take() {
            Some(c) => c,
            None => harness_failure("no schedule installed"),
        };
        let r = ch(&core.at, &en);
        core.chooser = Some(ch);
        match r {
            Some(u) if en.contains(&u) => Decision::Go(u),
            Some(u) => harness_failure(&format!("schedule chose thread {} which is not enabled", u)),
            None => Decision::Abandon,
        }
    }

    /// apply a decision; returns the thread to wake (if it is not `me`)
    fn apply(&self, core: &mut Core, d: Decision, me: Option<usize>) -> Option<usize> {
        match d {
            Decision::Done => {
                core.phase = Phase::Done;
                core.running = None;
                self.cv.notify_all();
                None
            }
            Decision::Abandon => {
                core.phase = Phase::Abandoned;
                core.abandoned = true;
                core.running = None;
                self.free_run.store(true, Ordering::SeqCst);
                for t in 0..core.at.len() {
                    if core.at[t].is_some() && Some(t) != me {
                        let _ = self.gate_tx[t].send(());
                    }
                }
                self.cv.notify_all();
                None
            }
            Decision::Go(u) => {
                self.begin_step(core, u);
                if Some(u) == me {
                    None
                } else {
                    Some(u)
                }
            }
        }
    }

    /// thread `tid` reached scheduling point `point` (None: it has finished)
    fn arrive(&self, tid: usize, point: Option<&'static str>) {
        let mut core = self.lock();
        match core.phase {
            Phase::Init => {
                core.at[tid] = point;
                core.registered[tid] = true;
                if point.is_none() {
                    core.live -= 1;
                }
                self.cv.notify_all();
                drop(core);
                if point.is_some() {
                    self.wait_gate(tid);
                }
                return;
            }
            Phase::Abandoned | Phase::Done => {
                if point.is_none() {
                    core.at[tid] = None;
                    core.live -= 1;
                    self.cv.notify_all();
                }
                return;
            }
            Phase::Run => {}
        }
        if core.running != Some(tid) {
            harness_failure(&format!(
                "thread {} ran while it was not scheduled ({})",
                self.cfg.tid_name(tid),
                self.cfg.text()
            ));
        }
        core.at[tid] = point;
        if point.is_none() {
            core.live -= 1;
        }
        self.complete_step(&mut core, tid);
        let d = self.decide(&mut core);
        let abandon = matches!(d, Decision::Abandon);
        let wake = self.apply(&mut core, d, Some(tid));
        let keep_running = !abandon && wake.is_none() && core.running == Some(tid);
        drop(core);
        if let Some(u) = wake {
            let _ = self.gate_tx[u].send(());
        }
        if point.is_some() && !keep_running && !abandon {
            self.wait_gate(tid);
        }
    }

    /// the step of `t` that started at `core.from` is over: observable line + oracle bookkeeping
    fn complete_step(&self, core: &mut Core, t: usize) {
        let k = self.cfg.senders.len();
        let from = core.from;
        let was_closed = core.was_closed;
        let was_proceeded = core.was_proceeded;
        let parts = std::mem::take(&mut core.parts);
        let evs: Vec<Ev> = std::mem::take(&mut *self.rec.events.lock().expect("events"));
        let (gtext, done, blk) = self.globals();
        let mut obs: Vec<String> = vec![];
        for e in &evs {
            match e {
                Ev::Handed(i, ok) => {
                    obs.push(format!("handed:{}:{}", i, if *ok { "ok" } else { "err" }));
                    if let Some(h) = core.handed.get_mut(*i) {
                        h.push(*ok);
                    }
                    if was_closed {
                        core.failures.push((
                            format!("barrier: task {} handed to the backend after blocking_done was observed and before blocking was lifted", i),
                            "",
                        ));
                    }
                    if was_proceeded {
                        core.failures.push((
                            format!("barrier/protocol: task {} handed to the backend after the blocking phase of the caller completed (pre_block returned / wait loop left, state PreSwitch) and before its BlockingHandle was dropped", i),
                            "",
                        ));
                    }
                }
                Ev::Redisp(u) => {
                    obs.push(format!("redisp:{}", u));
                    if let Some(r) = core.redisp.get_mut(*u) {
                        *r += 1;
                    }
                    if core.enq_open.get(*u).copied().unwrap_or(false) {
                        if core.cur_cmd[t] == 'R' {
                            // explicit stop_blocking(): flushing is what was asked for
                        } else {
                            core.failures.push((
                                format!("timing: task {} was queued while blocking and re-dispatched by a stale release_all before blocking was lifted", u),
                                "F11a",
                            ));
                        }
                    }
                }
            }
        }
        obs.extend(parts);
        if obs.is_empty() {
            if from == "blocking.queue_push" && t < k {
                obs.push(format!("enq:{}", t));
                // blocking was true when this sender decided to enqueue; if it still is, the
                // task must wait for the end of this blocking window
                if blk {
                    core.enq_open[t] = true;
                }
            } else {
                obs.push("tau".to_string());
            }
        }
        // oracle bookkeeping on the public observables
        if !blk {
            core.closed = false;
            core.proceeded = false;
            for e in core.enq_open.iter_mut() {
                *e = false;
            }
        }
        if done && blk {
            core.closed = true;
            core.saw_closed = true;
        }
        if was_closed && t < k {
            core.sender_steps_while_closed += 1;
        }
        let line = format!("{} @{} {}", obs.join("+"), core.at[t].unwrap_or("end"), gtext);
        core.lines.push((self.cfg.tid_text(t), line));
        core.steps.push(t);
        if core.steps.len() > 5000 {
            harness_failure("schedule longer than 5000 steps (CAS livelock in the scheduler?)");
        }
    }
}

struct CaseOut {
    init_line: String,
    lines: Vec<(String, String)>,
    steps: Vec<usize>,
    abandoned: bool,
    saw_closed: bool,
    sender_steps_while_closed: u32,
    handed: Vec<Vec<bool>>,
    redisp: Vec<u32>,
    rets: Vec<Vec<String>>,
    failures: Vec<(String, &'static str)>,
}

/// One execution of the real code under the schedule `chooser`.
fn run_case(cfg: &Config, chooser: Chooser) -> CaseOut {
    let k = cfg.senders.len();
    let n = cfg.nthreads();
    let rec = Arc::new(Rec {
        events: Mutex::new(vec![]),
        inflight: Mutex::new((0..k).map(|_| None).collect()),
        inner_ok: cfg.senders.iter().map(|s| s.1).collect(),
    });
    let map = Arc::new(BlockingMap::new(
        RecInnerFactory(rec.clone()),
        Arc::new(RecRedisp(rec.clone())),
    ));
    let factory = TaskBlockingQueueSenderFactory::new(map.clone());
    if cfg.reuse {
        // earlier life of the address: client path and migration path held the queue, all gone
        let s0 = factory.create("backend".to_string());
        let c0 = TaskBlockingControllerFactory::create(&*map, "backend".to_string());
        drop(s0);
        drop(c0);
    }
    // client path and migration path, as the proxy obtains them
    let sender: Arc<QSender> = Arc::new(factory.create("backend".to_string()));
    let queue: Arc<Queue> = TaskBlockingControllerFactory::create(&*map, "backend".to_string());
    let mut gate_tx = vec![];
    let mut gate_rx = vec![];
    for _ in 0..n {
        let (a, b) = unbounded::<()>();
        gate_tx.push(a);
        gate_rx.push(b);
    }
    let sh = Arc::new(Shared {
        cfg: cfg.clone(),
        core: Mutex::new(Core {
            phase: Phase::Init,
            at: vec![None; n],
            registered: vec![false; n],
            live: n,
            cur_cmd: vec![' '; n],
            running: None,
            from: "end",
            parts: vec![],
            was_closed: false,
            proceeded: false,
            was_proceeded: false,
            steps: vec![],
            lines: vec![],
            chooser: Some(chooser),
            abandoned: false,
            closed: false,
            enq_open: vec![false; k],
            handed: vec![vec![]; k],
            redisp: vec![0; k],
            rets: vec![vec![]; k],
            saw_closed: false,
            sender_steps_while_closed: 0,
            failures: vec![],
        }),
        cv: Condvar::new(),
        gate_tx,
        gate_rx,
        free_run: AtomicBool::new(false),
        queue: queue.clone(),
        rec: rec.clone(),
    });
    let mut joins: Vec<std::thread::JoinHandle<Option<BlockingHandle<RecRedisp>>>> = vec![];
    for t in 0..n {
        let b = std::thread::Builder::new().stack_size(256 * 1024);
        let sh2 = sh.clone();
        let jh = if t < k {
            let (hint, _) = cfg.senders[t];
            let sender = sender.clone();
            let rec = rec.clone();
            b.spawn(move || {
                CTX.with(|c| *c.borrow_mut() = Some((t, sh2.clone())));
                let r = std::panic::catch_unwind(std::panic::AssertUnwindSafe(|| {
                    let res = sender.send(BlockingHintTask::new(HTask { id: t }, hint.real()));
                    let text = match res {
                        Ok(()) => "ret:ok".to_string(),
                        Err(SenderBackendError::Retry(task)) => {
                            let h = task.get_blocking_hint();
                            let inner = task.into_inner();
                            if inner.id == t && hint.same(h) {
                                "ret:retry".to_string()
                            } else {
                                "ret:retry-corrupt".to_string()
                            }
                        }
                        Err(e) => format!("ret:err:{:?}", e),
                    };
                    sh2.note(t, Note::Ret(text));
                    // the backend's reply: the CounterTask is dropped
                    let ct = rec.inflight.lock().expect("inflight").get_mut(t).and_then(|s| s.take());
                    drop(ct);
                }));
                if r.is_err() {
                    sh2.note(t, Note::Panic);
                }
                sh2.arrive(t, None);
                CTX.with(|c| *c.borrow_mut() = None);
                None
            })
        } else {
            let prog = cfg.ctrls[t - k].clone();
            let queue = queue.clone();
            b.spawn(move || {
                CTX.with(|c| *c.borrow_mut() = Some((t, sh2.clone())));
                let mut handle: Option<BlockingHandle<RecRedisp>> = None;
                let r = std::panic::catch_unwind(std::panic::AssertUnwindSafe(|| {
                    for cmd in prog {
                        match cmd {
                            'S' => {
                                if handle.is_none() {
                                    sh2.note(t, Note::Cmd('S'));
                                    handle = Some(queue.start_blocking());
                                }
                            }
                            'P' => {
                                sh2.note(t, Note::Cmd('P'));
                                let b = queue.blocking_done();
                                sh2.note(t, Note::Polled(b));
                            }
                            'D' => {
                                if let Some(h) = handle.take() {
                                    sh2.note(t, Note::Cmd('D'));
                                    drop(h);
                                }
                            }
                            'W' => {
                                sh2.note(t, Note::Cmd('W'));
                                loop {
                                    let b = queue.blocking_done();
                                    sh2.note(t, Note::Polled(b));
                                    if b {
                                        break;
                                    }
                                }
                                if handle.is_some() {
                                    sh2.note(t, Note::Proceed);
                                }
                            }
                            'B' => {
                                if handle.is_none() {
                                    run_real_blocking_phase(&sh2, t, queue.clone());
                                }
                            }
                            _ => {
                                sh2.note(t, Note::Cmd('R'));
                                queue.stop_blocking();
                            }
                        }
                    }
                }));
                if r.is_err() {
                    sh2.note(t, Note::Panic);
                }
                sh2.arrive(t, None);
                CTX.with(|c| *c.borrow_mut() = None);
                // a handle that the program never drops stays alive until the end of the case
                handle
            })
        };
        joins.push(jh.unwrap_or_else(|e| harness_failure(&format!("spawn: {}", e))));
    }
    // every thread runs (thread-local code only) to its first scheduling point
    for t in 0..n {
        let mut core = sh.lock();
        while !core.registered[t] {
            let (c, to) = sh.cv.wait_timeout(core, STEP_TIMEOUT).unwrap_or_else(|e| e.into_inner());
            core = c;
            if to.timed_out() && !core.registered[t] {
                harness_failure(&format!("thread {} did not reach its first scheduling point within {:?} ({})", cfg.tid_name(t), STEP_TIMEOUT, cfg.text()));
            }
        }
    }
    let init_line = {
        let core = sh.lock();
        let pos: Vec<String> = (0..n).map(|t| format!("{}@{}", cfg.tid_name(t), core.at[t].unwrap_or("end"))).collect();
        drop(core);
        format!("ok at={} {}", pos.join(","), sh.globals().0)
    };
    // start the schedule
    {
        let mut core = sh.lock();
        core.phase = Phase::Run;
        let d = sh.decide(&mut core);
        let wake = sh.apply(&mut core, d, None);
        drop(core);
        if let Some(u) = wake {
            let _ = sh.gate_tx[u].send(());
        }
    }
    // wait for the end of the case; no progress for STEP_TIMEOUT = harness failure
    {
        let mut core = sh.lock();
        let mut seen = (core.steps.len(), core.live);
        loop {
            let finished = core.phase == Phase::Done || (core.phase == Phase::Abandoned && core.live == 0);
            if finished {
                break;
            }
            let (c, to) = sh.cv.wait_timeout(core, STEP_TIMEOUT).unwrap_or_else(|e| e.into_inner());
            core = c;
            let now = (core.steps.len(), core.live);
            if to.timed_out() && now == seen {
                let sched: Vec<String> = core.lines.iter().map(|(o, l)| format!("{}:{}", o, l)).collect();
                harness_failure(&format!(
                    "no thread reached a scheduling point within {:?} ({}; running: {:?}; schedule so far: {})",
                    STEP_TIMEOUT,
                    cfg.text(),
                    core.running.map(|t| cfg.tid_name(t)),
                    sched.join(" ; ")
                ));
            }
            seen = now;
        }
    }
    let mut leaked = vec![];
    let mut extra_failures: Vec<(String, &'static str)> = vec![];
    for h in joins {
        match h.join() {
            Ok(Some(handle)) => leaked.push(handle),
            Ok(None) => {}
            Err(_) => extra_failures.push(("a harness thread panicked outside the code under test".to_string(), "")),
        }
    }
    let mut core = sh.lock();
    core.failures.extend(extra_failures);
    // events of an abandoned (free-running) tail count for the end-of-case oracle only
    let evs: Vec<Ev> = std::mem::take(&mut *rec.events.lock().expect("events"));
    for e in evs {
        match e {
            Ev::Handed(i, ok) => {
                if let Some(h) = core.handed.get_mut(i) {
                    h.push(ok);
                }
            }
            Ev::Redisp(u) => {
                if let Some(r) = core.redisp.get_mut(u) {
                    *r += 1;
                }
            }
        }
    }
    // ---- end-of-case oracle ----
    let (_, _, blk) = sh.globals();
    // flush what is still queued (main thread: hooks pass through)
    queue.stop_blocking();
    let evs: Vec<Ev> = std::mem::take(&mut *rec.events.lock().expect("events"));
    let mut leftover = vec![0u32; k];
    for e in evs {
        if let Ev::Redisp(u) = e {
            if let Some(l) = leftover.get_mut(u) {
                *l += 1;
            }
        }
    }
    if !blk && leftover.iter().any(|l| *l > 0) {
        core.failures.push((
            format!(
                "no-loss: tasks {:?} were still queued after all threads finished with no blocker alive",
                leftover.iter().enumerate().filter(|(_, l)| **l > 0).map(|(i, _)| i).collect::<Vec<_>>()
            ),
            "",
        ));
    }
    for i in 0..k {
        let h = core.handed[i].clone();
        let r = core.redisp[i];
        let l = leftover[i];
        let ok = match core.rets[i].as_slice() {
            [s] if s == "ret:ok" => (h.as_slice() == [true] && r == 0 && l == 0) || (h.is_empty() && r + l == 1),
            [s] if s == "ret:retry" => (h.as_slice() == [false] || h.is_empty()) && r == 0 && l == 0,
            _ => false,
        };
        if !ok {
            let rets = core.rets[i].clone();
            core.failures.push((
                format!(
                    "exactly-once: task {} returned {:?}, handed {:?}, re-dispatched {} time(s), left in queue {}",
                    i, rets, h, r, l
                ),
                "",
            ));
        }
    }
    drop(leaked);
    let (_, done, blk2) = sh.globals();
    if !done || blk2 {
        core.failures.push((format!("end of case: running_cmd != 0 or count != 0 after every thread finished and every handle was dropped (done={} blocking={})", done, blk2), ""));
    }
    CaseOut {
        init_line,
        lines: std::mem::take(&mut core.lines),
        steps: std::mem::take(&mut core.steps),
        abandoned: core.abandoned,
        saw_closed: core.saw_closed,
        sender_steps_while_closed: core.sender_steps_while_closed,
        handed: std::mem::take(&mut core.handed),
        redisp: std::mem::take(&mut core.redisp),
        rets: std::mem::take(&mut core.rets),
        failures: std::mem::take(&mut core.failures),
    }
}

// ---------------------------------------------------------------------------------------------
// the real caller: RedisScanMigratingTask::start() = pre_check; pre_block; pre_switch; stop()
// ---------------------------------------------------------------------------------------------

/// the task's blocking controller: the real queue; only reports what `pre_block` reads
struct PbCtrl {
    inner: Arc<Queue>,
    sh: Arc<Shared>,
    t: usize,
}

impl TaskBlockingController for PbCtrl {
    type Sender = RecRedisp;
    fn blocking_done(&self) -> bool {
        let b = self.inner.blocking_done();
        self.sh.note(self.t, Note::Polled(b));
        b
    }
    fn get_blocking_state(&self) -> undermoon::proxy::blocking::BlockingState {
        self.inner.get_blocking_state()
    }
    fn start_blocking(&self) -> BlockingHandle<RecRedisp> {
        self.sh.note(self.t, Note::Cmd('S'));
        self.inner.start_blocking()
    }
    fn stop_blocking(&self) {
        self.inner.stop_blocking()
    }
}

const DST_PROXY: &str = "dst-proxy:7000";

/// peer proxy stand-in: answers OK to PING / UMCTL PRECHECK / PRESWITCH; the PRESWITCH request
/// shows that `pre_block` has returned.  Any other connection (the scan of the source Redis,
/// which starts after `blocking_handle.stop()`) ends the driven part of the task.
struct PbClient {
    sh: Arc<Shared>,
    t: usize,
}

impl RedisClient for PbClient {
    fn execute<'s>(
        &'s mut self,
        command: OptionalMulti<Vec<Vec<u8>>>,
    ) -> Pin<Box<dyn Future<Output = Result<OptionalMulti<RespVec>, RedisClientError>> + Send + 's>> {
        let is_preswitch = match &command {
            OptionalMulti::Single(c) => c.iter().any(|a| a.as_slice() == b"PRESWITCH"),
            OptionalMulti::Multi(cs) => cs.iter().any(|c| c.iter().any(|a| a.as_slice() == b"PRESWITCH")),
        };
        if is_preswitch {
            self.sh.note(self.t, Note::Proceed);
        }
        let reply = command.map(|_| Resp::Simple(b"OK".to_vec()));
        Box::pin(async move { Ok(reply) })
    }
}

struct PbFactory {
    sh: Arc<Shared>,
    t: usize,
    scan_started: Arc<tokio::sync::Notify>,
}

impl RedisClientFactory for PbFactory {
    type Client = PbClient;
    fn create_client<'s>(
        &'s self,
        address: String,
    ) -> Pin<Box<dyn Future<Output = Result<PbClient, RedisClientError>> + Send + 's>> {
        let client = PbClient { sh: self.sh.clone(), t: self.t };
        let notify = self.scan_started.clone();
        Box::pin(async move {
            if address != DST_PROXY {
                notify.notify_one();
                futures::future::pending::<()>().await;
            }
            Ok(client)
        })
    }
}

/// controller command `B`: the real migrating task up to (and including) the drop of its handle
fn run_real_blocking_phase(sh: &Arc<Shared>, t: usize, queue: Arc<Queue>) {
    let meta = MigrationMeta {
        epoch: 1,
        src_proxy_address: "src-proxy:7000".to_string(),
        src_node_address: "backend".to_string(),
        dst_proxy_address: DST_PROXY.to_string(),
        dst_node_address: "dst-node:6379".to_string(),
    };
    let scan_started = Arc::new(tokio::sync::Notify::new());
    let factory = Arc::new(PbFactory { sh: sh.clone(), t, scan_started: scan_started.clone() });
    let ctrl = Arc::new(PbCtrl { inner: queue, sh: sh.clone(), t });
    let config = Arc::new(umharness::route_support::server_config(&umharness::route_support::ProxyCfg {
        active_redirection: false,
        max_redirections: None,
        default_redirection_address: None,
    }));
    let task: RedisScanMigratingTask<PbFactory, HTask, PbCtrl> = RedisScanMigratingTask::new(
        config,
        Arc::new(AtomicMigrationConfig::default()),
        ClusterName::default(),
        SlotRange { range_list: RangeList::new(vec![Range(0, 100)]), tag: SlotRangeTag::Migrating(meta.clone()) },
        meta,
        factory,
        ctrl,
        Arc::new(MigrationStats::default()),
    );
    let rt = tokio::runtime::Builder::new_current_thread()
        .enable_time()
        .start_paused(true)
        .build()
        .unwrap_or_else(|e| harness_failure(&format!("tokio runtime: {}", e)));
    rt.block_on(async {
        tokio::select! {
            _ = task.start() => {}
            _ = scan_started.notified() => {}
        }
    });
}

// ---------------------------------------------------------------------------------------------
// map family: histories over ONE `BlockingMap` (which queue does a user of an address get?)
// ---------------------------------------------------------------------------------------------

#[derive(Clone, Debug, PartialEq)]
enum MEv {
    Handed(usize, usize), // (queue id, task)
    Redisp(usize),
}

struct MRec {
    events: Mutex<Vec<MEv>>,
    created: AtomicUsize,
}

/// inner sender of queue number `qid` (= the `qid`-th call of `sender_factory.create`)
struct MInner {
    qid: usize,
    rec: Arc<MRec>,
}

impl CmdTaskSender for MInner {
    type Task = CounterTask<HTask>;
    fn send(&self, t: Self::Task) -> Result<(), SenderBackendError<Self::Task>> {
        let id = t.get_slot().unwrap_or(usize::MAX);
        self.rec.events.lock().expect("events").push(MEv::Handed(self.qid, id));
        Ok(()) // the reply arrives at once: the CounterTask is dropped here
    }
}

struct MFactory(Arc<MRec>);

impl CmdTaskSenderFactory for MFactory {
    type Sender = MInner;
    fn create(&self, _address: String) -> MInner {
        MInner { qid: self.0.created.fetch_add(1, Ordering::SeqCst), rec: self.0.clone() }
    }
}

struct MRedisp(Arc<MRec>);

impl CmdTaskSender for MRedisp {
    type Task = HTask;
    fn send(&self, t: HTask) -> Result<(), SenderBackendError<HTask>> {
        self.0.events.lock().expect("events").push(MEv::Redisp(t.id));
        Ok(())
    }
}

impl BlockingCmdTaskSender for MRedisp {}

type MQueue = TaskBlockingQueue<MInner, MRedisp>;
type MSender = TaskBlockingQueueSender<MInner, MRedisp>;

enum MHold {
    Sender(MSender),
    Ctrl(Arc<MQueue>),
}

struct MHolder {
    addr: usize,
    hold: Option<MHold>, // None = dropped
}

struct MapCase {
    rec: Arc<MRec>,
    map: Arc<BlockingMap<MFactory, MRedisp>>,
    factory: TaskBlockingQueueSenderFactory<MFactory, MRedisp>,
    holders: Vec<MHolder>,
    /// queues seen through an `Arc` holder (a `Weak` keeps the allocation: no address reuse)
    known: Vec<(Weak<MQueue>, usize)>,
    next_task: usize,
    failures: Vec<(String, &'static str)>,
    recreated: u32,
    used: BTreeSet<usize>,
    probed_recreated_pair: bool,
    recreated_addrs: BTreeSet<usize>,
}

fn addr_name(a: usize) -> String {
    format!("addr{}", a)
}

impl MapCase {
    fn new() -> MapCase {
        let rec = Arc::new(MRec { events: Mutex::new(vec![]), created: AtomicUsize::new(0) });
        let map = Arc::new(BlockingMap::new(MFactory(rec.clone()), Arc::new(MRedisp(rec.clone()))));
        let factory = TaskBlockingQueueSenderFactory::new(map.clone());
        MapCase {
            rec,
            map,
            factory,
            holders: vec![],
            known: vec![],
            next_task: 1000,
            failures: vec![],
            recreated: 0,
            used: BTreeSet::new(),
            probed_recreated_pair: false,
            recreated_addrs: BTreeSet::new(),
        }
    }

    fn take_events(&self) -> Vec<MEv> {
        std::mem::take(&mut *self.rec.events.lock().expect("events"))
    }

    /// send one NotBlocking command through a sender holder: Some(queue id) if it was handed to
    /// the backend sender (of that queue), None if it was queued
    fn send_probe(&mut self, h: usize) -> Option<usize> {
        let id = self.next_task;
        self.next_task += 1;
        let _ = self.take_events();
        if let Some(MHolder { hold: Some(MHold::Sender(s)), .. }) = self.holders.get(h) {
            let _ = s.send(BlockingHintTask::new(HTask { id }, BlockingHint::NotBlocking));
        }
        self.take_events().iter().find_map(|e| match e {
            MEv::Handed(q, t) if *t == id => Some(*q),
            _ => None,
        })
    }

    fn live(&self, a: usize, want_sender: bool) -> Vec<usize> {
        (0..self.holders.len())
            .filter(|h| {
                self.holders[*h].addr == a
                    && match &self.holders[*h].hold {
                        Some(MHold::Sender(_)) => want_sender,
                        Some(MHold::Ctrl(_)) => !want_sender,
                        None => false,
                    }
            })
            .collect()
    }

    fn ctrl_arc(&self, h: usize) -> Option<Arc<MQueue>> {
        match self.holders.get(h) {
            Some(MHolder { hold: Some(MHold::Ctrl(q)), .. }) => Some(q.clone()),
            _ => None,
        }
    }

    /// controller `c` starts blocking; every sender in `ss` sends a command; returns, per sender,
    /// whether the command was queued (and then re-dispatched exactly once at the drop of the
    /// handle).  Barrier oracle: nothing may be handed between blocking_done() = true and the drop.
    fn block_and_send(&mut self, c: usize, ss: &[usize], a: usize) -> Vec<(usize, bool)> {
        let q = match self.ctrl_arc(c) {
            Some(q) => q,
            None => return vec![],
        };
        let handle = q.start_blocking();
        let done = q.blocking_done();
        let mut out = vec![];
        let mut queued_tasks = vec![];
        for s in ss {
            let first_task = self.next_task;
            let handed = self.send_probe(*s);
            out.push((*s, handed.is_none()));
            match handed {
                Some(qid) => {
                    if done {
                        self.failures.push((
                            format!("map/barrier: address {}: a command sent through sender h{} was handed to the backend (queue {}) between blocking_done() = true of controller h{} and the drop of its BlockingHandle: the two sides of the address use different blocking queues", a, s, qid, c),
                            "",
                        ));
                    }
                }
                None => queued_tasks.push(first_task),
            }
        }
        drop(handle);
        let evs = self.take_events();
        for t in queued_tasks {
            let n = evs.iter().filter(|e| **e == MEv::Redisp(t)).count();
            if n != 1 {
                self.failures.push((
                    format!("map/no-loss: address {}: a command queued while controller h{} blocked was re-dispatched {} time(s) when the handle was dropped", a, c, n),
                    "",
                ));
            }
        }
        if q.get_blocking_state().blocking || !q.blocking_done() {
            self.failures.push((format!("map: address {}: queue not idle after the probe", a), ""));
        }
        out
    }

    /// queue id of a freshly acquired holder, as far as the implementation shows it
    fn identify(&mut self, h: usize, created_now: Option<usize>) -> String {
        let a = self.holders[h].addr;
        let is_sender = matches!(self.holders[h].hold, Some(MHold::Sender(_)));
        if is_sender {
            return match self.send_probe(h) {
                Some(q) => format!("q{}", q),
                None => "q?".to_string(),
            };
        }
        let arc = match self.ctrl_arc(h) {
            Some(q) => q,
            None => return "q?".to_string(),
        };
        if let Some(q) = created_now {
            self.known.push((Arc::downgrade(&arc), q));
            return format!("q{}", q);
        }
        for (w, q) in &self.known {
            if let Some(x) = w.upgrade() {
                if Arc::ptr_eq(&x, &arc) {
                    return format!("q{}", q);
                }
            }
        }
        // the queue is only known through senders so far: block it and see which sender is blocked
        let ss = self.live(a, true);
        let mut by_q: Vec<(usize, usize)> = vec![]; // (queue id, representative sender)
        for s in ss {
            if let Some(q) = self.send_probe(s) {
                if !by_q.iter().any(|x| x.0 == q) {
                    by_q.push((q, s));
                }
            }
        }
        let reps: Vec<usize> = by_q.iter().map(|x| x.1).collect();
        let res = self.block_and_send(h, &reps, a);
        for (s, queued) in res {
            if queued {
                if let Some((q, _)) = by_q.iter().find(|x| x.1 == s) {
                    self.known.push((Arc::downgrade(&arc), *q));
                    return format!("q{}", q);
                }
            }
        }
        "q?".to_string()
    }

    /// the oracle after every op: all live holders of one address share one queue; different
    /// addresses do not
    fn check_address(&mut self, a: usize) {
        let cs = self.live(a, false);
        let ss = self.live(a, true);
        for w in cs.windows(2) {
            if let (Some(x), Some(y)) = (self.ctrl_arc(w[0]), self.ctrl_arc(w[1])) {
                if !Arc::ptr_eq(&x, &y) {
                    self.failures.push((
                        format!("map: address {}: controller holders h{} and h{} are different queues", a, w[0], w[1]),
                        "",
                    ));
                }
            }
        }
        let mut sq: Vec<(usize, Option<usize>)> = vec![];
        for s in &ss {
            let q = self.send_probe(*s);
            sq.push((*s, q));
        }
        for w in sq.windows(2) {
            if w[0].1 != w[1].1 {
                self.failures.push((
                    format!("map: address {}: sender holders h{} and h{} hand to different queues ({:?} vs {:?})", a, w[0].0, w[1].0, w[0].1, w[1].1),
                    "",
                ));
            }
        }
        if let Some(c) = cs.first().copied() {
            if !ss.is_empty() {
                let res = self.block_and_send(c, &ss, a);
                if self.recreated_addrs.contains(&a) && res.iter().all(|x| x.1) {
                    self.probed_recreated_pair = true;
                }
            }
        }
        // different addresses never share a queue
        for b in self.used.clone() {
            if b == a {
                continue;
            }
            let other = self.live(b, true);
            if let (Some(s1), Some(s2)) = (ss.first().copied(), other.first().copied()) {
                let (q1, q2) = (self.send_probe(s1), self.send_probe(s2));
                if q1.is_some() && q1 == q2 {
                    self.failures.push((format!("map: addresses {} and {} share queue {:?}", a, b, q1), ""));
                }
            }
        }
    }

    fn acquire(&mut self, kind: &str, a: usize) -> String {
        let before = self.rec.created.load(Ordering::SeqCst);
        let had_live = !self.live(a, true).is_empty() || !self.live(a, false).is_empty();
        let hold = match kind {
            "msender" => MHold::Sender(self.factory.create(addr_name(a))),
            "mctrl" => MHold::Ctrl(TaskBlockingControllerFactory::create(&*self.map, addr_name(a))),
            _ => MHold::Ctrl(self.map.get_blocking_queue(addr_name(a))),
        };
        let after = self.rec.created.load(Ordering::SeqCst);
        let h = self.holders.len();
        self.holders.push(MHolder { addr: a, hold: Some(hold) });
        let created = if after > before { Some(before) } else { None };
        if after > before + 1 {
            self.failures.push((format!("map: one get_or_create({}) created {} queues", a, after - before), ""));
        }
        if created.is_some() && had_live {
            self.failures.push((
                format!("map: address {}: a new queue was created although a holder of the address is alive", a),
                "",
            ));
        }
        if created.is_some() && self.used.contains(&a) {
            self.recreated += 1;
            self.recreated_addrs.insert(a);
        }
        self.used.insert(a);
        let q = self.identify(h, created);
        self.check_address(a);
        format!("h{} {} new={}", h, q, if created.is_some() { 1 } else { 0 })
    }

    fn op(&mut self, line: &str) -> String {
        let mut it = line.split(' ');
        let kind = it.next().unwrap_or("");
        let arg: Option<usize> = it.next().and_then(|x| x.parse().ok());
        match (kind, arg) {
            ("minit", None) => "ok".to_string(),
            ("msender", Some(a)) | ("mctrl", Some(a)) | ("mgetq", Some(a)) => self.acquire(kind, a),
            ("mdrop", Some(h)) => {
                let a = match self.holders.get_mut(h) {
                    Some(x) if x.hold.is_some() => {
                        x.hold = None;
                        x.addr
                    }
                    _ => return "noop".to_string(),
                };
                self.check_address(a);
                "dropped".to_string()
            }
            ("mdropall", Some(a)) => {
                let mut n = 0;
                for x in self.holders.iter_mut() {
                    if x.addr == a && x.hold.is_some() {
                        x.hold = None;
                        n += 1;
                    }
                }
                format!("dropped {}", n)
            }
            ("mprobe", Some(a)) => {
                let cs = self.live(a, false);
                let ss = self.live(a, true);
                match cs.first().copied() {
                    None => "probe none".to_string(),
                    Some(c) => {
                        let res = self.block_and_send(c, &ss, a);
                        if self.recreated_addrs.contains(&a) && !res.is_empty() && res.iter().all(|x| x.1) {
                            self.probed_recreated_pair = true;
                        }
                        let items: Vec<String> = res
                            .iter()
                            .map(|(s, queued)| format!("h{}:{}", s, if *queued { "queued" } else { "handed" }))
                            .collect();
                        format!("probe ctrl=h{} {}", c, if items.is_empty() { "-".to_string() } else { items.join(",") })
                    }
                }
            }
            _ => "bad-op".to_string(),
        }
    }
}

fn emit_map_case(s: &mut Streams, ops: &[String]) {
    let case = s.case();
    let mut mc = MapCase::new();
    let mut replay = vec![];
    for op in ops {
        let out = match std::panic::catch_unwind(std::panic::AssertUnwindSafe(|| mc.op(op))) {
            Ok(o) => o,
            Err(_) => "PANIC".to_string(),
        };
        s.op(op, &out);
        replay.push(op.clone());
        s.stats.count(&format!("gen.map.op.{}", op.split(' ').next().unwrap_or("")));
    }
    s.stats.count("gen.map.histories");
    s.stats.add("out.map.recreated_over_dead_entry", mc.recreated as u64);
    if mc.probed_recreated_pair {
        s.stats.count("out.map.recreated_pair_blocked_together");
        s.stats.nontrivial_case(&replay.join(";"));
    }
    let mut seen = BTreeSet::new();
    for (what, finding) in std::mem::take(&mut mc.failures) {
        if seen.insert(what.clone()) {
            s.stats.oracle_failure(case, &what, finding, replay.clone());
        }
    }
}

fn gen_map_history(rng: &mut Rng) -> Vec<String> {
    let naddr = 1 + rng.below(3) as usize;
    let n = 6 + rng.below(20) as usize;
    let mut ops = vec!["minit".to_string()];
    let mut holders = 0usize;
    for _ in 0..n {
        let a = rng.below(naddr as u64) as usize;
        let op = match rng.below(20) {
            0..=4 => format!("msender {}", a),
            5..=7 => format!("mctrl {}", a),
            8..=9 => format!("mgetq {}", a),
            10..=12 if holders > 0 => format!("mdrop {}", rng.below(holders as u64)),
            13..=16 => format!("mdropall {}", a),
            _ => format!("mprobe {}", a),
        };
        if op.starts_with("msender") || op.starts_with("mctrl") || op.starts_with("mgetq") {
            holders += 1;
        }
        // the interesting history: everything released, then the pair comes back
        if op.starts_with("mdropall") && rng.chance(2, 3) {
            ops.push(op);
            ops.push(format!("msender {}", a));
            ops.push(format!("mctrl {}", a));
            holders += 2;
            ops.push(format!("mprobe {}", a));
            continue;
        }
        ops.push(op);
    }
    ops
}

// ---------------------------------------------------------------------------------------------
// independence relation for the sleep-set DFS
// ---------------------------------------------------------------------------------------------

#[derive(PartialEq, Clone, Copy)]
enum Kind {
    RunW,  // commutative update of running_cmd (result discarded)
    RunR,  // done_load
    WordR, // biatomic.load / cas_load
    WordW, // cas_xchg
    Queue, // push / pop
    Hand,
    Redisp,
}

fn kind(p: &str) -> Kind {
    match p {
        "blocking.ref_inc" | "blocking.counter_inc" | "blocking.ref_dec" | "blocking.counter_dec" => Kind::RunW,
        "blocking.done_load" => Kind::RunR,
        "biatomic.load" | "biatomic.cas_load" => Kind::WordR,
        "biatomic.cas_xchg" => Kind::WordW,
        "blocking.queue_push" | "blocking.queue_pop" => Kind::Queue,
        "blocking.hand" => Kind::Hand,
        _ => Kind::Redisp,
    }
}

/// may the two next operations be swapped without changing the state or any oracle verdict?
fn independent(a: &str, b: &str) -> bool {
    use Kind::*;
    let (x, y) = (kind(a), kind(b));
    let dep = |x: Kind, y: Kind| -> bool {
        match (x, y) {
            (RunW, RunR) | (WordR, WordW) | (WordW, WordW) | (Queue, Queue) => true,
            // the trace oracles order `handed` against a controller's `blocking_done()` and against
            // changes of `blocking`, and `redisp` against changes of `blocking`
            (Hand, RunR) | (Hand, WordW) | (Redisp, WordW) | (Redisp, Queue) => true,
            _ => false,
        }
    };
    !(dep(x, y) || dep(y, x))
}

// ---------------------------------------------------------------------------------------------
// running schedules
// ---------------------------------------------------------------------------------------------

struct RunResult {
    steps: Vec<usize>,
    nontrivial: bool,
}

fn emit_case(s: &mut Streams, cfg: &Config, chooser: Chooser) -> RunResult {
    let out = run_case(cfg, chooser);
    let case = s.case();
    s.op(&cfg.text(), &out.init_line);
    let mut replay = vec![cfg.text()];
    for (op, line) in &out.lines {
        s.op(op, line);
        replay.push(op.clone());
    }
    if out.abandoned {
        s.stats.count("out.abandoned_free_run");
    }
    let redisp_total: u32 = out.redisp.iter().sum();
    let handed_total: usize = out.handed.iter().map(|h| h.len()).sum();
    let retry_total = out.rets.iter().filter(|r| r.iter().any(|x| x == "ret:retry")).count();
    s.stats.add("out.steps", out.steps.len() as u64);
    s.stats.add("out.handed", handed_total as u64);
    s.stats.add("out.redispatched", redisp_total as u64);
    s.stats.add("out.retry_returned", retry_total as u64);
    if out.saw_closed {
        s.stats.count("out.barrier_observed_closed");
    }
    if out.sender_steps_while_closed > 0 {
        s.stats.count("out.sender_ran_while_closed");
    }
    let nontrivial = (out.saw_closed && out.sender_steps_while_closed > 0) || redisp_total > 0;
    if nontrivial {
        s.stats.nontrivial_case(&replay.join(";"));
    }
    let mut seen = BTreeSet::new();
    for (what, finding) in out.failures {
        if finding == "F11a" {
            s.stats.count("out.finding_F11a");
        }
        if seen.insert((what.clone(), finding)) {
            s.stats.oracle_failure(case, &what, finding, replay.clone());
        }
    }
    RunResult { steps: out.steps, nontrivial }
}

struct Frame {
    points: Vec<(usize, &'static str)>, // enabled threads and their next points
    sleep: Vec<(usize, &'static str)>,
    done: Vec<(usize, &'static str)>,
    chosen: usize,
}

#[derive(Default)]
struct DfsState {
    stack: Vec<Frame>,
    depth: usize,
    blocked: bool,
}

/// stateless DFS with sleep sets over all schedules of `cfg`; at most `cap` executions
fn dfs(s: &mut Streams, cfg: &Config, cap: u64) -> (u64, bool) {
    let state = Arc::new(Mutex::new(DfsState::default()));
    let mut runs = 0u64;
    loop {
        // one execution: follow the stack, then extend it
        {
            let mut st = state.lock().expect("dfs");
            st.depth = 0;
            st.blocked = false;
        }
        let st2 = state.clone();
        emit_case(
            s,
            cfg,
            Box::new(move |at, en| {
                let mut st = st2.lock().expect("dfs");
                let d = st.depth;
                st.depth += 1;
                if st.blocked {
                    return None;
                }
                if d < st.stack.len() {
                    return Some(st.stack[d].chosen);
                }
                let points: Vec<(usize, &'static str)> = en.iter().map(|t| (*t, at[*t].unwrap_or("end"))).collect();
                let sleep: Vec<(usize, &'static str)> = if d == 0 {
                    vec![]
                } else {
                    let p = &st.stack[d - 1];
                    let cp = p.points.iter().find(|x| x.0 == p.chosen).map(|x| x.1).unwrap_or("end");
                    p.sleep
                        .iter()
                        .chain(p.done.iter())
                        .filter(|(u, up)| *u != p.chosen && independent(up, cp))
                        .cloned()
                        .collect()
                };
                let cand = points.iter().find(|(t, _)| !sleep.iter().any(|(u, _)| u == t)).map(|x| x.0);
                match cand {
                    Some(t) => {
                        st.stack.push(Frame { points, sleep, done: vec![], chosen: t });
                        Some(t)
                    }
                    None => {
                        // every enabled thread is asleep: this continuation is covered elsewhere
                        st.blocked = true;
                        None
                    }
                }
            }),
        );
        runs += 1;
        let mut st = state.lock().expect("dfs");
        s.stats.count(if st.blocked { "dfs.sleep_blocked_runs" } else { "dfs.complete_runs" });
        // backtrack
        loop {
            let top = match st.stack.last_mut() {
                Some(t) => t,
                None => return (runs, true),
            };
            let cp = top.points.iter().find(|x| x.0 == top.chosen).cloned();
            if let Some(cp) = cp {
                top.done.push(cp);
            }
            let next = top
                .points
                .iter()
                .find(|(t, _)| !top.sleep.iter().any(|(u, _)| u == t) && !top.done.iter().any(|(u, _)| u == t))
                .map(|x| x.0);
            match next {
                Some(t) => {
                    top.chosen = t;
                    break;
                }
                None => {
                    st.stack.pop();
                }
            }
        }
        if runs >= cap {
            return (runs, false);
        }
    }
}

fn random_case(s: &mut Streams, cfg: &Config, rng: &mut Rng) {
    let mode = rng.below(3);
    s.stats.count(match mode { 0 => "gen.sched.uniform", 1 => "gen.sched.sticky", _ => "gen.sched.ctrl_first" });
    let k = cfg.senders.len();
    let shared_rng = Arc::new(Mutex::new(rng.clone()));
    let r2 = shared_rng.clone();
    let mut last: Option<usize> = None;
    emit_case(
        s,
        cfg,
        Box::new(move |_, en| {
            let mut rng = r2.lock().expect("rng");
            let t = match mode {
                1 if last.map(|l| en.contains(&l)).unwrap_or(false) && rng.chance(7, 10) => last.unwrap_or(en[0]),
                2 if rng.chance(1, 2) => *en.iter().find(|t| **t >= k).unwrap_or(rng.pick(en)),
                _ => *rng.pick(en),
            };
            last = Some(t);
            Some(t)
        }),
    );
    *rng = shared_rng.lock().expect("rng").clone();
}

fn gen_config(rng: &mut Rng, st: &mut Stats) -> Config {
    let k = 1 + rng.below(3) as usize;
    st.count(&format!("gen.k{}", k));
    let mut senders = vec![];
    for _ in 0..k {
        let h = match rng.below(10) {
            0..=3 => Hint::N,
            4..=5 => Hint::B,
            _ => Hint::M(rng.below(5) as u32),
        };
        st.count(match h { Hint::N => "gen.hint.N", Hint::B => "gen.hint.B", Hint::M(_) => "gen.hint.M" });
        let ok = !rng.chance(1, 6);
        if !ok {
            st.count("gen.inner_retry");
        }
        senders.push((h, ok));
    }
    let templates = ["SPD", "SPPD", "SPPPD", "SD", "SPDSPD", "SPDR", "SRPD", "SP", "PSPD", "R", "SDSD", "DSPD", "B", "B", "B", "SWD", "BB"];
    let m = if rng.chance(1, 8) { 0 } else { 1 + rng.below(2) as usize };
    st.count(&format!("gen.ctrls{}", m));
    let mut ctrls = vec![];
    for _ in 0..m {
        let p: Vec<char> = if rng.chance(1, 8) {
            let n = rng.below(6) as usize;
            st.count("gen.ctrl.random_program");
            (0..n).map(|_| *rng.pick(&['S', 'P', 'D', 'R'])).collect()
        } else {
            let t = *rng.pick(&templates);
            st.count(&format!("gen.ctrl.{}", t));
            t.chars().collect()
        };
        ctrls.push(p);
    }
    let reuse = rng.chance(1, 2);
    if reuse {
        st.count("gen.reused_address");
    }
    Config { senders, ctrls, reuse }
}

enum ReplayCase {
    Sched(Config, Vec<usize>),
    Map(Vec<String>),
}

fn replay_file(s: &mut Streams, path: &std::path::Path) {
    let mut cur: Option<ReplayCase> = None;
    let mut cases: Vec<ReplayCase> = vec![];
    for l in read_lines(path) {
        if l.starts_with('#') || l.starts_with("case ") {
            continue;
        }
        if l.starts_with("init ") {
            if let Some(c) = cur.take() {
                cases.push(c);
            }
            match Config::parse(&l) {
                Some(c) => cur = Some(ReplayCase::Sched(c, vec![])),
                None => harness_failure(&format!("replay: bad init line: {}", l)),
            }
            continue;
        }
        if l == "minit" {
            if let Some(c) = cur.take() {
                cases.push(c);
            }
            cur = Some(ReplayCase::Map(vec![l]));
            continue;
        }
        let mut it = l.split(' ');
        let kind = it.next().unwrap_or("");
        let idx: Option<usize> = it.next().and_then(|x| x.parse().ok());
        match (&mut cur, kind, idx) {
            (Some(ReplayCase::Sched(c, steps)), "s", Some(i)) if i < c.senders.len() => steps.push(i),
            (Some(ReplayCase::Sched(c, steps)), "c", Some(j)) if j < c.ctrls.len() => steps.push(c.senders.len() + j),
            (Some(ReplayCase::Map(ops)), k, Some(_)) if k.starts_with('m') => ops.push(l.clone()),
            _ => harness_failure(&format!("replay: bad line: {}", l)),
        }
    }
    if let Some(c) = cur.take() {
        cases.push(c);
    }
    for case in cases {
        s.stats.count("gen.replay");
        match case {
            ReplayCase::Map(ops) => emit_map_case(s, &ops),
            ReplayCase::Sched(cfg, steps) => {
                let mut i = 0usize;
                emit_case(
                    s,
                    &cfg,
                    Box::new(move |_, en| {
                        // follow the file while it names an enabled thread, then lowest thread first
                        while i < steps.len() {
                            let t = steps[i];
                            i += 1;
                            if en.contains(&t) {
                                return Some(t);
                            }
                        }
                        en.first().copied()
                    }),
                );
            }
        }
    }
}

fn cfg(senders: &[(Hint, bool)], ctrls: &[&str]) -> Config {
    Config { senders: senders.to_vec(), ctrls: ctrls.iter().map(|p| p.chars().collect()).collect(), reuse: false }
}

/// (configuration, cap on the number of executions).  The caps of the first group are far above
/// the size of the reduced schedule space, so these configurations are searched exhaustively (up to
/// the independence relation); `stats.json` lists which searches completed.
fn thorough_configs() -> Vec<(Config, u64)> {
    use Hint::*;
    let mut out = vec![];
    // k = 2 senders, one blocking period with a poll: every class of hint pair
    for (a, b) in [(N, M(0))] {
        out.push((cfg(&[(a, true), (b, true)], &["SPD"]), 40_000));
    }
    // one period without poll: remaining hint pairs; inner sender answering Retry
    for (a, b) in [(N, N), (N, B), (B, M(0)), (M(0), M(2))] {
        out.push((cfg(&[(a, true), (b, true)], &["SD"]), 40_000));
    }
    out.push((cfg(&[(N, false), (N, true)], &["SD"]), 40_000));
    out.push((cfg(&[(M(0), false), (B, true)], &["SD"]), 40_000));
    // stop_blocking during blocking; handle never dropped
    out.push((cfg(&[(N, true), (N, true)], &["SRD"]), 40_000));
    out.push((cfg(&[(N, true), (B, true)], &["SP"]), 40_000));
    // two blocking periods, k = 1: sequential and overlapping
    out.push((cfg(&[(N, true)], &["SPDSPD"]), 40_000));
    out.push((cfg(&[(M(1), true)], &["SPDSPD"]), 40_000));
    out.push((cfg(&[(N, true)], &["SD", "SD"]), 40_000));
    out.push((cfg(&[(M(2), true)], &["SPD", "SD"]), 2_000));
    // two blocking periods, k = 2: too large to exhaust, DFS prefix (plus random schedules below)
    for (a, b) in [(N, N), (M(0), B)] {
        out.push((cfg(&[(a, true), (b, true)], &["SDSPD"]), 2_000));
        out.push((cfg(&[(a, true), (b, true)], &["SPD", "SD"]), 2_000));
    }
    out
}

fn two_period_configs() -> Vec<Config> {
    use Hint::*;
    let mut out = vec![];
    for (a, b) in [(N, N), (N, M(2)), (M(0), B), (M(2), M(2)), (N, B), (M(1), M(3))] {
        for ctrls in [&["SDSPD"][..], &["SPD", "SD"][..], &["SPDSPD"][..], &["SPD", "SPD"][..]] {
            out.push(cfg(&[(a, true), (b, true)], ctrls));
        }
    }
    out
}

fn main() {
    let args = parse_args();
    let mut rng = Rng::new(args.seed);
    let mut s = Streams::new(&args);
    set_point_hook(Some(Arc::new(hook)));
    if let Some(p) = &args.replay {
        replay_file(&mut s, p);
    } else if let Some(c) = args.extra.get("dfs") {
        // experimentation: exhaustive search of one configuration, e.g. --dfs "init N:1,N:1 SPD" --cap 100000
        let cfg = Config::parse(c).unwrap_or_else(|| harness_failure("bad --dfs configuration"));
        let cap = args.extra.get("cap").and_then(|x| x.parse().ok()).unwrap_or(1_000_000);
        let (runs, complete) = dfs(&mut s, &cfg, cap);
        eprintln!("dfs {}: runs={} complete={}", c, runs, complete);
    } else if args.thorough {
        // exhaustive (up to the independence relation) for the small configurations
        let mut exhaustive = vec![];
        let mut capped = vec![];
        for (cfg, cap) in thorough_configs() {
            let (runs, complete) = dfs(&mut s, &cfg, cap);
            let name = cfg.text();
            if complete {
                exhaustive.push(json!({"config": name, "runs": runs}));
            } else {
                capped.push(json!({"config": name, "runs": runs}));
            }
            s.stats.count(if complete { "dfs.config_exhausted" } else { "dfs.config_capped" });
        }
        s.stats.extra.insert("dfs_exhaustive".into(), json!(exhaustive));
        s.stats.extra.insert("dfs_capped".into(), json!(capped));
        let two = two_period_configs();
        for i in 0..2000usize {
            let cfg = two[i % two.len()].clone();
            s.stats.count("gen.two_period_k2_random");
            random_case(&mut s, &cfg, &mut rng);
        }
        for _ in 0..3000 {
            let cfg = gen_config(&mut rng, &mut s.stats);
            random_case(&mut s, &cfg, &mut rng);
        }
        for _ in 0..20000 {
            let ops = gen_map_history(&mut rng);
            emit_map_case(&mut s, &ops);
        }
    } else {
        // tiny exhaustive searches + seeded random schedules
        for (cfg, cap) in [
            (cfg(&[(Hint::N, true)], &["SPD"]), 400u64),
            (Config { reuse: true, ..cfg(&[(Hint::M(0), true)], &["SD"]) }, 400),
        ] {
            let (_, complete) = dfs(&mut s, &cfg, cap);
            s.stats.count(if complete { "dfs.config_exhausted" } else { "dfs.config_capped" });
        }
        for _ in 0..1000 {
            let cfg = gen_config(&mut rng, &mut s.stats);
            random_case(&mut s, &cfg, &mut rng);
        }
        for _ in 0..400 {
            let ops = gen_map_history(&mut rng);
            emit_map_case(&mut s, &ops);
        }
    }
    set_point_hook(None);
    s.finish(
        "barrier",
        "cases = complete schedules of the real TaskBlockingQueue (one op line per atomic step); configurations: k in 1..3 senders x hints N/B/M(term) x inner sender ok/retry x 0..2 controller programs over start/poll/drop/stop x (fresh | re-used after complete release) backend address; schedules: DFS with sleep sets (exhaustive for the listed small configurations) + uniform / sticky / controller-first random; non-trivial = a sender ran while the barrier was observed closed (blocking_done && blocking) or a queued task was re-dispatched; distinct = distinct (configuration, schedule); map family: random histories of acquire (sender factory / controller factory / get_blocking_queue) / drop / drop-all / probe over one BlockingMap and 1..3 addresses, non-trivial = a pair re-created over a dead map entry was blocked together",
    );
}
