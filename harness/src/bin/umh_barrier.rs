//! C11: the real `TaskBlockingQueue` (src/proxy/blocking.rs) under a deterministic scheduler.
//!
//! Sender and controller threads are real OS threads.  Every `verif_hook::point` of
//! blocking.rs / biatomic.rs parks the calling thread until the scheduler releases it, so exactly
//! one thread runs between two scheduling decisions and one scheduler step = one SeqCst
//! operation.  The scheduler executes seeded random schedules (quick) or enumerates schedules by
//! DFS with sleep sets (thorough) and logs one op line per step (`s <i>` / `c <j>`); the
//! observable of a step is: recorded events (inner sender / re-dispatch sender calls), the value
//! returned by `send` / `blocking_done`, the next point the thread parks at, and the public
//! observables `blocking_done()` / `get_blocking_state()` read by the scheduler after the step.
//! The Lean driver replays the same op lines with `step?`.
//!
//! Oracle (on the implementation log only):
//!  * barrier: once `blocking_done() && blocking` has been observed, no `handed` event until
//!    `blocking` becomes false;
//!  * no loss / exactly once: per task, the events match the value `send` returned; nothing is
//!    left in the queue when all threads have finished and no handle is alive;
//!  * timing (finding F11a): a task enqueued while blocking is not re-dispatched before blocking
//!    became false, unless an explicit `stop_blocking()` did it.
use crossbeam_channel::{unbounded, Receiver, RecvTimeoutError, Sender};
use serde_json::json;
use std::cell::RefCell;
use std::collections::BTreeSet;
use std::sync::atomic::{AtomicBool, Ordering};
use std::sync::{Arc, Mutex};
use std::time::Duration;
use umharness::util::*;
use undermoon::common::verif_hook::set_point_hook;
use undermoon::protocol::{Resp, RespVec};
use undermoon::proxy::backend::{CmdTask, SenderBackendError};
use undermoon::proxy::blocking::{
    BlockingCmdTaskSender, BlockingHandle, BlockingHint, BlockingHintTask, BlockingMap,
    CounterTask, TaskBlockingController, TaskBlockingQueue, TaskBlockingQueueSender,
    TaskBlockingQueueSenderFactory,
};
use undermoon::proxy::command::{CommandError, CommandResult};
use undermoon::proxy::sender::{CmdTaskSender, CmdTaskSenderFactory};
use undermoon::proxy::slowlog::TaskEvent;

const STEP_TIMEOUT: Duration = Duration::from_secs(20);

// ---------------------------------------------------------------------------------------------
// task, recording senders
// ---------------------------------------------------------------------------------------------

struct HTask {
    id: usize,
}

impl CmdTask for HTask {
    type Pkt = RespVec;
    type TaskType = u64;
    type Context = u32;
    fn get_key(&self) -> Option<&[u8]> {
        None
    }
    fn get_slot(&self) -> Option<usize> {
        Some(self.id)
    }
    fn set_result(self, _result: CommandResult<RespVec>) {}
    fn get_packet(&self) -> RespVec {
        Resp::Simple(b"t".to_vec())
    }
    fn get_type(&self) -> u64 {
        0
    }
    fn get_context(&self) -> u32 {
        0
    }
    fn set_resp_result(self, _result: Result<RespVec, CommandError>) {}
    fn log_event(&mut self, _event: TaskEvent) {}
}

#[derive(Clone, Debug, PartialEq)]
enum Ev {
    Handed(usize, bool),
    Redisp(usize),
}

struct Rec {
    events: Mutex<Vec<Ev>>,
    inflight: Mutex<Vec<Option<CounterTask<HTask>>>>,
    inner_ok: Vec<bool>,
}

struct RecInner(Arc<Rec>);

impl CmdTaskSender for RecInner {
    type Task = CounterTask<HTask>;
    fn send(&self, t: Self::Task) -> Result<(), SenderBackendError<Self::Task>> {
        let id = t.get_slot().unwrap_or(usize::MAX);
        let ok = self.0.inner_ok.get(id).copied().unwrap_or(true);
        self.0.events.lock().expect("events").push(Ev::Handed(id, ok));
        if ok {
            if let Some(slot) = self.0.inflight.lock().expect("inflight").get_mut(id) {
                *slot = Some(t);
            }
            Ok(())
        } else {
            Err(SenderBackendError::Retry(t))
        }
    }
}

struct RecInnerFactory(Arc<Rec>);

impl CmdTaskSenderFactory for RecInnerFactory {
    type Sender = RecInner;
    fn create(&self, _address: String) -> RecInner {
        RecInner(self.0.clone())
    }
}

struct RecRedisp(Arc<Rec>);

impl CmdTaskSender for RecRedisp {
    type Task = HTask;
    fn send(&self, t: HTask) -> Result<(), SenderBackendError<HTask>> {
        self.0.events.lock().expect("events").push(Ev::Redisp(t.id));
        Ok(())
    }
}

impl BlockingCmdTaskSender for RecRedisp {}

type Queue = TaskBlockingQueue<RecInner, RecRedisp>;
type QSender = TaskBlockingQueueSender<RecInner, RecRedisp>;

// ---------------------------------------------------------------------------------------------
// configuration of one schedule
// ---------------------------------------------------------------------------------------------

#[derive(Clone, Copy, Debug, PartialEq)]
enum Hint {
    N,
    B,
    M(u32),
}

impl Hint {
    fn text(&self) -> String {
        match self {
            Hint::N => "N".into(),
            Hint::B => "B".into(),
            Hint::M(t) => format!("M{}", t),
        }
    }
    fn real(&self) -> BlockingHint {
        match self {
            Hint::N => BlockingHint::NotBlocking,
            Hint::B => BlockingHint::Blocking,
            Hint::M(t) => BlockingHint::NotBlockingInMigration(*t),
        }
    }
    fn same(&self, h: BlockingHint) -> bool {
        match (self, h) {
            (Hint::N, BlockingHint::NotBlocking) => true,
            (Hint::B, BlockingHint::Blocking) => true,
            (Hint::M(a), BlockingHint::NotBlockingInMigration(b)) => *a == b,
            _ => false,
        }
    }
}

#[derive(Clone, Debug)]
struct Config {
    senders: Vec<(Hint, bool)>,
    ctrls: Vec<Vec<char>>, // programs over S P D R
}

impl Config {
    fn text(&self) -> String {
        let ss = if self.senders.is_empty() {
            "-".to_string()
        } else {
            self.senders
                .iter()
                .map(|(h, ok)| format!("{}:{}", h.text(), if *ok { 1 } else { 0 }))
                .collect::<Vec<_>>()
                .join(",")
        };
        let cs = if self.ctrls.is_empty() {
            "-".to_string()
        } else {
            self.ctrls
                .iter()
                .map(|p| if p.is_empty() { "_".to_string() } else { p.iter().collect::<String>() })
                .collect::<Vec<_>>()
                .join(",")
        };
        format!("init {} {}", ss, cs)
    }
    fn parse(line: &str) -> Option<Config> {
        let mut it = line.split(' ');
        if it.next()? != "init" {
            return None;
        }
        let ss = it.next()?;
        let cs = it.next()?;
        let mut senders = vec![];
        if ss != "-" {
            for item in ss.split(',') {
                let (h, ok) = item.split_once(':')?;
                let hint = match h.as_bytes().first()? {
                    b'N' if h.len() == 1 => Hint::N,
                    b'B' if h.len() == 1 => Hint::B,
                    b'M' => Hint::M(h[1..].parse().ok()?),
                    _ => return None,
                };
                senders.push((hint, match ok { "1" => true, "0" => false, _ => return None }));
            }
        }
        let mut ctrls = vec![];
        if cs != "-" {
            for p in cs.split(',') {
                if p == "_" {
                    ctrls.push(vec![]);
                } else {
                    if !p.chars().all(|c| "SPDR".contains(c)) || p.is_empty() {
                        return None;
                    }
                    ctrls.push(p.chars().collect());
                }
            }
        }
        Some(Config { senders, ctrls })
    }
    fn nthreads(&self) -> usize {
        self.senders.len() + self.ctrls.len()
    }
    fn tid_text(&self, t: usize) -> String {
        if t < self.senders.len() {
            format!("s {}", t)
        } else {
            format!("c {}", t - self.senders.len())
        }
    }
    fn tid_name(&self, t: usize) -> String {
        if t < self.senders.len() {
            format!("s{}", t)
        } else {
            format!("c{}", t - self.senders.len())
        }
    }
}

// ---------------------------------------------------------------------------------------------
// thread <-> scheduler plumbing
// ---------------------------------------------------------------------------------------------

enum Msg {
    Parked(usize, &'static str),
    Ret(usize, String),
    Polled(usize, bool),
    /// controller starts executing command `c` (bookkeeping for the timing oracle)
    Cmd(usize, char),
    Finished(usize),
    Panicked(usize),
}

struct Ctx {
    tx: Sender<Msg>,
    go: Vec<Receiver<()>>,
    /// set when the scheduler abandons a schedule: threads stop parking and run to completion
    free_run: AtomicBool,
}

thread_local! {
    static CTX: RefCell<Option<(usize, Arc<Ctx>)>> = const { RefCell::new(None) };
}

fn hook(point: &'static str) {
    let me = CTX.with(|c| c.borrow().clone());
    if let Some((tid, ctx)) = me {
        if ctx.free_run.load(Ordering::SeqCst) {
            return;
        }
        let _ = ctx.tx.send(Msg::Parked(tid, point));
        // wait for the scheduler; if it is gone (harness failure path) just run on
        if let Some(g) = ctx.go.get(tid) {
            // hand-offs are short: spin / yield briefly before blocking (keeps the run time
            // reasonable when the machine is oversubscribed)
            let mut n = 0u32;
            loop {
                match g.try_recv() {
                    Ok(()) => break,
                    Err(crossbeam_channel::TryRecvError::Disconnected) => break,
                    Err(crossbeam_channel::TryRecvError::Empty) => {}
                }
                n += 1;
                if n < 3000 {
                    std::hint::spin_loop();
                } else if n < 3200 {
                    std::thread::yield_now();
                } else {
                    let _ = g.recv();
                    break;
                }
            }
        }
    }
}

fn harness_failure(what: &str) -> ! {
    eprintln!("HARNESS-FAILURE: {}", what);
    std::process::exit(3);
}

/// One live execution of the real code under the scheduler.
struct Exec {
    cfg: Config,
    queue: Arc<Queue>,
    rec: Arc<Rec>,
    ctx: Arc<Ctx>,
    rx: Receiver<Msg>,
    go_tx: Vec<Sender<()>>,
    joins: Vec<Option<std::thread::JoinHandle<Option<BlockingHandle<RecRedisp>>>>>,
    /// point each thread is parked at; None = finished
    at: Vec<Option<&'static str>>,
    /// controller: command being executed
    cur_cmd: Vec<char>,
    // ---- oracle state ----
    closed: bool,
    enq_open: Vec<bool>,
    handed: Vec<Vec<bool>>,
    redisp: Vec<u32>,
    rets: Vec<Vec<String>>,
    pub saw_closed: bool,
    pub sender_steps_while_closed: u32,
    pub failures: Vec<(String, &'static str)>,
    pub log: Vec<String>,
}

struct StepOut {
    obs: String,
}

impl Exec {
    fn start(cfg: &Config) -> (Exec, String) {
        let k = cfg.senders.len();
        let n = cfg.nthreads();
        let rec = Arc::new(Rec {
            events: Mutex::new(vec![]),
            inflight: Mutex::new((0..k).map(|_| None).collect()),
            inner_ok: cfg.senders.iter().map(|s| s.1).collect(),
        });
        let map = Arc::new(BlockingMap::new(
            RecInnerFactory(rec.clone()),
            Arc::new(RecRedisp(rec.clone())),
        ));
        let factory = TaskBlockingQueueSenderFactory::new(map.clone());
        let sender: Arc<QSender> = Arc::new(factory.create("backend".to_string()));
        let queue: Arc<Queue> = map.get_blocking_queue("backend".to_string());
        let (tx, rx) = unbounded::<Msg>();
        let mut go_tx = vec![];
        let mut go_rx = vec![];
        for _ in 0..n {
            let (a, b) = unbounded::<()>();
            go_tx.push(a);
            go_rx.push(b);
        }
        let ctx = Arc::new(Ctx { tx: tx.clone(), go: go_rx, free_run: AtomicBool::new(false) });
        let mut ex = Exec {
            cfg: cfg.clone(),
            queue: queue.clone(),
            rec: rec.clone(),
            ctx: ctx.clone(),
            rx,
            go_tx,
            joins: vec![],
            at: vec![None; n],
            cur_cmd: vec![' '; n],
            closed: false,
            enq_open: vec![false; k],
            handed: vec![vec![]; k],
            redisp: vec![0; k],
            rets: vec![vec![]; k],
            saw_closed: false,
            sender_steps_while_closed: 0,
            failures: vec![],
            log: vec![],
        };
        for t in 0..n {
            let ctx = ctx.clone();
            let tx = tx.clone();
            let b = std::thread::Builder::new().stack_size(256 * 1024);
            let jh = if t < k {
                let (hint, _) = cfg.senders[t];
                let sender = sender.clone();
                let rec = rec.clone();
                b.spawn(move || {
                    CTX.with(|c| *c.borrow_mut() = Some((t, ctx)));
                    let r = std::panic::catch_unwind(std::panic::AssertUnwindSafe(|| {
                        let res = sender.send(BlockingHintTask::new(HTask { id: t }, hint.real()));
                        let text = match res {
                            Ok(()) => "ret:ok".to_string(),
                            Err(SenderBackendError::Retry(task)) => {
                                let h = task.get_blocking_hint();
                                let inner = task.into_inner();
                                if inner.id == t && hint.same(h) {
                                    "ret:retry".to_string()
                                } else {
                                    "ret:retry-corrupt".to_string()
                                }
                            }
                            Err(e) => format!("ret:err:{:?}", e),
                        };
                        let _ = tx.send(Msg::Ret(t, text));
                        // the backend's reply: the CounterTask is dropped
                        let ct = rec.inflight.lock().expect("inflight").get_mut(t).and_then(|s| s.take());
                        drop(ct);
                    }));
                    let _ = tx.send(if r.is_ok() { Msg::Finished(t) } else { Msg::Panicked(t) });
                    CTX.with(|c| *c.borrow_mut() = None);
                    None
                })
            } else {
                let prog = cfg.ctrls[t - k].clone();
                let queue = queue.clone();
                b.spawn(move || {
                    CTX.with(|c| *c.borrow_mut() = Some((t, ctx)));
                    let mut handle: Option<BlockingHandle<RecRedisp>> = None;
                    let r = std::panic::catch_unwind(std::panic::AssertUnwindSafe(|| {
                        for cmd in prog {
                            match cmd {
                                'S' => {
                                    if handle.is_none() {
                                        let _ = tx.send(Msg::Cmd(t, 'S'));
                                        handle = Some(queue.start_blocking());
                                    }
                                }
                                'P' => {
                                    let _ = tx.send(Msg::Cmd(t, 'P'));
                                    let b = queue.blocking_done();
                                    let _ = tx.send(Msg::Polled(t, b));
                                }
                                'D' => {
                                    if let Some(h) = handle.take() {
                                        let _ = tx.send(Msg::Cmd(t, 'D'));
                                        drop(h);
                                    }
                                }
                                _ => {
                                    let _ = tx.send(Msg::Cmd(t, 'R'));
                                    queue.stop_blocking();
                                }
                            }
                        }
                    }));
                    let _ = tx.send(if r.is_ok() { Msg::Finished(t) } else { Msg::Panicked(t) });
                    CTX.with(|c| *c.borrow_mut() = None);
                    // a handle that the program never drops stays alive until the end of the case
                    handle
                })
            };
            ex.joins.push(Some(jh.unwrap_or_else(|e| harness_failure(&format!("spawn: {}", e)))));
            // run the new thread to its first scheduling point
            let _ = ex.wait_thread(t, None);
        }
        let pos: Vec<String> = (0..n)
            .map(|t| format!("{}@{}", cfg.tid_name(t), ex.at[t].unwrap_or("end")))
            .collect();
        let line = format!("ok at={} {}", pos.join(","), ex.globals().0);
        (ex, line)
    }

    /// public observables, read by the scheduler thread (its hook calls pass straight through)
    fn globals(&self) -> (String, bool, bool) {
        let done = self.queue.blocking_done();
        let st = self.queue.get_blocking_state();
        (
            format!("done={} blk={} term={}", if done { 1 } else { 0 }, if st.blocking { 1 } else { 0 }, st.term),
            done,
            st.blocking,
        )
    }

    /// wait until thread `t` parks again or finishes; returns ret / polled strings seen on the way
    fn wait_thread(&mut self, t: usize, _from: Option<&'static str>) -> Vec<String> {
        let mut parts = vec![];
        loop {
            let mut n = 0u32;
            let msg = loop {
                match self.rx.try_recv() {
                    Ok(m) => break Ok(m),
                    Err(crossbeam_channel::TryRecvError::Disconnected) => break Err(RecvTimeoutError::Disconnected),
                    Err(crossbeam_channel::TryRecvError::Empty) => {}
                }
                n += 1;
                if n < 3000 {
                    std::hint::spin_loop();
                } else if n < 3200 {
                    std::thread::yield_now();
                } else {
                    break self.rx.recv_timeout(STEP_TIMEOUT);
                }
            };
            match msg {
                Ok(Msg::Parked(u, p)) if u == t => {
                    self.at[t] = Some(p);
                    return parts;
                }
                Ok(Msg::Finished(u)) if u == t => {
                    self.at[t] = None;
                    return parts;
                }
                Ok(Msg::Panicked(u)) if u == t => {
                    self.at[t] = None;
                    parts.push("PANIC".to_string());
                    return parts;
                }
                Ok(Msg::Ret(u, s)) if u == t => {
                    self.rets[t].push(s.clone());
                    parts.push(s);
                }
                Ok(Msg::Polled(u, b)) if u == t => parts.push(format!("polled:{}", if b { 1 } else { 0 })),
                Ok(Msg::Cmd(u, c)) if u == t => self.cur_cmd[t] = c,
                Ok(_) => harness_failure(&format!(
                    "a thread other than {} ran while it was not scheduled ({})",
                    self.cfg.tid_name(t),
                    self.cfg.text()
                )),
                Err(RecvTimeoutError::Timeout) => harness_failure(&format!(
                    "thread {} did not reach a scheduling point within {:?} ({}; schedule so far: {})",
                    self.cfg.tid_name(t),
                    STEP_TIMEOUT,
                    self.cfg.text(),
                    self.log.join(" ; ")
                )),
                Err(RecvTimeoutError::Disconnected) => harness_failure("scheduler channel disconnected"),
            }
        }
    }

    fn enabled(&self) -> Vec<usize> {
        (0..self.at.len()).filter(|t| self.at[*t].is_some()).collect()
    }

    /// release thread `t` for one atomic operation; returns the observable line
    fn step(&mut self, t: usize) -> StepOut {
        let k = self.cfg.senders.len();
        let from = match self.at.get(t).copied().flatten() {
            Some(p) => p,
            None => return StepOut { obs: "stuck".to_string() },
        };
        let was_closed = self.closed;
        if self.go_tx[t].send(()).is_err() {
            harness_failure("gate closed");
        }
        let parts = self.wait_thread(t, Some(from));
        let evs: Vec<Ev> = std::mem::take(&mut *self.rec.events.lock().expect("events"));
        let (gtext, done, blk) = self.globals();
        let mut obs: Vec<String> = vec![];
        for e in &evs {
            match e {
                Ev::Handed(i, ok) => {
                    obs.push(format!("handed:{}:{}", i, if *ok { "ok" } else { "err" }));
                    if let Some(h) = self.handed.get_mut(*i) {
                        h.push(*ok);
                    }
                    if was_closed {
                        self.failures.push((
                            format!("barrier: task {} handed to the backend after blocking_done was observed and before blocking was lifted", i),
                            "",
                        ));
                    }
                }
                Ev::Redisp(u) => {
                    obs.push(format!("redisp:{}", u));
                    if let Some(r) = self.redisp.get_mut(*u) {
                        *r += 1;
                    }
                    if self.enq_open.get(*u).copied().unwrap_or(false) {
                        if self.cur_cmd[t] == 'R' {
                            // explicit stop_blocking(): flushing is what was asked for
                        } else {
                            self.failures.push((
                                format!("timing: task {} was queued while blocking and re-dispatched by a stale release_all before blocking was lifted", u),
                                "F11a",
                            ));
                        }
                    }
                }
            }
        }
        obs.extend(parts);
        if obs.is_empty() {
            if from == "blocking.queue_push" && t < k {
                obs.push(format!("enq:{}", t));
                // blocking was true when this sender decided to enqueue; if it still is, the
                // task must wait for the end of this blocking window
                if blk {
                    self.enq_open[t] = true;
                }
            } else {
                obs.push("tau".to_string());
            }
        }
        // oracle bookkeeping on the public observables
        if !blk {
            self.closed = false;
            for e in self.enq_open.iter_mut() {
                *e = false;
            }
        }
        if done && blk {
            self.closed = true;
            self.saw_closed = true;
        }
        if was_closed && t < k {
            self.sender_steps_while_closed += 1;
        }
        let line = format!("{} @{} {}", obs.join("+"), self.at[t].unwrap_or("end"), gtext);
        StepOut { obs: line }
    }

    /// stop scheduling: every parked thread is released and runs (truly concurrently) to its end.
    /// Events of this tail are still subject to the end-of-case oracle, not to the barrier oracle.
    fn abandon(&mut self) {
        self.ctx.free_run.store(true, Ordering::SeqCst);
        let mut live = 0;
        for t in 0..self.at.len() {
            if self.at[t].is_some() {
                live += 1;
                let _ = self.go_tx[t].send(());
            }
        }
        while live > 0 {
            match self.rx.recv_timeout(STEP_TIMEOUT) {
                Ok(Msg::Finished(t)) => {
                    self.at[t] = None;
                    live -= 1;
                }
                Ok(Msg::Panicked(t)) => {
                    self.at[t] = None;
                    live -= 1;
                    self.failures.push((format!("thread {} panicked", self.cfg.tid_name(t)), ""));
                }
                Ok(Msg::Ret(t, s)) => self.rets[t].push(s),
                Ok(_) => {}
                Err(_) => harness_failure(&format!("free-running threads did not finish within {:?} ({})", STEP_TIMEOUT, self.cfg.text())),
            }
        }
        let evs: Vec<Ev> = std::mem::take(&mut *self.rec.events.lock().expect("events"));
        for e in evs {
            match e {
                Ev::Handed(i, ok) => {
                    if let Some(h) = self.handed.get_mut(i) {
                        h.push(ok);
                    }
                }
                Ev::Redisp(u) => {
                    if let Some(r) = self.redisp.get_mut(u) {
                        *r += 1;
                    }
                }
            }
        }
    }

    /// all threads have finished: end-of-case oracle, cleanup
    fn finish(mut self) -> Vec<(String, &'static str)> {
        let k = self.cfg.senders.len();
        let mut leaked = vec![];
        for j in self.joins.iter_mut() {
            if let Some(h) = j.take() {
                match h.join() {
                    Ok(Some(handle)) => leaked.push(handle),
                    Ok(None) => {}
                    Err(_) => self.failures.push(("a harness thread panicked outside the code under test".to_string(), "")),
                }
            }
        }
        let (_, _, blk) = self.globals();
        // flush what is still queued (scheduler thread: hooks pass through)
        self.queue.stop_blocking();
        let evs: Vec<Ev> = std::mem::take(&mut *self.rec.events.lock().expect("events"));
        let mut leftover = vec![0u32; k];
        for e in evs {
            if let Ev::Redisp(u) = e {
                if let Some(l) = leftover.get_mut(u) {
                    *l += 1;
                }
            }
        }
        if !blk && leftover.iter().any(|l| *l > 0) {
            self.failures.push((
                format!("no-loss: tasks {:?} were still queued after all threads finished with no blocker alive",
                    leftover.iter().enumerate().filter(|(_, l)| **l > 0).map(|(i, _)| i).collect::<Vec<_>>()),
                "",
            ));
        }
        for i in 0..k {
            let h = &self.handed[i];
            let r = self.redisp[i];
            let l = leftover[i];
            let ok = match self.rets[i].as_slice() {
                [s] if s == "ret:ok" => {
                    (h.as_slice() == [true] && r == 0 && l == 0) || (h.is_empty() && r + l == 1)
                }
                [s] if s == "ret:retry" => (h.as_slice() == [false] || h.is_empty()) && r == 0 && l == 0,
                _ => false,
            };
            if !ok {
                self.failures.push((
                    format!(
                        "exactly-once: task {} returned {:?}, handed {:?}, re-dispatched {} time(s), left in queue {}",
                        i, self.rets[i], h, r, l
                    ),
                    "",
                ));
            }
        }
        drop(leaked);
        let (_, done, blk2) = self.globals();
        if !done || blk2 {
            self.failures.push((format!("end of case: running_cmd != 0 or count != 0 after every thread finished and every handle was dropped (done={} blocking={})", done, blk2), ""));
        }
        self.failures
    }
}

// ---------------------------------------------------------------------------------------------
// independence relation for the sleep-set DFS
// ---------------------------------------------------------------------------------------------

#[derive(PartialEq, Clone, Copy)]
enum Kind {
    RunW,  // commutative update of running_cmd (result discarded)
    RunR,  // done_load
    WordR, // biatomic.load / cas_load
    WordW, // cas_xchg
    Queue, // push / pop
    Hand,
    Redisp,
}

fn kind(p: &str) -> Kind {
    match p {
        "blocking.ref_inc" | "blocking.counter_inc" | "blocking.ref_dec" | "blocking.counter_dec" => Kind::RunW,
        "blocking.done_load" => Kind::RunR,
        "biatomic.load" | "biatomic.cas_load" => Kind::WordR,
        "biatomic.cas_xchg" => Kind::WordW,
        "blocking.queue_push" | "blocking.queue_pop" => Kind::Queue,
        "blocking.hand" => Kind::Hand,
        _ => Kind::Redisp,
    }
}

/// may the two next operations be swapped without changing the state or any oracle verdict?
fn independent(a: &str, b: &str) -> bool {
    use Kind::*;
    let (x, y) = (kind(a), kind(b));
    let dep = |x: Kind, y: Kind| -> bool {
        match (x, y) {
            (RunW, RunR) | (WordR, WordW) | (WordW, WordW) | (Queue, Queue) => true,
            // the trace oracles order `handed` against a controller's `blocking_done()` and against
            // changes of `blocking`, and `redisp` against changes of `blocking`
            (Hand, RunR) | (Hand, WordW) | (Redisp, WordW) | (Redisp, Queue) => true,
            _ => false,
        }
    };
    !(dep(x, y) || dep(y, x))
}

// ---------------------------------------------------------------------------------------------
// running schedules
// ---------------------------------------------------------------------------------------------

struct RunResult {
    steps: Vec<usize>,
    nontrivial: bool,
}

fn emit_case(
    s: &mut Streams,
    cfg: &Config,
    mut choose: impl FnMut(&Exec, &[usize]) -> Option<usize>,
) -> RunResult {
    let case = s.case();
    let (mut ex, init_line) = Exec::start(cfg);
    s.op(&cfg.text(), &init_line);
    let mut steps = vec![];
    let mut replay = vec![cfg.text()];
    loop {
        let en = ex.enabled();
        if en.is_empty() {
            break;
        }
        let t = match choose(&ex, &en) {
            Some(t) => t,
            None => {
                ex.abandon();
                s.stats.count("out.abandoned_free_run");
                break;
            }
        };
        let out = ex.step(t);
        let op = cfg.tid_text(t);
        s.op(&op, &out.obs);
        ex.log.push(format!("{}:{}", op, out.obs));
        replay.push(op);
        steps.push(t);
        if steps.len() > 5000 {
            harness_failure("schedule longer than 5000 steps (CAS livelock in the scheduler?)");
        }
    }
    let saw_closed = ex.saw_closed;
    let sender_steps_closed = ex.sender_steps_while_closed;
    let redisp_total: u32 = ex.redisp.iter().sum();
    let handed_total: usize = ex.handed.iter().map(|h| h.len()).sum();
    let retry_total = ex.rets.iter().filter(|r| r.iter().any(|x| x == "ret:retry")).count();
    let failures = ex.finish();
    s.stats.add("out.steps", steps.len() as u64);
    s.stats.add("out.handed", handed_total as u64);
    s.stats.add("out.redispatched", redisp_total as u64);
    s.stats.add("out.retry_returned", retry_total as u64);
    if saw_closed {
        s.stats.count("out.barrier_observed_closed");
    }
    if sender_steps_closed > 0 {
        s.stats.count("out.sender_ran_while_closed");
    }
    let nontrivial = (saw_closed && sender_steps_closed > 0) || redisp_total > 0;
    if nontrivial {
        s.stats.nontrivial_case(&replay.join(";"));
    }
    let mut seen = BTreeSet::new();
    for (what, finding) in failures {
        if finding == "F11a" {
            s.stats.count("out.finding_F11a");
        }
        if seen.insert((what.clone(), finding)) {
            s.stats.oracle_failure(case, &what, finding, replay.clone());
        }
    }
    RunResult { steps, nontrivial }
}

/// stateless DFS with sleep sets over all schedules of `cfg`; at most `cap` executions
fn dfs(s: &mut Streams, cfg: &Config, cap: u64) -> (u64, bool) {
    struct Frame {
        points: Vec<(usize, &'static str)>, // enabled threads and their next points
        sleep: Vec<(usize, &'static str)>,
        done: Vec<(usize, &'static str)>,
        chosen: usize,
    }
    let mut stack: Vec<Frame> = vec![];
    let mut runs = 0u64;
    loop {
        // one execution: follow the stack, then extend it
        let mut depth = 0usize;
        let mut blocked = false;
        {
            let stack_ref = &mut stack;
            let blocked_ref = &mut blocked;
            let depth_ref = &mut depth;
            emit_case(s, cfg, |ex, en| {
                let d = *depth_ref;
                *depth_ref += 1;
                if *blocked_ref {
                    return None;
                }
                if d < stack_ref.len() {
                    return Some(stack_ref[d].chosen);
                }
                let points: Vec<(usize, &'static str)> =
                    en.iter().map(|t| (*t, ex.at[*t].unwrap_or("end"))).collect();
                let sleep: Vec<(usize, &'static str)> = if d == 0 {
                    vec![]
                } else {
                    let p = &stack_ref[d - 1];
                    let cp = p.points.iter().find(|x| x.0 == p.chosen).map(|x| x.1).unwrap_or("end");
                    p.sleep
                        .iter()
                        .chain(p.done.iter())
                        .filter(|(u, up)| *u != p.chosen && independent(up, cp))
                        .cloned()
                        .collect()
                };
                let cand = points.iter().find(|(t, _)| !sleep.iter().any(|(u, _)| u == t)).map(|x| x.0);
                match cand {
                    Some(t) => {
                        stack_ref.push(Frame { points, sleep, done: vec![], chosen: t });
                        Some(t)
                    }
                    None => {
                        // every enabled thread is asleep: this continuation is covered elsewhere
                        *blocked_ref = true;
                        None
                    }
                }
            });
        }
        runs += 1;
        s.stats.count(if blocked { "dfs.sleep_blocked_runs" } else { "dfs.complete_runs" });
        // backtrack
        loop {
            let top = match stack.last_mut() {
                Some(t) => t,
                None => return (runs, true),
            };
            let cp = top.points.iter().find(|x| x.0 == top.chosen).cloned();
            if let Some(cp) = cp {
                top.done.push(cp);
            }
            let next = top
                .points
                .iter()
                .find(|(t, _)| !top.sleep.iter().any(|(u, _)| u == t) && !top.done.iter().any(|(u, _)| u == t))
                .map(|x| x.0);
            match next {
                Some(t) => {
                    top.chosen = t;
                    break;
                }
                None => {
                    stack.pop();
                }
            }
        }
        if runs >= cap {
            return (runs, false);
        }
    }
}

fn random_case(s: &mut Streams, cfg: &Config, rng: &mut Rng) {
    let mode = rng.below(3);
    s.stats.count(match mode { 0 => "gen.sched.uniform", 1 => "gen.sched.sticky", _ => "gen.sched.ctrl_first" });
    let mut last: Option<usize> = None;
    let k = cfg.senders.len();
    emit_case(s, cfg, |_, en| {
        let t = match mode {
            1 if last.map(|l| en.contains(&l)).unwrap_or(false) && rng.chance(7, 10) => last.unwrap_or(en[0]),
            2 if rng.chance(1, 2) => *en.iter().find(|t| **t >= k).unwrap_or(rng.pick(en)),
            _ => *rng.pick(en),
        };
        last = Some(t);
        Some(t)
    });
}

fn gen_config(rng: &mut Rng, st: &mut Stats) -> Config {
    let k = 1 + rng.below(3) as usize;
    st.count(&format!("gen.k{}", k));
    let mut senders = vec![];
    for _ in 0..k {
        let h = match rng.below(10) {
            0..=3 => Hint::N,
            4..=5 => Hint::B,
            _ => Hint::M(rng.below(5) as u32),
        };
        st.count(match h { Hint::N => "gen.hint.N", Hint::B => "gen.hint.B", Hint::M(_) => "gen.hint.M" });
        let ok = !rng.chance(1, 6);
        if !ok {
            st.count("gen.inner_retry");
        }
        senders.push((h, ok));
    }
    let templates = ["SPD", "SPPD", "SPPPD", "SD", "SPDSPD", "SPDR", "SRPD", "SP", "PSPD", "R", "SDSD", "DSPD"];
    let m = if rng.chance(1, 8) { 0 } else { 1 + rng.below(2) as usize };
    st.count(&format!("gen.ctrls{}", m));
    let mut ctrls = vec![];
    for _ in 0..m {
        let p: Vec<char> = if rng.chance(1, 8) {
            let n = rng.below(6) as usize;
            st.count("gen.ctrl.random_program");
            (0..n).map(|_| *rng.pick(&['S', 'P', 'D', 'R'])).collect()
        } else {
            let t = *rng.pick(&templates);
            st.count(&format!("gen.ctrl.{}", t));
            t.chars().collect()
        };
        ctrls.push(p);
    }
    Config { senders, ctrls }
}

fn replay_file(s: &mut Streams, path: &std::path::Path) {
    let mut cur: Option<(Config, Vec<usize>)> = None;
    let mut cases: Vec<(Config, Vec<usize>)> = vec![];
    for l in read_lines(path) {
        if l.starts_with('#') || l.starts_with("case ") {
            continue;
        }
        if l.starts_with("init ") {
            if let Some(c) = cur.take() {
                cases.push(c);
            }
            match Config::parse(&l) {
                Some(c) => cur = Some((c, vec![])),
                None => harness_failure(&format!("replay: bad init line: {}", l)),
            }
            continue;
        }
        let mut it = l.split(' ');
        let kind = it.next().unwrap_or("");
        let idx: Option<usize> = it.next().and_then(|x| x.parse().ok());
        match (&mut cur, kind, idx) {
            (Some((c, steps)), "s", Some(i)) if i < c.senders.len() => steps.push(i),
            (Some((c, steps)), "c", Some(j)) if j < c.ctrls.len() => steps.push(c.senders.len() + j),
            _ => harness_failure(&format!("replay: bad line: {}", l)),
        }
    }
    if let Some(c) = cur.take() {
        cases.push(c);
    }
    for (cfg, steps) in cases {
        s.stats.count("gen.replay");
        let mut i = 0usize;
        emit_case(s, &cfg, |_, en| {
            // follow the file while it names an enabled thread, then lowest thread first
            while i < steps.len() {
                let t = steps[i];
                i += 1;
                if en.contains(&t) {
                    return Some(t);
                }
            }
            en.first().copied()
        });
    }
}

fn cfg(senders: &[(Hint, bool)], ctrls: &[&str]) -> Config {
    Config { senders: senders.to_vec(), ctrls: ctrls.iter().map(|p| p.chars().collect()).collect() }
}

/// (configuration, cap on the number of executions).  The caps of the first group are far above
/// the size of the reduced schedule space, so these configurations are searched exhaustively (up to
/// the independence relation); `stats.json` lists which searches completed.
fn thorough_configs() -> Vec<(Config, u64)> {
    use Hint::*;
    let mut out = vec![];
    // k = 2 senders, one blocking period with a poll: every class of hint pair
    for (a, b) in [(N, M(0))] {
        out.push((cfg(&[(a, true), (b, true)], &["SPD"]), 40_000));
    }
    // one period without poll: remaining hint pairs; inner sender answering Retry
    for (a, b) in [(N, N), (N, B), (B, M(0)), (M(0), M(2))] {
        out.push((cfg(&[(a, true), (b, true)], &["SD"]), 40_000));
    }
    out.push((cfg(&[(N, false), (N, true)], &["SD"]), 40_000));
    out.push((cfg(&[(M(0), false), (B, true)], &["SD"]), 40_000));
    // stop_blocking during blocking; handle never dropped
    out.push((cfg(&[(N, true), (N, true)], &["SRD"]), 40_000));
    out.push((cfg(&[(N, true), (B, true)], &["SP"]), 40_000));
    // two blocking periods, k = 1: sequential and overlapping
    out.push((cfg(&[(N, true)], &["SPDSPD"]), 40_000));
    out.push((cfg(&[(M(1), true)], &["SPDSPD"]), 40_000));
    out.push((cfg(&[(N, true)], &["SD", "SD"]), 40_000));
    out.push((cfg(&[(M(2), true)], &["SPD", "SD"]), 2_000));
    // two blocking periods, k = 2: too large to exhaust, DFS prefix (plus random schedules below)
    for (a, b) in [(N, N), (M(0), B)] {
        out.push((cfg(&[(a, true), (b, true)], &["SDSPD"]), 2_000));
        out.push((cfg(&[(a, true), (b, true)], &["SPD", "SD"]), 2_000));
    }
    out
}

fn two_period_configs() -> Vec<Config> {
    use Hint::*;
    let mut out = vec![];
    for (a, b) in [(N, N), (N, M(2)), (M(0), B), (M(2), M(2)), (N, B), (M(1), M(3))] {
        for ctrls in [&["SDSPD"][..], &["SPD", "SD"][..], &["SPDSPD"][..], &["SPD", "SPD"][..]] {
            out.push(cfg(&[(a, true), (b, true)], ctrls));
        }
    }
    out
}

fn main() {
    let args = parse_args();
    let mut rng = Rng::new(args.seed);
    let mut s = Streams::new(&args);
    set_point_hook(Some(Arc::new(hook)));
    if let Some(p) = &args.replay {
        replay_file(&mut s, p);
    } else if let Some(c) = args.extra.get("dfs") {
        // experimentation: exhaustive search of one configuration, e.g. --dfs "init N:1,N:1 SPD" --cap 100000
        let cfg = Config::parse(c).unwrap_or_else(|| harness_failure("bad --dfs configuration"));
        let cap = args.extra.get("cap").and_then(|x| x.parse().ok()).unwrap_or(1_000_000);
        let (runs, complete) = dfs(&mut s, &cfg, cap);
        eprintln!("dfs {}: runs={} complete={}", c, runs, complete);
    } else if args.thorough {
        // exhaustive (up to the independence relation) for the small configurations
        let mut exhaustive = vec![];
        let mut capped = vec![];
        for (cfg, cap) in thorough_configs() {
            let (runs, complete) = dfs(&mut s, &cfg, cap);
            let name = cfg.text();
            if complete {
                exhaustive.push(json!({"config": name, "runs": runs}));
            } else {
                capped.push(json!({"config": name, "runs": runs}));
            }
            s.stats.count(if complete { "dfs.config_exhausted" } else { "dfs.config_capped" });
        }
        s.stats.extra.insert("dfs_exhaustive".into(), json!(exhaustive));
        s.stats.extra.insert("dfs_capped".into(), json!(capped));
        let two = two_period_configs();
        for i in 0..2000usize {
            let cfg = two[i % two.len()].clone();
            s.stats.count("gen.two_period_k2_random");
            random_case(&mut s, &cfg, &mut rng);
        }
        for _ in 0..3000 {
            let cfg = gen_config(&mut rng, &mut s.stats);
            random_case(&mut s, &cfg, &mut rng);
        }
    } else {
        // tiny exhaustive searches + seeded random schedules
        for (cfg, cap) in [
            (Config { senders: vec![(Hint::N, true)], ctrls: vec!["SPD".chars().collect()] }, 400u64),
            (Config { senders: vec![(Hint::M(0), true)], ctrls: vec!["SD".chars().collect()] }, 400),
        ] {
            let (_, complete) = dfs(&mut s, &cfg, cap);
            s.stats.count(if complete { "dfs.config_exhausted" } else { "dfs.config_capped" });
        }
        for _ in 0..2000 {
            let cfg = gen_config(&mut rng, &mut s.stats);
            random_case(&mut s, &cfg, &mut rng);
        }
    }
    set_point_hook(None);
    s.finish(
        "barrier",
        "cases = complete schedules of the real TaskBlockingQueue (one op line per atomic step); configurations: k in 1..3 senders x hints N/B/M(term) x inner sender ok/retry x 0..2 controller programs over start/poll/drop/stop; schedules: DFS with sleep sets (exhaustive for the listed small configurations) + uniform / sticky / controller-first random; non-trivial = a sender ran while the barrier was observed closed (blocking_done && blocking) or a queued task was re-dispatched; distinct = distinct (configuration, schedule)",
    );
}
