//! C13 stream `recover`: broker state loss and the *production* epoch-recovery path.
//! A history is run on a real `MetaStore`; proxies (loopback TCP stand-ins answering
//! `UMCTL GETEPOCH`) install the epochs they are served; a snapshot is taken, the history goes on,
//! then a fresh `MemBrokerService` is built from the snapshot and its real `recover_epoch()` —
//! `fetch_max_epoch` over TCP, the service's `+ 1`, the storage's `+ 1`, `MetaStore::recover_epoch`
//! — is run. The op lines use the grammar of the `broker` driver (see umh_broker.rs); `restart N`
//! carries N = (largest epoch held by a proxy the restored broker knows and can reach) + 1, i.e.
//! what the service must pass down, so the model predicts the recovered epochs exactly.
use serde_json::json;
use std::collections::{BTreeMap, BTreeSet, HashMap};
use std::convert::TryFrom;
use std::sync::{Arc, Mutex};
use tokio::io::{AsyncReadExt, AsyncWriteExt};
use umharness::broker_support::*;
use umharness::util::*;
use undermoon::broker::verif_export::store::{MetaStore, MetaStoreError};
use undermoon::broker::{JsonFileStorage, JsonMetaReplicator, MemBrokerConfig, MemBrokerService, StorageConfig};
use undermoon::common::cluster::{ClusterName, MigrationMeta, MigrationTaskMeta, Range, RangeList, SlotRange, SlotRangeTag};
use undermoon::common::config::ClusterConfig;

type Epochs = Arc<Mutex<HashMap<String, Option<u64>>>>; // address -> Some(installed epoch) | None (down)

async fn serve(listener: tokio::net::TcpListener, addr: String, epochs: Epochs) {
    loop {
        let (mut sock, _) = match listener.accept().await { Ok(x) => x, Err(_) => return };
        let epochs = epochs.clone();
        let addr = addr.clone();
        tokio::spawn(async move {
            let mut buf = vec![0u8; 4096];
            let mut acc: Vec<u8> = vec![];
            loop {
                let state = epochs.lock().unwrap().get(&addr).cloned().unwrap_or(Some(0));
                let e = match state { Some(e) => e, None => return }; // down: close at once
                let n = match sock.read(&mut buf).await { Ok(0) | Err(_) => return, Ok(n) => n };
                acc.extend_from_slice(&buf[..n]);
                while let Some(pos) = find(&acc, b"GETEPOCH\r\n") {
                    acc.drain(..pos + 10);
                    if sock.write_all(format!(":{}\r\n", e).as_bytes()).await.is_err() { return; }
                }
            }
        });
    }
}

fn find(h: &[u8], n: &[u8]) -> Option<usize> { h.windows(n.len()).position(|w| w == n) }

fn code(e: &MetaStoreError) -> String { e.to_code().to_string() }

fn cluster_proxy_set(store: &MetaStore, name: &str) -> BTreeSet<String> {
    ClusterName::try_from(name).ok().and_then(|cn| store.clusters.get(&cn).map(|c| c.chunks.iter().flat_map(|ch| ch.proxy_addresses.iter().cloned()).collect())).unwrap_or_default()
}

fn new_chunks(before: &BTreeSet<String>, store: &MetaStore, name: &str) -> String {
    let v: Vec<String> = ClusterName::try_from(name).ok().and_then(|cn| store.clusters.get(&cn).map(|c| c.chunks.iter()
        .filter(|ch| !before.contains(&ch.proxy_addresses[0]) && !before.contains(&ch.proxy_addresses[1]))
        .map(|ch| format!("{},{}", ch.proxy_addresses[0], ch.proxy_addresses[1])).collect())).unwrap_or_default();
    if v.is_empty() { "-".into() } else { v.join(";") }
}

fn parse_ranges(s: &str) -> Vec<Range> {
    s.split('+').filter_map(|r| { let mut it = r.split('-'); Some(Range(it.next()?.parse().ok()?, it.next()?.parse().ok()?)) }).collect()
}

/// one mutating op on the store (subset of umh_broker's grammar); returns (op line, observable)
fn exec(st: &mut MetaStore, toks: &[&str]) -> (String, String) {
    let fin = |st: &MetaStore, r: Result<String, MetaStoreError>| match r {
        Ok(x) => format!("OK{} g={}", x, st.global_epoch),
        Err(e) => format!("ERR {} g={}", code(&e), st.global_epoch),
    };
    match toks {
        ["add_proxy", a, n0, n1, h] => { let r = st.add_proxy(a.to_string(), [n0.to_string(), n1.to_string()], Some(h.to_string()), None); (toks.join(" "), fin(st, r.map(|_| String::new()))) }
        ["remove_proxy", a] => { let r = st.remove_proxy(a.to_string()); (toks.join(" "), fin(st, r.map(|_| String::new()))) }
        ["add_cluster", n, k, _] => { let before = cluster_proxy_set(st, n); let ex = !before.is_empty();
            let r = st.add_cluster(n.to_string(), k.parse().unwrap_or(0), ClusterConfig::default());
            let c = if r.is_ok() && !ex { new_chunks(&before, st, n) } else { "-".into() }; (format!("add_cluster {} {} {}", n, k, c), fin(st, r.map(|_| String::new()))) }
        ["scale_up", n, k, _] => { let before = cluster_proxy_set(st, n); let r = st.auto_scale_up_nodes(n.to_string(), k.parse().unwrap_or(0));
            let c = if r.is_ok() { new_chunks(&before, st, n) } else { "-".into() }; (format!("scale_up {} {} {}", n, k, c), fin(st, r.map(|_| String::new()))) }
        ["migrate", n] => { let r = st.migrate_slots(n.to_string()); (toks.join(" "), fin(st, r.map(|_| String::new()))) }
        ["scale_down", n, k] => { let r = st.migrate_slots_to_scale_down(n.to_string(), k.parse().unwrap_or(0)); (toks.join(" "), fin(st, r.map(|_| String::new()))) }
        ["balance", n] => { let r = st.balance_masters(n.to_string()); (toks.join(" "), fin(st, r.map(|_| String::new()))) }
        ["commit", n, e, rs, tag, clear] => {
            let meta = MigrationMeta { epoch: e.parse().unwrap_or(0), src_proxy_address: "x".into(), src_node_address: "x".into(), dst_proxy_address: "x".into(), dst_node_address: "x".into() };
            let tagv = if *tag == "I" { SlotRangeTag::Importing(meta) } else { SlotRangeTag::Migrating(meta) };
            match ClusterName::try_from(*n) { Ok(cn) => {
                let task = MigrationTaskMeta { cluster_name: cn, slot_range: SlotRange { range_list: RangeList::new(parse_ranges(rs)), tag: tagv } };
                let r = st.commit_migration(task, *clear == "1"); (toks.join(" "), fin(st, r.map(|_| String::new()))) }
              Err(_) => (toks.join(" "), "bad-op".into()) } }
        ["failover", a, _] => { let r = st.replace_failed_proxy(a.to_string(), 0);
            let (c, r2) = match r { Ok(Some(p)) => (p.get_address().to_string(), Ok(format!(" {}", p.get_address()))), Ok(None) => ("-".into(), Ok(" none".into())), Err(e) => ("-".into(), Err(e)) };
            (format!("failover {} {}", a, c), fin(st, r2)) }
        ["add_failure", a, rep, _] => { let b = st.add_failure(a.to_string(), rep.to_string());
            let ts = st.failures.get(*a).and_then(|m| m.get(*rep)).cloned().unwrap_or(0);
            (format!("add_failure {} {} {}", a, rep, ts), format!("OK {} g={}", b, st.global_epoch)) }
        _ => (toks.join(" "), "bad-op".into()),
    }
}

fn pending(store: &MetaStore) -> Vec<(String, u64, String)> {
    let mut v = vec![];
    for c in store.clusters.values() { for ch in c.chunks.iter() { for l in ch.migrating_slots.iter() { for m in l.iter() {
        if m.is_migrating { v.push((c.name.to_string(), m.meta.epoch, render_ranges(&m.range_list))); } } } } }
    v.sort(); v
}

fn main() {
    let args = parse_args();
    let mut rng = Rng::new(args.seed);
    let mut s = Streams::new(&args);
    let rt = tokio::runtime::Builder::new_multi_thread().worker_threads(2).enable_all().build().expect("rt");
    let epochs: Epochs = Arc::new(Mutex::new(HashMap::new()));
    // a pool of loopback stand-ins; proxy addresses of every case are drawn from it
    let pool: Vec<String> = rt.block_on(async {
        let mut v = vec![];
        for _ in 0..14 {
            let l = tokio::net::TcpListener::bind("127.0.0.1:0").await.expect("bind");
            let a = format!("127.0.0.1:{}", l.local_addr().expect("addr").port());
            tokio::spawn(serve(l, a.clone(), epochs.clone()));
            v.push(a);
        }
        v
    });
    let replay: Option<Vec<String>> = args.replay.as_ref().map(|p| read_lines(p).into_iter().filter(|l| !l.starts_with('#') && !l.starts_with("case ")).collect());
    let cases = if replay.is_some() { 1 } else if args.thorough { 3000 } else { 200 };
    for _case in 0..cases {
        let cid = s.case();
        let mut ops: Vec<String> = vec![];
        let mut store = MetaStore::new(false);
        let mut snapshot: Option<MetaStore> = None;
        let mut floor: Option<u64> = None;
        for a in pool.iter() { epochs.lock().unwrap().insert(a.clone(), Some(0)); }
        // plan of the case: op lines with `@i` standing for pool address i (ports differ between runs)
        let mut plan: Vec<String> = vec![];
        if let Some(r) = &replay { plan = r.clone(); } else {
            let k = rng.range(5, 12) as usize;
            for i in 0..k { plan.push(format!("add_proxy @{} n{}:1 n{}:2 h{}", i, i, i, i % rng.range(2, 4) as usize)); }
            plan.push(format!("add_cluster c0 {} -", *rng.pick(&[4, 4, 8])));
            let n = rng.range(6, 16);
            let snap_at = rng.range(1, n - 2);
            for j in 0..n {
                if j == snap_at { plan.push("snap".into()); }
                plan.push("RANDOM".into());
            }
            plan.push("restart 0".into());
            for _ in 0..rng.range(1, 4) { plan.push("RANDOM".into()); }
        }
        for step in plan {
            let mut line = step.clone();
            if line == "RANDOM" {
                let proxies: Vec<String> = { let mut v: Vec<String> = store.all_proxies.keys().cloned().collect(); v.sort(); v };
                let in_cluster: Vec<String> = proxies_in_clusters(&store).into_iter().collect();
                let free: Vec<String> = proxies.iter().filter(|a| store.all_proxies[*a].cluster.is_none()).cloned().collect();
                let unused: Vec<String> = pool.iter().filter(|a| !store.all_proxies.contains_key(*a)).cloned().collect();
                let pend = pending(&store);
                let cur = store.clusters.values().next().map(|c| c.chunks.len() * 4).unwrap_or(0);
                line = match rng.below(12) {
                    0 | 1 if !pend.is_empty() => { let (n, e, rs) = rng.pick(&pend).clone(); format!("commit {} {} {} {} 1", n, e, rs, rng.pick(&["M", "I"])) }
                    0 | 1 | 2 => format!("scale_up c0 {} -", cur + 4),
                    3 => "migrate c0".into(),
                    4 | 5 if !in_cluster.is_empty() => format!("failover {} -", rng.pick(&in_cluster)),
                    6 if !free.is_empty() => format!("failover {} -", rng.pick(&free)),
                    7 if !proxies.is_empty() => format!("add_failure {} r{} 0", rng.pick(&proxies), rng.below(2)),
                    8 if !free.is_empty() => format!("remove_proxy {}", rng.pick(&free)),
                    9 if !unused.is_empty() => { let a = rng.pick(&unused).clone(); format!("add_proxy {} x{}:1 x{}:2 h{}", a, rng.below(99), rng.below(99), rng.below(3)) }
                    9 | 10 if !proxies.is_empty() => format!("add_proxy {} y:1 y:2 h0", rng.pick(&proxies)), // re-register
                    _ => "balance c0".into(),
                };
            }
            // resolve pool references
            let line = line.split(' ').map(|t| t.strip_prefix('@').and_then(|i| i.parse::<usize>().ok()).and_then(|i| pool.get(i).cloned()).unwrap_or_else(|| t.to_string())).collect::<Vec<_>>().join(" ");
            let toks: Vec<&str> = line.split(' ').collect();
            let (op, obs) = match toks.as_slice() {
                ["snap"] => { snapshot = Some(store.clone()); ("snap".to_string(), format!("snap g={}", store.global_epoch)) }
                ["restart", _] if snapshot.is_some() => {
                    let snap = snapshot.clone().expect("snap");
                    // some proxies are unreachable at recovery time
                    let mut down: BTreeSet<String> = BTreeSet::new();
                    if replay.is_none() { for a in snap.all_proxies.keys() { if rng.chance(1, 8) { down.insert(a.clone()); } } }
                    let installed: BTreeMap<String, u64> = epochs.lock().unwrap().iter().filter_map(|(a, e)| e.map(|e| (a.clone(), e))).collect();
                    for a in down.iter() { epochs.lock().unwrap().insert(a.clone(), None); }
                    // what the property's premise calls "the largest epoch held by any proxy": over the proxies the
                    // restored broker knows (every registered address of the snapshot, failed ones included) and reaches
                    let e = snap.all_proxies.keys().filter(|a| !down.contains(*a)).filter_map(|a| installed.get(a)).cloned().max().unwrap_or(0);
                    let cfg = MemBrokerConfig { address: "127.0.0.1:0".into(), failure_ttl: 60, failure_quorum: 1, migration_limit: 0,
                        recover_from_meta_file: false, meta_filename: "/nonexistent/umh_recover.json".into(), auto_update_meta_file: false,
                        update_meta_file_interval: None, replica_addresses: Arc::new(arc_swap::ArcSwap::new(Arc::new(vec![]))),
                        sync_meta_interval: None, enable_ordered_proxy: false, storage: StorageConfig::Memory, debug: false };
                    let res = rt.block_on(async {
                        let svc = MemBrokerService::new(cfg, ClusterConfig::default(), Arc::new(JsonFileStorage::new("/nonexistent/umh_recover.json".into())),
                            Arc::new(JsonMetaReplicator::new(Arc::new(arc_swap::ArcSwap::new(Arc::new(vec![]))), reqwest_client())), Some(snap.clone())).map_err(|e| code(&e))?;
                        let failed = svc.recover_epoch().await.map_err(|e| code(&e))?;
                        let data = svc.get_all_data().await.map_err(|e| code(&e))?;
                        Ok::<_, String>((failed, data))
                    });
                    for a in down.iter() { epochs.lock().unwrap().insert(a.clone(), installed.get(a).cloned().or(Some(0))); }
                    match res {
                        Ok((failed, data)) => {
                            let mut f: Vec<String> = failed; f.sort();
                            let want: Vec<String> = down.iter().cloned().collect();
                            if f != want { let r = ops.clone(); s.stats.oracle_failure(cid, &format!("C13: recover_epoch reported unreachable {:?}, expected {:?}", f, want), "", r); }
                            store = data; floor = Some(e);
                            s.stats.count("restart.service_path"); if !down.is_empty() { s.stats.count("restart.with_unreachable"); }
                            (format!("restart {}", e + 1), format!("OK g={}", store.global_epoch))
                        }
                        Err(c) => (format!("restart {}", e + 1), format!("ERR {}", c)),
                    }
                }
                _ => exec(&mut store, &toks),
            };
            s.stats.count(&format!("op.{}", toks[0]));
            ops.push(op.clone());
            s.op(&op, &obs);
            let st = render_store(&store);
            ops.push("state".into());
            s.op("state", &st);
            // proxies install what they are served (most of the time); C13 oracle on served epochs
            let views = all_views(&store, 0);
            for (a, p) in views.proxies.iter() {
                let e = p["epoch"].as_u64().unwrap_or(0);
                if let Some(fl) = floor { if e <= fl {
                    let r = ops.clone();
                    s.stats.oracle_failure(cid, &format!("C13: after recovery with largest reachable proxy epoch {}, {} is served epoch {}", fl, a, e), "", r);
                } }
                if rng.chance(4, 5) { let mut g = epochs.lock().unwrap(); if let Some(Some(cur)) = g.get(a).cloned() { if e > cur { g.insert(a.clone(), Some(e)); } } }
            }
        }
        if floor.is_some() { s.stats.nontrivial_case(&ops.join("\n")); }
        if cid == 1 { s.stats.sample(json!({"ops": ops.iter().filter(|l| *l != "state").take(30).cloned().collect::<Vec<_>>()})); }
    }
    s.finish("recover", "histories on MetaStore with loopback UMCTL GETEPOCH stand-ins installing served epochs; snapshot at a random prefix, history continues, then a fresh MemBrokerService restored from the snapshot runs the production recover_epoch() (TCP fetch, some proxies unreachable); non-trivial = a case that reached the service-path recovery; distinct = distinct op sequences");
}

fn reqwest_client() -> reqwest::Client { reqwest::Client::new() }
