//! C09 — key → slot → node routing of one proxy.
//!
//! Drives the real `generate_slot` / `get_hash_tag` / `same_slot` / `crc16` crate, the real
//! `SlotMapData` and the real `ForwardHandler` (→ `MetaManager` → `ClusterBackendMap` → `LocalCluster`
//! / `RemoteCluster`) over recording fake backends; prints one canonical line per operation for the
//! Lean driver `route9`. The oracle (Redis-Cluster reference hash + "executed only where the slot
//! lives") is evaluated here on the implementation's observables, independent of the Lean model.
use crc16::{State, ARC, XMODEM};
use serde_json::json;
use std::collections::{BTreeMap, BTreeSet, HashMap};
use std::iter::Peekable;
use umharness::route_support::*;
use umharness::util::*;
use undermoon::common::proto::ProxyClusterMeta;
use undermoon::common::response::{ERR_NOT_THE_SAME_SLOT, ERR_TOO_MANY_REDIRECTIONS};
use undermoon::common::utils::{generate_lock_slot, generate_slot, get_hash_tag, same_slot, SLOT_NUM};
use undermoon::protocol::{Resp, RespVec};
use undermoon::proxy::verif_export::slot::SlotMapData;

// ------------------------------------------------------------------------------------------
// reference for the oracle: Redis Cluster specification (keyHashSlot + CRC16-CCITT/XMODEM)
// ------------------------------------------------------------------------------------------
fn ref_crc16(buf: &[u8]) -> u16 {
    let mut crc: u16 = 0;
    for b in buf {
        crc ^= (*b as u16) << 8;
        for _ in 0..8 {
            crc = if crc & 0x8000 != 0 { (crc << 1) ^ 0x1021 } else { crc << 1 };
        }
    }
    crc
}

fn ref_hash_tag(key: &[u8]) -> &[u8] {
    let s = match key.iter().position(|c| *c == b'{') {
        Some(s) => s,
        None => return key,
    };
    let rest = &key[s + 1..];
    match rest.iter().position(|c| *c == b'}') {
        Some(0) | None => key,
        Some(e) => &rest[..e],
    }
}

fn ref_slot(key: &[u8]) -> usize {
    (ref_crc16(ref_hash_tag(key)) & 0x3FFF) as usize
}

// ------------------------------------------------------------------------------------------
// layouts
// ------------------------------------------------------------------------------------------
type Ranges = Vec<(usize, usize)>;

/// node → its `SlotRange`s as raw range lists (before `RangeList::new` compaction)
#[derive(Clone, Debug)]
struct NodeSpec {
    addr: String,
    slot_ranges: Vec<Ranges>,
}

#[derive(Clone, Debug)]
struct Layout {
    name: String,
    local: Vec<NodeSpec>,
    peer: Vec<NodeSpec>,
}

fn body_args(l: &Layout) -> Vec<String> {
    let mut v = vec![];
    let push = |v: &mut Vec<String>, nodes: &[NodeSpec]| {
        for n in nodes {
            for sr in &n.slot_ranges {
                v.push(n.addr.clone());
                v.push(sr.len().to_string());
                for (s, e) in sr {
                    v.push(format!("{}-{}", s, e));
                }
            }
        }
    };
    push(&mut v, &l.local);
    if !l.peer.is_empty() {
        v.push("PEER".to_string());
        push(&mut v, &l.peer);
    }
    v
}

/// what `SlotMap::from_ranges` will see: per node the flattened (start, end) pairs after the real
/// parser's compaction, nodes sorted by address (the visiting order is resolved later)
fn installed_maps(l: &Layout) -> Result<(Vec<(String, Ranges)>, Vec<(String, Ranges)>), String> {
    let mut toks = vec![
        undermoon::common::proto::SET_CLUSTER_API_VERSION.to_string(),
        "1".to_string(),
        "NOFLAGS".to_string(),
        l.name.clone(),
    ];
    toks.extend(body_args(l));
    let mut it: Peekable<_> = toks.into_iter().peekable();
    let (meta, _) = ProxyClusterMeta::parse(&mut it).map_err(|e| format!("{:?}", e))?;
    let flat = |m: &HashMap<String, Vec<undermoon::common::cluster::SlotRange>>| {
        let mut v: Vec<(String, Ranges)> = m
            .iter()
            .map(|(a, srs)| {
                let mut rs = vec![];
                for sr in srs {
                    for r in sr.get_range_list().get_ranges() {
                        rs.push((r.start(), r.end()));
                    }
                }
                (a.clone(), rs)
            })
            .collect();
        v.sort();
        v
    };
    Ok((flat(meta.get_local()), flat(meta.get_peer())))
}

fn covers(rs: &Ranges, slot: usize) -> bool {
    slot < SLOT_NUM && rs.iter().any(|(s, e)| *s <= slot && slot <= *e)
}

fn coverers(nodes: &[(String, Ranges)], slot: usize) -> Vec<String> {
    nodes.iter().filter(|(_, rs)| covers(rs, slot)).map(|(a, _)| a.clone()).collect()
}

/// one representative slot per maximal segment on which every node's coverage is constant
fn segment_starts(maps: &[&[(String, Ranges)]]) -> Vec<usize> {
    let mut b: BTreeSet<usize> = BTreeSet::new();
    b.insert(0);
    for m in maps {
        for (_, rs) in m.iter() {
            for (s, e) in rs {
                if *s < SLOT_NUM {
                    b.insert(*s);
                }
                if e.checked_add(1).map(|x| x < SLOT_NUM).unwrap_or(false) {
                    b.insert(e + 1);
                }
            }
        }
    }
    b.into_iter().collect()
}

/// a visiting order consistent with the observed winners (winner = visited last among the nodes
/// that list the slot)
fn resolve_order(nodes: &[(String, Ranges)], obs: &[(usize, String)]) -> Result<Vec<(String, Ranges)>, String> {
    let n = nodes.len();
    let idx: HashMap<&str, usize> = nodes.iter().enumerate().map(|(i, (a, _))| (a.as_str(), i)).collect();
    let mut before: Vec<BTreeSet<usize>> = vec![BTreeSet::new(); n]; // before[w] = nodes visited before w
    for (slot, w) in obs {
        let c = coverers(nodes, *slot);
        if !c.contains(w) {
            return Err(format!("slot {} resolved to {} which does not list it (listed by {:?})", slot, w, c));
        }
        let wi = *idx.get(w.as_str()).ok_or("unknown winner")?;
        for a in c {
            let ai = *idx.get(a.as_str()).ok_or("unknown node")?;
            if ai != wi {
                before[wi].insert(ai);
            }
        }
    }
    let mut done = vec![false; n];
    let mut order = vec![];
    for _ in 0..n {
        let next = (0..n).find(|i| !done[*i] && before[*i].iter().all(|j| done[*j]));
        match next {
            Some(i) => {
                done[i] = true;
                order.push(nodes[i].clone());
            }
            None => return Err("observed winners are not consistent with any visiting order".to_string()),
        }
    }
    Ok(order)
}

fn nodes_text(nodes: &[(String, Ranges)]) -> String {
    if nodes.is_empty() {
        return "-".to_string();
    }
    nodes
        .iter()
        .map(|(a, rs)| format!("{}={}", a, rs.iter().map(|(s, e)| format!("{}-{}", s, e)).collect::<Vec<_>>().join(",")))
        .collect::<Vec<_>>()
        .join(";")
}

fn parse_nodes_text(s: &str) -> Option<Vec<(String, Ranges)>> {
    if s == "-" {
        return Some(vec![]);
    }
    let mut v = vec![];
    for n in s.split(';') {
        let (a, rs) = n.split_once('=')?;
        let mut ranges = vec![];
        if !rs.is_empty() {
            for r in rs.split(',') {
                let (x, y) = r.split_once('-')?;
                ranges.push((x.parse().ok()?, y.parse().ok()?));
            }
        }
        v.push((a.to_string(), ranges));
    }
    Some(v)
}

// ------------------------------------------------------------------------------------------
// generators
// ------------------------------------------------------------------------------------------
struct Gen {
    rng: Rng,
    key_for_slot: Vec<Vec<u8>>,
}

const BRACE_KEYS: [&[u8]; 30] = [
    b"{", b"}", b"{}", b"{}x", b"x{}", b"{}{a}", b"{a}{b}", b"}{", b"}a{b}", b"{{a}}", b"{a{b}c}", b"a{", b"a{b", b"a}b",
    b"{a", b"{a}", b"x{a}y", b"{a}}", b"{{}}", b"{}{}", b"}{}", b"}{a}", b"foo{}{bar}", b"foo{{bar}}", b"foo{bar}{zap}",
    b"{user1000}.following", b"{}xxxxx", b"{\x00}", b"\xff{\xfe}\xfd", b"",
];

impl Gen {
    fn key(&mut self, st: &mut Stats) -> Vec<u8> {
        match self.rng.below(9) {
            0 => { st.count("gen.key.brace_corpus"); self.rng.pick(&BRACE_KEYS).to_vec() }
            1 => { st.count("gen.key.plain"); format!("k{}", self.rng.below(100000)).into_bytes() }
            2 => { st.count("gen.key.tagged");
                   let t = self.rng.below(50);
                   match self.rng.below(3) {
                       0 => format!("{{t{}}}{}", t, self.rng.below(1000)).into_bytes(),
                       1 => format!("p{}{{t{}}}s{}", self.rng.below(10), t, self.rng.below(10)).into_bytes(),
                       _ => format!("{{t{}}}", t).into_bytes(),
                   } }
            3 => { st.count("gen.key.binary");
                   let n = self.rng.range(0, 12) as usize; self.rng.bytes(n) }
            4 => { st.count("gen.key.binary_braces");
                   let n = self.rng.range(0, 10) as usize;
                   let mut v = self.rng.bytes(n);
                   for _ in 0..self.rng.range(1, 4) {
                       let i = self.rng.below(v.len() as u64 + 1) as usize;
                       v.insert(i, *self.rng.pick(&[b'{', b'}']));
                   }
                   v }
            5 => { st.count("gen.key.brace_alphabet");
                   let n = self.rng.range(0, 7) as usize;
                   (0..n).map(|_| *self.rng.pick(&[b'{', b'}', b'a', b'b', 0u8])).collect() }
            6 => { st.count("gen.key.empty"); vec![] }
            _ => { st.count("gen.key.slot_representative");
                   let s = self.rng.below(SLOT_NUM as u64) as usize;
                   self.key_for_slot[s].clone() }
        }
    }

    /// a key that hashes to `slot` (different spellings through a hash tag)
    fn key_in_slot(&mut self, slot: usize) -> Vec<u8> {
        let base = self.key_for_slot[slot].clone();
        match self.rng.below(3) {
            0 => base,
            1 => { let mut v = b"{".to_vec(); v.extend(&base); v.extend(b"}"); v.extend(self.rng.below(100).to_string().bytes()); v }
            _ => { let mut v = b"x".to_vec(); v.extend(b"{"); v.extend(&base); v.extend(b"}y{z}"); v }
        }
    }

    fn layout(&mut self, st: &mut Stats) -> Layout {
        let r = self.rng.below(20);
        let name = if r == 0 { st.count("gen.layout.no_cluster"); String::new() } else { format!("c{}", self.rng.below(3)) };
        let n_local = *self.rng.pick(&[0usize, 1, 1, 2, 2, 3]);
        let n_peer = *self.rng.pick(&[0usize, 1, 2, 2, 3, 4]);
        let mut local: Vec<NodeSpec> = (0..n_local).map(|i| NodeSpec { addr: format!("127.0.0.1:70{:02}", i + 1), slot_ranges: vec![] }).collect();
        let mut peer: Vec<NodeSpec> = (0..n_peer).map(|i| NodeSpec { addr: format!("127.0.0.{}:5299", i + 2), slot_ranges: vec![] }).collect();
        // cut points: arbitrary boundaries, with clusters of adjacent points for single-slot ranges
        let mut cuts: BTreeSet<usize> = BTreeSet::new();
        cuts.insert(0);
        let k = self.rng.range(1, 10);
        for _ in 0..k {
            let c = match self.rng.below(6) {
                0 => *self.rng.pick(&[1usize, 2, 16383, 16382, 8192, 8191]),
                _ => self.rng.below(SLOT_NUM as u64) as usize,
            };
            cuts.insert(c);
            if self.rng.chance(1, 3) { cuts.insert((c + 1).min(SLOT_NUM - 1)); }
        }
        let cuts: Vec<usize> = cuts.into_iter().collect();
        let total = n_local + n_peer;
        let mut per_node: Vec<Ranges> = vec![vec![]; total];
        for (i, s) in cuts.iter().enumerate() {
            let e = cuts.get(i + 1).map(|n| n - 1).unwrap_or(SLOT_NUM - 1);
            if total == 0 { break; }
            match self.rng.below(10) {
                0 | 1 => { st.count("gen.layout.gap"); }
                _ => {
                    let o = self.rng.below(total as u64) as usize;
                    per_node[o].push((*s, e));
                }
            }
        }
        // overlaps: a node additionally lists a span that someone else may own
        if total > 0 && self.rng.chance(1, 2) {
            for _ in 0..self.rng.range(1, 3) {
                st.count("gen.layout.overlap_span");
                let o = if n_peer > 0 && self.rng.chance(3, 4) { n_local + self.rng.below(n_peer as u64) as usize } else { self.rng.below(total as u64) as usize };
                let s = self.rng.below(SLOT_NUM as u64) as usize;
                let len = *self.rng.pick(&[0usize, 1, 5, 100, 3000]);
                per_node[o].push((s, (s + len).min(SLOT_NUM - 1)));
            }
        }
        // oddities the parser accepts: reversed pair, end beyond the slot space, adjacent pieces
        if total > 0 && self.rng.chance(1, 6) {
            st.count("gen.layout.odd_range");
            let o = self.rng.below(total as u64) as usize;
            match self.rng.below(3) {
                0 => { let a = self.rng.below(SLOT_NUM as u64) as usize; per_node[o].push((a, a.saturating_sub(self.rng.below(50) as usize))); }
                1 => per_node[o].push((16000 + self.rng.below(384) as usize, 16384 + self.rng.below(5000) as usize)),
                _ => per_node[o].push((20000, 30000)),
            }
        }
        for (i, rs) in per_node.into_iter().enumerate() {
            // split the node's ranges over one or several SlotRange entries
            let mut srs: Vec<Ranges> = vec![];
            if rs.is_empty() {
                if self.rng.chance(1, 2) { srs.push(vec![]); st.count("gen.layout.node_without_slots"); }
            } else if self.rng.chance(1, 2) {
                srs.push(rs);
            } else {
                st.count("gen.layout.several_slot_ranges");
                for r in rs { if self.rng.chance(1, 2) || srs.is_empty() { srs.push(vec![r]); } else { srs.last_mut().expect("nonempty").push(r); } }
            }
            if i < n_local { local[i].slot_ranges = srs; } else { peer[i - n_local].slot_ranges = srs; }
        }
        local.retain(|n| !n.slot_ranges.is_empty());
        peer.retain(|n| !n.slot_ranges.is_empty());
        Layout { name, local, peer }
    }

    fn cfg(&mut self, st: &mut Stats) -> ProxyCfg {
        let ar = self.rng.chance(3, 10);
        st.count(if ar { "gen.cfg.active_redirection_on" } else { "gen.cfg.active_redirection_off" });
        let maxr = *self.rng.pick(&[None, None, Some(1usize), Some(2), Some(5)]);
        let da = if self.rng.chance(1, 5) { st.count("gen.cfg.default_redirection_address"); Some("127.0.0.9:5299".to_string()) } else { None };
        ProxyCfg { active_redirection: ar, max_redirections: maxr, default_redirection_address: da }
    }

    fn name_case(&mut self, name: &str) -> Vec<u8> {
        match self.rng.below(4) {
            0 => name.to_lowercase().into_bytes(),
            1 => name.bytes().map(|c| if self.rng.chance(1, 2) { c.to_ascii_lowercase() } else { c }).collect(),
            _ => name.as_bytes().to_vec(),
        }
    }

    /// wrap a client command as a peer proxy would send it: `UMFORWARD <times> <cmd…>`. The counter is a
    /// decimal string that the receiving side must use as a number only: half of the time it is chosen
    /// so that CRC16 of its *text* falls on the other side (local / peer / uncovered) than the slot of the
    /// command's key, so that routing by anything but the inner key shows.
    fn umforward(&mut self, st: &mut Stats, inner: Vec<Arg>, local: &[(String, Ranges)], peer: &[(String, Ranges)]) -> Vec<Arg> {
        st.count("gen.umforward");
        let side = |s: usize| -> u8 { if !coverers(local, s).is_empty() { 0 } else if !coverers(peer, s).is_empty() { 1 } else { 2 } };
        // nested wrappers are out of scope (the inner UMFORWARD would be routed as a data command by its counter)
        let inner: Vec<Arg> = if arg(&inner, 0).map(|n| upper(n)) == Some(b"UMFORWARD".to_vec()) { inner[2.min(inner.len())..].to_vec() } else { inner };
        let key_side: Option<u8> = match classify(&inner, true) {
            Shape::Single(i) => arg(&inner, i).map(|k| side(ref_slot(k))),
            Shape::Guarded(ks) | Shape::Unguarded(ks, _) => ks.first().map(|k| side(ref_slot(k))),
            _ => None,
        };
        let times: Arg = match self.rng.below(20) {
            0 => { st.count("gen.umforward.times_invalid");
                   Some(self.rng.pick(&[&b""[..], b"x", b"-1", b"-0", b"1.5", b" 1", b"1 ", b"+", b"0x1", b"18446744073709551616", b"\xff", b"\xc4\xb1", b"\xd9\xa1"]).to_vec()) }
            1 => { st.count("gen.umforward.times_nil"); None }
            2 | 3 => { st.count("gen.umforward.times_spelling");
                   Some(self.rng.pick(&[&b"+2"[..], b"002", b"+0", b"00", b"+18446744073709551615", b"000000000000000000000000001"]).to_vec()) }
            4..=9 => { st.count("gen.umforward.times_fixed");
                   Some(self.rng.pick(&[&b"0"[..], b"0", b"1", b"1", b"2", b"3", b"5", b"10", b"18446744073709551614", b"18446744073709551614", b"18446744073709551615"]).to_vec()) }
            _ => {
                // a counter whose text hashes to a different side than the key (or, for every 4th, the same side)
                let want_other = !self.rng.chance(1, 4);
                let start = self.rng.below(3000) as usize;
                let found = key_side.and_then(|ks| (0..4000usize).map(|i| (start + i) % 4000).find(|n| (side(ref_slot(n.to_string().as_bytes())) != ks) == want_other));
                match found {
                    Some(n) => { st.count(if want_other { "gen.umforward.times_hash_other_side" } else { "gen.umforward.times_hash_same_side" }); Some(n.to_string().into_bytes()) }
                    None => { st.count("gen.umforward.times_small"); Some(self.rng.below(4).to_string().into_bytes()) }
                }
            }
        };
        let mut a: Vec<Arg> = vec![Some(self.name_case("UMFORWARD")), times];
        if self.rng.chance(1, 40) { st.count("gen.umforward.no_inner"); if self.rng.chance(1, 2) { a.truncate(1); } return a; }
        a.extend(inner);
        a
    }

    /// keys for a multi-key command: same slot (via tags / representatives) or unrelated
    fn multi_keys(&mut self, st: &mut Stats, n: usize) -> Vec<Vec<u8>> {
        if self.rng.chance(1, 2) {
            st.count("gen.multikey.same_slot");
            let slot = self.rng.below(SLOT_NUM as u64) as usize;
            (0..n).map(|_| self.key_in_slot(slot)).collect()
        } else {
            st.count("gen.multikey.independent");
            (0..n).map(|_| self.key(st)).collect()
        }
    }

    fn cmd(&mut self, st: &mut Stats, hot_slots: &[usize]) -> Vec<Arg> {
        let some = |b: Vec<u8>| -> Arg { Some(b) };
        let hot_key = |g: &mut Gen, st: &mut Stats| -> Vec<u8> {
            if !hot_slots.is_empty() && g.rng.chance(1, 2) {
                st.count("gen.key.layout_boundary");
                let s = *g.rng.pick(hot_slots);
                g.key_in_slot(s)
            } else {
                g.key(st)
            }
        };
        let mut args: Vec<Arg> = match self.rng.below(24) {
            0..=5 => { st.count("gen.cmd.single_key");
                let name = *self.rng.pick(&["GET", "SET", "INCR", "HGET", "APPEND", "LPUSH", "DEL", "EXISTS", "TTL", "ZADD", "EVALSHA_", "GETX"]);
                let mut a = vec![some(self.name_case(name)), some(hot_key(self, st))];
                for _ in 0..self.rng.below(3) { a.push(some(b"v".to_vec())); }
                if name == "DEL" || name == "EXISTS" { a.truncate(2); }
                a }
            6 => { st.count("gen.cmd.no_key"); let name = *self.rng.pick(&["GET", "MGET", "DEL", "MSET", "MSETNX", "EVAL", "EVALSHA", "BLPOP", "RENAME"]);
                vec![some(self.name_case(name))] }
            7 | 8 => { st.count("gen.cmd.mget_del_exists");
                let name = *self.rng.pick(&["MGET", "MGET", "DEL", "EXISTS"]);
                let n = self.rng.range(1, 4) as usize;
                let mut a = vec![some(self.name_case(name))];
                for k in self.multi_keys(st, n) { a.push(some(k)); }
                a }
            9 | 10 => { st.count("gen.cmd.mset_msetnx");
                let name = *self.rng.pick(&["MSET", "MSETNX"]);
                let n = self.rng.range(1, 4) as usize;
                let mut a = vec![some(self.name_case(name))];
                for k in self.multi_keys(st, n) { a.push(some(k)); a.push(some(b"v".to_vec())); }
                if self.rng.chance(1, 6) { st.count("gen.cmd.mset_odd"); a.pop(); }
                a }
            11 | 12 => { st.count("gen.cmd.blocking");
                let name = *self.rng.pick(&["BLPOP", "BRPOP", "BZPOPMIN", "BZPOPMAX", "BRPOPLPUSH"]);
                let n = if name == "BRPOPLPUSH" { 2 } else { self.rng.range(1, 3) as usize };
                let mut a = vec![some(self.name_case(name))];
                for k in self.multi_keys(st, n) { a.push(some(k)); }
                match self.rng.below(8) {
                    0 => { st.count("gen.cmd.blocking_bad_timeout"); a.push(some(self.rng.pick(&[&b"x"[..], b"-1", b"", b"+1", b"1.5"]).to_vec())); }
                    1 => { st.count("gen.cmd.blocking_short"); a.truncate(2); }
                    _ => a.push(some(self.rng.pick(&[&b"0"[..], b"1", b"30"]).to_vec())),
                }
                a }
            13..=15 => { st.count("gen.cmd.eval");
                let name = *self.rng.pick(&["EVAL", "EVAL", "EVALSHA"]);
                let n = self.rng.range(0, 3) as usize;
                let numkeys: Vec<u8> = match self.rng.below(12) {
                    0 => { st.count("gen.cmd.eval_numkeys_odd"); self.rng.pick(&[&b"x"[..], b"", b"-0", b"+2", b"-1", b"2 ", b"18446744073709551616"]).to_vec() }
                    1 => { st.count("gen.cmd.eval_numkeys_wrap"); self.rng.pick(&[&b"18446744073709551615"[..], b"18446744073709551614", b"18446744073709551613"]).to_vec() }
                    2 => { st.count("gen.cmd.eval_numkeys_mismatch"); self.rng.range(0, 6).to_string().into_bytes() }
                    _ => n.to_string().into_bytes(),
                };
                let mut a = vec![some(self.name_case(name)), some(b"return 1".to_vec()), some(numkeys)];
                for k in self.multi_keys(st, n) { a.push(some(k)); }
                for _ in 0..self.rng.below(2) { a.push(some(b"arg".to_vec())); }
                if self.rng.chance(1, 20) { a.truncate(2); }
                a }
            16 => { st.count("gen.cmd.two_key_unguarded");
                let name = *self.rng.pick(&["RENAME", "RENAMENX", "SMOVE", "RPOPLPUSH"]);
                let mut a = vec![some(self.name_case(name))];
                for k in self.multi_keys(st, 2) { a.push(some(k)); }
                if name == "SMOVE" { a.push(some(b"m".to_vec())); }
                a }
            17 | 18 => { st.count("gen.cmd.cluster_keyslot");
                let sub = self.name_case("KEYSLOT");
                let mut a = vec![some(self.name_case("CLUSTER")), some(sub)];
                if !self.rng.chance(1, 10) { a.push(some(self.key(st))); }
                a }
            19 => { st.count("gen.cmd.cluster_other");
                let sub: Vec<u8> = match self.rng.below(4) {
                    0 => b"keyslots".to_vec(),
                    1 => { let n = self.rng.range(0, 5) as usize; self.rng.bytes(n) }
                    2 => self.rng.pick(&[&b"\xc3\xa9"[..], b"\xe2\x82\xac", b"\xf0\x9f\x98\x80", b"\xc0\xaf", b"\xed\xa0\x80", b"\xf4\x90\x80\x80", b"\xe0\x80\x80", b"KEYSLO\xd4", b"keyslo\x94"]).to_vec(),
                    _ => b"info".to_vec(),
                };
                let up = upper(&sub);
                let sub = if up == b"NODES" || up == b"SLOTS" { b"x".to_vec() } else { sub };
                let mut a = vec![some(self.name_case("CLUSTER"))];
                if !self.rng.chance(1, 8) { a.push(some(sub)); a.push(some(self.key(st))); }
                a }
            20 => { st.count("gen.cmd.keyless_type");
                let name = *self.rng.pick(&["PING", "ECHO", "SELECT", "ASKING", "QUIT", "HELLO"]);
                let mut a = vec![some(self.name_case(name))];
                for _ in 0..self.rng.below(3) { a.push(some(self.key(st))); }
                a }
            21 => { st.count("gen.cmd.odd_name");
                let name: Vec<u8> = match self.rng.below(4) {
                    0 => vec![b'G'; 65],
                    1 => { let mut v = b"MGET".to_vec(); v.extend(vec![b'X'; 61]); v }
                    2 => b"MGE\xd4".to_vec(),
                    _ => { let n = self.rng.range(0, 6) as usize; self.rng.bytes(n).into_iter().map(|c| if c == 0 { 1 } else { c }).collect() }
                };
                // keep clear of the command types this stream does not model
                let up = upper(&name);
                let name = if [&b"INFO"[..], b"AUTH", b"UMCTL", b"UMFORWARD", b"UMSYNC", b"CONFIG", b"COMMAND"].contains(&up.as_slice()) { b"GET".to_vec() } else { name };
                vec![some(name), some(hot_key(self, st)), some(self.key(st))] }
            22 => { st.count("gen.cmd.empty_or_nil_name");
                if self.rng.chance(1, 2) { vec![] } else { vec![None, some(self.key(st))] } }
            _ => { st.count("gen.cmd.multikey_hot");
                let name = *self.rng.pick(&["MGET", "DEL", "MSET", "EXISTS", "MSETNX"]);
                let mut a = vec![some(self.name_case(name))];
                for _ in 0..self.rng.range(2, 3) {
                    a.push(some(hot_key(self, st)));
                    if name == "MSET" || name == "MSETNX" { a.push(some(b"v".to_vec())); }
                }
                a }
        };
        // a non-bulk element somewhere (also at the first key of a blocking command: answered
        // "ERR invalid key argument" since /repo 0d5fc60, it used to poll forever)
        if args.len() >= 2 && self.rng.chance(1, 25) {
            st.count("gen.cmd.nil_argument");
            let i = self.rng.range(1, args.len() as i64 - 1) as usize;
            args[i] = None;
        }
        args
    }
}

// ------------------------------------------------------------------------------------------
// oracle
// ------------------------------------------------------------------------------------------
#[derive(Debug, Clone, PartialEq)]
enum Shape {
    Single(usize),
    Guarded(Vec<Vec<u8>>),
    Unguarded(Vec<Vec<u8>>, &'static str),
    Keyslot(Vec<u8>),
    Other,
}

fn arg<'a>(a: &'a [Arg], i: usize) -> Option<&'a Vec<u8>> {
    a.get(i).and_then(|x| x.as_ref())
}

fn somes(a: &[Arg], from: usize, to_excl: usize) -> Vec<Vec<u8>> {
    (from..to_excl.min(a.len())).filter_map(|i| arg(a, i).cloned()).collect()
}

fn numkeys(a: &[Arg]) -> Option<usize> {
    let s = std::str::from_utf8(arg(a, 2)?).ok()?;
    if s.is_empty() || !s.bytes().all(|c| c.is_ascii_digit()) { return None; }
    s.parse::<usize>().ok()
}

/// `as_data`: the command was unwrapped from `UMFORWARD` — `handle_umforward` hands it to
/// `handle_data_cmd` whatever its name, so the keyless / control names are single-key data commands there
/// (a name that is not a bulk string still has its element 1 hashed)
fn classify(a: &[Arg], as_data: bool) -> Shape {
    let name = match arg(a, 0) { Some(n) => n, None => return if as_data && !a.is_empty() { Shape::Single(1) } else { Shape::Other } };
    if name.len() > 64 { return Shape::Single(1); }
    let up = upper(name);
    match up.as_slice() {
        b"PING" | b"INFO" | b"AUTH" | b"QUIT" | b"ECHO" | b"SELECT" | b"UMCTL" | b"UMFORWARD" | b"UMSYNC" | b"CONFIG"
        | b"COMMAND" | b"ASKING" | b"HELLO" if !as_data => Shape::Other,
        b"CLUSTER" if !as_data => match (arg(a, 1), arg(a, 2)) {
            (Some(s), Some(k)) if upper(s) == b"KEYSLOT" => Shape::Keyslot(k.clone()),
            _ => Shape::Other,
        },
        b"MGET" => Shape::Guarded(somes(a, 1, a.len())),
        b"DEL" | b"EXISTS" => if arg(a, 2).is_some() { Shape::Guarded(somes(a, 1, a.len())) } else { Shape::Single(1) },
        b"MSET" | b"MSETNX" => Shape::Guarded((0..a.len() / 2).filter_map(|i| arg(a, 2 * i + 1).cloned()).collect()),
        b"BLPOP" | b"BRPOP" | b"BZPOPMIN" | b"BZPOPMAX" | b"BRPOPLPUSH" => Shape::Guarded(somes(a, 1, a.len().saturating_sub(1))),
        // EVALSHA shares EVAL's arm of handle_data_cmd since /repo 7ad1e99 (finding F09a, fixed)
        b"EVAL" | b"EVALSHA" => match numkeys(a) {
            Some(1) => Shape::Single(3),
            Some(n) if n <= 64 => Shape::Guarded(somes(a, 3, 3 + n)),
            _ => Shape::Other,
        },
        b"RENAME" | b"RENAMENX" | b"SMOVE" | b"RPOPLPUSH" => match (arg(a, 1), arg(a, 2)) {
            (Some(x), Some(y)) => Shape::Unguarded(vec![x.clone(), y.clone()], "F09b"),
            _ => Shape::Single(1),
        },
        _ => Shape::Single(1),
    }
}

/// keys a delivered (sub-)command operates on, as far as the fake backends' vocabulary goes
fn delivered_keys(c: &[Arg]) -> Vec<Vec<u8>> {
    let (c, fw): (&[Arg], bool) = if arg(c, 0).map(|n| upper(n)) == Some(b"UMFORWARD".to_vec()) { (c.get(2..).unwrap_or(&[]), true) } else { (c, false) };
    match classify(c, fw) {
        Shape::Single(i) => arg(c, i).cloned().into_iter().collect(),
        Shape::Guarded(k) | Shape::Unguarded(k, _) => k,
        _ => vec![],
    }
}

struct World {
    cfg: ProxyCfg,
    name: String,
    local: Vec<(String, Ranges)>,
    peer: Vec<(String, Ranges)>,
}

fn is_error(r: &Result<RespVec, String>) -> Option<Vec<u8>> {
    match r { Ok(Resp::Error(e)) => Some(e.clone()), _ => None }
}

/// the property on the implementation's observables; returns (what, finding id)
/// `UMFORWARD <times> <cmd…>`: Some(Ok((times, inner))) for a well-formed wrapper, Some(Err(())) for a
/// malformed one (`str::parse::<usize>` grammar: optional `+`, ASCII digits, no overflow), None otherwise
fn unwrap_forward(a: &[Arg]) -> Option<Result<(usize, &[Arg]), ()>> {
    if arg(a, 0).map(|n| upper(n)) != Some(b"UMFORWARD".to_vec()) { return None; }
    let t = match arg(a, 1) { Some(t) => t, None => return Some(Err(())) };
    let digits = t.strip_prefix(b"+").unwrap_or(t);
    if digits.is_empty() || !digits.iter().all(|c| c.is_ascii_digit()) { return Some(Err(())); }
    let mut n: u128 = 0;
    for d in digits { n = n * 10 + (*d - b'0') as u128; if n > u64::MAX as u128 { return Some(Err(())); } }
    if a.len() <= 2 { return Some(Err(())); }
    Some(Ok((n as usize, &a[2..])))
}

fn oracle(w: &World, a: &[Arg], reply: &Result<RespVec, String>, ds: &[Delivery]) -> Vec<(String, &'static str)> {
    let mut bad: Vec<(String, &'static str)> = vec![];
    // a command that arrives inside `UMFORWARD <times>` is the inner command with `times` redirections
    // left: executed locally iff the slot of *its* key is local, else MOVED to the owner / handed on
    // while times remain. The text of the counter must not take part in the routing.
    let (a, forwarded): (&[Arg], Option<usize>) = match unwrap_forward(a) {
        None => (a, None),
        Some(Ok((t, inner))) => (inner, Some(t)),
        Some(Err(())) => {
            if is_error(reply).is_none() || !ds.is_empty() { bad.push(("malformed UMFORWARD wrapper was not refused".into(), "")); }
            return bad;
        }
    };
    // redirections the command may still take when it has to be handed to a peer
    let budget: usize = forwarded.unwrap_or_else(|| w.cfg.max_redirections.map(|n| n - 1).unwrap_or(usize::MAX));
    let shape = classify(a, forwarded.is_some());
    let installed = !w.name.is_empty();
    let ar = w.cfg.active_redirection;
    let distinct = |ks: &[Vec<u8>]| ks.iter().map(|k| ref_slot(k)).collect::<BTreeSet<_>>().len();
    // (1) nothing is ever executed on a node that does not own the slot of every key it touches.
    // A delivered two-key command whose keys live in different slots can only be the product of the
    // known gap F09b (RENAME/RENAMENX/SMOVE/RPOPLPUSH incl. the RPOPLPUSH that BRPOPLPUSH is rewritten
    // to under active redirection); anything else is unexplained.
    let mut wrong_node = false;
    let mut wrong_known: Vec<&'static str> = vec![];
    for (addr, c) in ds {
        let inner: &[Arg] = if arg(c, 0).map(|n| upper(n)) == Some(b"UMFORWARD".to_vec()) { c.get(2..).unwrap_or(&[]) } else { c };
        let mut this_wrong = false;
        for k in delivered_keys(c) {
            let s = ref_slot(&k);
            let l = coverers(&w.local, s);
            let p = coverers(&w.peer, s);
            let ok = if w.local.iter().any(|(x, _)| x == addr) { l.contains(addr) }
                     else { ar && l.is_empty() && p.contains(addr) };
            if !ok { this_wrong = true; }
        }
        if this_wrong {
            match classify(inner, inner.len() != c.len()) {
                Shape::Unguarded(ks, f) if distinct(&ks) >= 2 => wrong_known.push(f),
                _ => wrong_node = true,
            }
        }
    }
    for f in wrong_known.iter() {
        let what = "two-key command (RENAME/RENAMENX/SMOVE/RPOPLPUSH, BRPOPLPUSH under active redirection) with keys in different slots is executed on the owner of the first key";
        bad.push((what.into(), *f));
    }
    match &shape {
        Shape::Keyslot(k) => {
            let want = Resp::Integer(ref_slot(k).to_string().into_bytes());
            if reply.as_ref().ok() != Some(&want) { bad.push(("CLUSTER KEYSLOT differs from the Redis Cluster slot".into(), "")); }
            if !ds.is_empty() { bad.push(("CLUSTER KEYSLOT reached a backend".into(), "")); }
        }
        Shape::Single(i) => {
            if wrong_node { bad.push(("single-key command executed on a node that does not own the slot".into(), "")); }
            if let Some(k) = arg(a, *i) {
                let s = ref_slot(k);
                let l = coverers(&w.local, s);
                let p = coverers(&w.peer, s);
                if !installed {
                    if !ds.is_empty() || is_error(reply).is_none() { bad.push(("command executed although no cluster is installed".into(), "")); }
                } else if !l.is_empty() {
                    let ok = ds.len() == 1 && l.contains(&ds[0].0) && ds[0].1 == a;
                    if !ok { bad.push((format!("slot {} is local but the command was not executed exactly once on an owner", s), "")); }
                } else if !p.is_empty() {
                    if !ar {
                        let ok = ds.is_empty() && p.iter().any(|x| reply.as_ref().ok() == Some(&Resp::Error(format!("MOVED {} {}", s, x).into_bytes())));
                        if !ok { bad.push((format!("slot {} lives on a peer but the reply is not MOVED to a peer listing it", s), "")); }
                    } else {
                        let too_many = reply.as_ref().ok() == Some(&Resp::Error(ERR_TOO_MANY_REDIRECTIONS.as_bytes().to_vec()));
                        let ok = if budget == 0 { ds.is_empty() && too_many } else {
                            let mut want: Vec<Arg> = vec![Some(b"UMFORWARD".to_vec()), Some((budget - 1).to_string().into_bytes())];
                            want.extend(a.iter().cloned());
                            ds.len() == 1 && p.contains(&ds[0].0) && ds[0].1 == want
                        };
                        if !ok { bad.push((format!("slot {} lives on a peer but the command was not forwarded to a peer listing it with {} redirections left (refused when none is left)", s, budget.saturating_sub(1)), "")); }
                    }
                } else if !ds.is_empty() || is_error(reply).is_none() {
                    bad.push((format!("slot {} is covered by nobody but the command did not fail", s), ""));
                }
            } else if !ds.is_empty() {
                bad.push(("command without key reached a backend".into(), ""));
            }
        }
        Shape::Guarded(ks) => {
            let is_eval = matches!(arg(a, 0).map(|n| upper(n)).as_deref(), Some(b"EVAL") | Some(b"EVALSHA"));
            if distinct(ks) >= 2 && (!ar || is_eval) {
                if is_error(reply).is_none() || !ds.is_empty() {
                    bad.push(("cross-slot multi-key command was not refused / was partially executed".into(), ""));
                }
            } else if wrong_node {
                bad.push(("multi-key command: a sub-command ran on a node that does not own its slot".into(), ""));
            }
        }
        Shape::Unguarded(ks, finding) => {
            if distinct(ks) >= 2 && !ar && installed && wrong_known.is_empty() {
                if is_error(reply).is_none() || !ds.is_empty() {
                    // not refused although nothing ran on a wrong node (both slots on the same node)
                    let what = "two-key command (RENAME/RENAMENX/SMOVE/RPOPLPUSH) with keys in different slots is not refused (both slots happen to live on the executing node)";
                    bad.push((what.into(), *finding));
                }
            }
            if wrong_node {
                bad.push(("multi-key command executed on a node that does not own the slot".into(), ""));
            }
        }
        Shape::Other => {
            if wrong_node { bad.push(("command executed on a node that does not own the slot".into(), "")); }
        }
    }
    bad
}

// ------------------------------------------------------------------------------------------
// stream
// ------------------------------------------------------------------------------------------
struct Run {
    s: Streams,
    proxy: Proxy,
    world: World,
    case_flags: BTreeMap<&'static str, u64>,
    case_ops: Vec<String>,
}

fn canon_reply(a: &[Arg], r: &Result<RespVec, String>) -> String {
    let a: &[Arg] = match unwrap_forward(a) { Some(Ok((_, inner))) => inner, _ => a };
    match r {
        Ok(Resp::Error(e)) if e.starts_with(b"ERR: Invalid `numkeys`") && matches!(arg(a, 0).map(|n| upper(n)).as_deref(), Some(b"EVAL") | Some(b"EVALSHA")) => {
            format!("E:{}", hex(b"ERR: Invalid `numkeys`"))
        }
        Ok(resp) => render_resp(resp),
        Err(e) => format!("ERR-RESULT:{}", e),
    }
}

impl Run {
    fn emit(&mut self, op: String, observed: String) {
        self.case_ops.push(op.clone());
        self.s.op(&op, &observed);
    }

    fn new_case(&mut self) {
        self.case_flags.clear();
        self.case_ops.clear();
        self.s.case();
    }

    async fn do_cfg(&mut self, cfg: ProxyCfg) {
        let op = format!(
            "cfg ar={} maxr={} defaddr={}",
            if cfg.active_redirection { 1 } else { 0 },
            cfg.max_redirections.map(|n| n.to_string()).unwrap_or_else(|| "-".into()),
            cfg.default_redirection_address.clone().unwrap_or_else(|| "-".into())
        );
        self.proxy = Proxy::new(&cfg);
        self.world = World { cfg, name: String::new(), local: vec![], peer: vec![] };
        self.emit(op, "ok".into());
    }

    /// run a client command on the real proxy; returns the op line pieces
    async fn exec(&mut self, a: &[Arg]) -> (String, String, Result<RespVec, String>, Vec<Delivery>) {
        let (reply, ds) = self.proxy.run(a).await;
        let mut op = format!("cmd {}", a.iter().map(render_arg).collect::<Vec<_>>().join(" "));
        if a.is_empty() { op = "cmd".to_string(); }
        // HashMap-order dependent choice (MSETNX groups under active redirection): hand the observed
        // error to the model, which checks that it is one of the allowed ones
        let data: &[Arg] = match unwrap_forward(a) { Some(Ok((_, inner))) => inner, _ => a };
        if self.world.cfg.active_redirection && arg(data, 0).map(|n| upper(n)) == Some(b"MSETNX".to_vec()) {
            if let Some(e) = is_error(&reply) {
                op.push_str(&format!(" pick={}", hex(&e)));
            }
        }
        let observed = format!("{} | {}", canon_reply(a, &reply), render_deliveries(&ds));
        (op, observed, reply, ds)
    }

    async fn do_cmd(&mut self, a: &[Arg]) {
        let (op, observed, reply, ds) = self.exec(a).await;
        self.after_cmd(a, &op, &reply, &ds);
        self.emit(op, observed);
    }

    fn after_cmd(&mut self, a: &[Arg], op: &str, reply: &Result<RespVec, String>, ds: &[Delivery]) {
        let st = &mut self.s.stats;
        let kind = match reply {
            Ok(Resp::Error(e)) if e.starts_with(b"MOVED ") => "out.moved",
            Ok(Resp::Error(e)) if e.starts_with(ERR_NOT_THE_SAME_SLOT.as_bytes()) => "out.not_same_slot",
            Ok(Resp::Error(e)) if e.starts_with(b"slot not covered") => "out.slot_not_covered",
            Ok(Resp::Error(e)) if e.starts_with(b"ERR_CLUSTER_NOT_FOUND") => "out.cluster_not_found",
            Ok(Resp::Error(e)) if e.starts_with(b"missing key") => "out.missing_key",
            Ok(Resp::Error(e)) if e.starts_with(ERR_TOO_MANY_REDIRECTIONS.as_bytes()) => "out.too_many_redirections",
            Ok(Resp::Error(_)) => "out.other_error",
            Ok(_) if ds.iter().any(|(x, _)| self.world.peer.iter().any(|(p, _)| p == x)) => "out.forwarded",
            Ok(_) if !ds.is_empty() => "out.executed",
            Ok(_) => "out.local_reply",
            Err(_) => "out.err_result",
        };
        st.count(kind);
        if let Some(Ok(_)) = unwrap_forward(a) { st.count(&format!("{}.umforward_arrival", kind)); }
        *self.case_flags.entry(kind).or_insert(0) += 1;
        if ds.len() > 1 { st.count("out.several_backend_deliveries"); }
        for (what, finding) in oracle(&self.world, a, reply, ds) {
            let c = self.s.cases;
            if !finding.is_empty() {
                // known classes are counted; only the first few replays of each are kept so that the
                // failure list keeps room for anything unexplained
                self.s.stats.count(&format!("oracle.{}", finding));
                let n = self.s.stats.counters.get(&format!("oracle.{}", finding)).copied().unwrap_or(0);
                if n > 3 { continue; }
            }
            let mut replay: Vec<String> = self.case_ops.iter().filter(|l| l.starts_with("cfg ") || l.starts_with("install ")).cloned().collect();
            replay.push(op.split(" pick=").next().unwrap_or(op).to_string());
            self.s.stats.oracle_failure(c, &what, finding, replay);
        }
    }

    /// install a layout through `UMCTL SETCLUSTER`, resolve the visiting order of both slot maps by
    /// probing one slot per segment with several listing nodes, emit `install` + the probes
    async fn do_install(&mut self, l: &Layout, gen: &Gen) {
        let (local, peer) = match installed_maps(l) {
            Ok(x) => x,
            Err(e) => { self.s.stats.count("gen.layout.rejected_by_parser"); let _ = e; return; }
        };
        let body = body_args(l);
        let r = self.proxy.set_cluster(&l.name, &body).await;
        let ok = matches!(&r, Ok(Resp::Simple(s)) if s == b"OK");
        self.world.name = l.name.clone();
        self.world.local = local.clone();
        self.world.peer = peer.clone();
        let mut probes: Vec<(String, String)> = vec![];
        let mut obs_local: Vec<(usize, String)> = vec![];
        let mut obs_peer: Vec<(usize, String)> = vec![];
        if ok && !l.name.is_empty() {
            for s in segment_starts(&[&local, &peer]) {
                let cl = coverers(&local, s);
                let cp = coverers(&peer, s);
                let need = cl.len() >= 2 || (cl.is_empty() && cp.len() >= 2);
                if !need { continue; }
                self.s.stats.count("out.overlap_probe");
                let mut a: Vec<Arg> = vec![Some(b"GET".to_vec()), Some(gen.key_for_slot[s].clone())];
                // with active redirection and max_redirections = 1 a client command has no redirection
                // left (ERR_TOO_MANY_REDIRECTIONS names no peer): probe as a peer proxy with one left
                if self.world.cfg.active_redirection && self.world.cfg.max_redirections == Some(1) && cl.is_empty() {
                    self.s.stats.count("out.overlap_probe_umforward");
                    a.splice(0..0, [Some(b"UMFORWARD".to_vec()), Some(b"1".to_vec())]);
                }
                let (op, observed, reply, ds) = self.exec(&a).await;
                let winner: Option<String> = if let Some((x, _)) = ds.first() { Some(x.clone()) } else {
                    match &reply {
                        Ok(Resp::Error(e)) if e.starts_with(b"MOVED ") => String::from_utf8_lossy(e).split(' ').nth(2).map(|x| x.to_string()),
                        _ => None,
                    }
                };
                if let Some(wn) = winner {
                    if cl.len() >= 2 { obs_local.push((s, wn)); } else { obs_peer.push((s, wn)); }
                }
                probes.push((op, observed));
                let (a2, r2, d2) = (a.clone(), reply, ds);
                let opline = probes.last().map(|p| p.0.clone()).unwrap_or_default();
                self.after_cmd(&a2, &opline, &r2, &d2);
            }
        }
        let mut fail = |run: &mut Run, what: String| {
            let c = run.s.cases;
            run.s.stats.oracle_failure(c, &what, "", vec![format!("install {} {} {}", if l.name.is_empty() { "-" } else { &l.name }, nodes_text(&local), nodes_text(&peer))]);
        };
        let lo = match resolve_order(&local, &obs_local) { Ok(o) => o, Err(e) => { fail(self, format!("local slot map: {}", e)); local.clone() } };
        let po = match resolve_order(&peer, &obs_peer) { Ok(o) => o, Err(e) => { fail(self, format!("peer slot map: {}", e)); peer.clone() } };
        let op = format!("install {} {} {}", if l.name.is_empty() { "-" } else { &l.name }, nodes_text(&lo), nodes_text(&po));
        let observed = match &r { Ok(Resp::Simple(s)) => String::from_utf8_lossy(s).to_string(), Ok(other) => render_resp(other), Err(e) => e.clone() };
        self.emit(op, observed);
        for (o, ob) in probes { self.emit(o, ob); }
    }

    fn do_crc(&mut self, key: &[u8]) {
        let x = State::<XMODEM>::calculate(key);
        let arc = State::<ARC>::calculate(key);
        let slot = generate_slot(key);
        let lock = generate_lock_slot(key);
        let tag = get_hash_tag(key).to_vec();
        let op = format!("crc {}", hex(key));
        let observed = format!("{} {} {} {} {}", x, arc, slot, lock, hex(&tag));
        if slot != ref_slot(key) || slot >= SLOT_NUM || tag != ref_hash_tag(key) || x != ref_crc16(key) {
            let c = self.s.cases;
            self.s.stats.oracle_failure(c, "generate_slot / get_hash_tag / crc16 differ from the Redis Cluster reference", "", vec![op.clone()]);
        }
        if tag.len() != key.len() { self.s.stats.count("out.hash_tag_effective"); }
        self.emit(op, observed);
    }

    fn do_sameslot(&mut self, keys: &[Vec<u8>]) {
        let r = same_slot(keys.iter().map(|k| k.as_slice()));
        let want = !keys.is_empty() && keys.iter().all(|k| ref_slot(k) == ref_slot(&keys[0]));
        let op = if keys.is_empty() { "sameslot".to_string() } else { format!("sameslot {}", keys.iter().map(|k| hex(k)).collect::<Vec<_>>().join(" ")) };
        if r != want {
            let c = self.s.cases;
            self.s.stats.oracle_failure(c, "same_slot disagrees with the reference slots", "", vec![op.clone()]);
        }
        self.s.stats.count(if r { "out.same_slot_true" } else { "out.same_slot_false" });
        self.emit(op, r.to_string());
    }

    /// direct `SlotMapData::new` / `get` (raw, uncompacted ranges)
    fn do_slotmap(&mut self, nodes: &[(String, Ranges)], queries: &[usize]) {
        let map: HashMap<String, Ranges> = nodes.iter().cloned().collect();
        let nodes: Vec<(String, Ranges)> = { let mut v: Vec<_> = map.iter().map(|(a, r)| (a.clone(), r.clone())).collect(); v.sort(); v };
        let d = SlotMapData::new(map);
        let mut obs = vec![];
        for s in segment_starts(&[&nodes]) {
            if coverers(&nodes, s).len() >= 2 {
                if let Some(a) = d.get(s) { obs.push((s, a.to_string())); }
            }
        }
        let order = match resolve_order(&nodes, &obs) {
            Ok(o) => o,
            Err(e) => { let c = self.s.cases; self.s.stats.oracle_failure(c, &format!("SlotMapData: {}", e), "", vec![format!("smd {}", nodes_text(&nodes))]); nodes.clone() }
        };
        let smd = format!("smd {}", nodes_text(&order));
        self.emit(smd.clone(), "ok".into());
        for q in queries {
            let got = d.get(*q).map(|x| x.to_string());
            let c = coverers(&nodes, *q);
            let fine = match &got { Some(a) => c.contains(a), None => c.is_empty() };
            if !fine {
                let cs = self.s.cases;
                self.s.stats.oracle_failure(cs, "SlotMapData::get names a node that does not list the slot (or misses one)", "", vec![smd.clone(), format!("smq {}", q)]);
            }
            self.s.stats.count(if got.is_some() { "out.slotmap_hit" } else { "out.slotmap_miss" });
            self.emit(format!("smq {}", q), got.unwrap_or_else(|| "-".into()));
        }
    }
}

fn parse_arg(t: &str) -> Option<Arg> {
    if t == "~" { Some(None) } else { unhex(t).map(Some) }
}

fn hot_slots(local: &[(String, Ranges)], peer: &[(String, Ranges)]) -> Vec<usize> {
    let mut v = BTreeSet::new();
    for (_, rs) in local.iter().chain(peer.iter()) {
        for (s, e) in rs {
            for x in [s.saturating_sub(1), *s, *e, e.saturating_add(1)] {
                if x < SLOT_NUM { v.insert(x); }
            }
        }
    }
    v.insert(0);
    v.insert(SLOT_NUM - 1);
    v.into_iter().collect()
}

fn main() {
    let args = parse_args();
    let rt = tokio::runtime::Builder::new_current_thread().enable_all().build().expect("runtime");
    rt.block_on(async move {
        let mut rng = Rng::new(args.seed);
        // one key per slot, found with the real hash function
        let mut key_for_slot: Vec<Vec<u8>> = vec![vec![]; SLOT_NUM];
        let mut found = 0;
        let mut i = 0u64;
        while found < SLOT_NUM {
            let k = format!("r{}", i).into_bytes();
            let s = generate_slot(&k);
            if key_for_slot[s].is_empty() { key_for_slot[s] = k; found += 1; }
            i += 1;
        }
        let mut gen = Gen { rng: rng.fork(), key_for_slot };
        let cfg0 = ProxyCfg { active_redirection: false, max_redirections: None, default_redirection_address: None };
        let mut run = Run {
            s: Streams::new(&args),
            proxy: Proxy::new(&cfg0),
            world: World { cfg: cfg0.clone(), name: String::new(), local: vec![], peer: vec![] },
            case_flags: BTreeMap::new(),
            case_ops: vec![],
        };

        if let Some(p) = &args.replay {
            run.new_case();
            let mut pending_smd: Option<Vec<(String, Ranges)>> = None;
            let mut pending_q: Vec<usize> = vec![];
            let lines = read_lines(p);
            for l in lines.iter().chain(std::iter::once(&"end".to_string())) {
                if l.starts_with('#') { continue; }
                let toks: Vec<&str> = l.split(' ').collect();
                if toks[0] != "smq" {
                    if let Some(n) = pending_smd.take() { run.do_slotmap(&n, &pending_q); pending_q.clear(); }
                }
                match toks[0] {
                    "case" => run.new_case(),
                    "crc" => { if let Some(k) = toks.get(1).and_then(|t| unhex(t)) { run.do_crc(&k); } }
                    "sameslot" => { let ks: Vec<Vec<u8>> = toks[1..].iter().filter_map(|t| unhex(t)).collect(); run.do_sameslot(&ks); }
                    "smd" => { pending_smd = toks.get(1).and_then(|t| parse_nodes_text(t)); }
                    "smq" => { if let Some(q) = toks.get(1).and_then(|t| t.parse().ok()) { pending_q.push(q); } }
                    "cfg" if toks.len() == 4 => {
                        let v = |t: &str| t.split_once('=').map(|x| x.1.to_string()).unwrap_or_default();
                        let (a, m, d) = (v(toks[1]), v(toks[2]), v(toks[3]));
                        run.do_cfg(ProxyCfg {
                            active_redirection: a == "1",
                            max_redirections: m.parse().ok(),
                            default_redirection_address: if d == "-" { None } else { Some(d) },
                        }).await;
                    }
                    "install" if toks.len() == 4 => {
                        if let (Some(lo), Some(pe)) = (parse_nodes_text(toks[2]), parse_nodes_text(toks[3])) {
                            let mk = |v: Vec<(String, Ranges)>| v.into_iter().map(|(a, r)| NodeSpec { addr: a, slot_ranges: vec![r] }).collect();
                            let l = Layout { name: if toks[1] == "-" { String::new() } else { toks[1].to_string() }, local: mk(lo), peer: mk(pe) };
                            run.do_install(&l, &gen).await;
                        }
                    }
                    "cmd" => {
                        let a: Option<Vec<Arg>> = toks[1..].iter().filter(|t| !t.starts_with("pick=") && !t.is_empty()).map(|t| parse_arg(t)).collect();
                        if let Some(a) = a { run.do_cmd(&a).await; }
                    }
                    _ => {}
                }
            }
            run.s.finish("route9", "replay");
            return;
        }

        let thorough = args.thorough;
        // --- A: hashing: corpus, one key per slot, random keys -------------------------------
        run.new_case();
        for k in BRACE_KEYS.iter() { run.do_crc(k); }
        run.do_crc(b"123456789");
        let reps: Vec<Vec<u8>> = gen.key_for_slot.clone();
        for k in reps.iter() { run.s.stats.count("gen.crc.slot_representative"); run.do_crc(k); }
        run.new_case();
        let n_keys = if thorough { 1_000_000 } else { 100_000 };
        for _ in 0..n_keys {
            let k = gen.key(&mut run.s.stats);
            // longer random keys as well
            let k = if rng.chance(1, 10) { let n = rng.range(13, 80) as usize; run.s.stats.count("gen.key.long_binary"); let mut v = rng.bytes(n); if rng.chance(1, 2) { let i = rng.below(n as u64) as usize; v[i] = b'{'; let j = rng.below(n as u64) as usize; v[j] = b'}'; } v } else { k };
            run.do_crc(&k);
        }
        run.new_case();
        for _ in 0..(if thorough { 100_000 } else { 10_000 }) {
            let n = rng.range(0, 4) as usize;
            let ks = if n == 0 { vec![] } else { gen.multi_keys(&mut run.s.stats, n) };
            run.do_sameslot(&ks);
        }
        // --- B: SlotMapData directly, raw ranges ------------------------------------------------
        for _ in 0..(if thorough { 1000 } else { 30 }) {
            run.new_case();
            let n = rng.range(0, 5) as usize;
            let mut nodes: Vec<(String, Ranges)> = vec![];
            for i in 0..n {
                let mut rs: Ranges = vec![];
                for _ in 0..rng.range(0, 4) {
                    let s = rng.below(SLOT_NUM as u64 + 200) as usize;
                    let r = match rng.below(8) {
                        0 => { run.s.stats.count("gen.slotmap.reversed"); (s, s.saturating_sub(rng.below(100) as usize + 1)) }
                        1 => { run.s.stats.count("gen.slotmap.beyond_slot_space"); (s, s + 40000) }
                        2 => { run.s.stats.count("gen.slotmap.huge_end"); (s, usize::MAX) }
                        3 => { run.s.stats.count("gen.slotmap.single_slot"); (s, s) }
                        _ => (s, (s + rng.below(6000) as usize)),
                    };
                    rs.push(r);
                }
                nodes.push((format!("n{}:1", i), rs));
            }
            let mut qs: Vec<usize> = vec![0, 1, SLOT_NUM - 1, SLOT_NUM, SLOT_NUM + 1, 1 << 40, usize::MAX];
            for (_, rs) in &nodes { for (s, e) in rs { for x in [s.wrapping_sub(1), *s, s + 1, e.wrapping_sub(1), *e, e.wrapping_add(1)] { qs.push(x); } } }
            for _ in 0..20 { qs.push(rng.below(SLOT_NUM as u64) as usize); }
            run.do_slotmap(&nodes, &qs);
        }
        // --- C: the proxy: configurations × layouts × commands -----------------------------------
        let n_cases = if thorough { 6000 } else { 150 };
        let per_case = if thorough { 150 } else { 60 };
        for _ in 0..n_cases {
            run.new_case();
            let cfg = gen.cfg(&mut run.s.stats);
            run.do_cfg(cfg).await;
            if rng.chance(1, 4) {
                // commands before any SETCLUSTER
                for _ in 0..3 {
                    let a = gen.cmd(&mut run.s.stats, &[]);
                    let a = if rng.chance(1, 4) { gen.umforward(&mut run.s.stats, a, &[], &[]) } else { a };
                    run.do_cmd(&a).await;
                }
            }
            let installs = 1 + rng.below(2);
            let mut text = String::new();
            for _ in 0..installs {
                let l = gen.layout(&mut run.s.stats);
                run.do_install(&l, &gen).await;
                text = format!("{:?}|{}|{}", run.world.cfg, nodes_text(&run.world.local), nodes_text(&run.world.peer));
                let hot = hot_slots(&run.world.local, &run.world.peer);
                for _ in 0..per_case {
                    let a = gen.cmd(&mut run.s.stats, &hot);
                    // every command shape also as a peer proxy would deliver it
                    let a = if rng.chance(1, 4) { gen.umforward(&mut run.s.stats, a, &run.world.local, &run.world.peer) } else { a };
                    run.do_cmd(&a).await;
                }
            }
            let f = &run.case_flags;
            let has = |k: &str| f.get(k).copied().unwrap_or(0) > 0;
            if has("out.executed") && (has("out.moved") || has("out.forwarded")) && has("out.not_same_slot") {
                run.s.stats.nontrivial_case(&text);
            }
            if run.s.cases % 50 == 0 {
                run.s.stats.sample(json!({"cfg": format!("{:?}", run.world.cfg), "local": nodes_text(&run.world.local), "peer": nodes_text(&run.world.peer), "kinds": format!("{:?}", run.case_flags)}));
            }
        }
        run.s.finish("route9", "hashing: brace corpus + one key per slot + random keys (8 classes); SlotMapData on raw ranges; proxy cases = config (active redirection, max_redirections, default address) x hand-built layout (arbitrary cuts, single-slot ranges, gaps, several ranges/SlotRanges per node, overlapping spans, odd ranges) x ~60-120 commands of 13 shapes, a quarter of them wrapped as UMFORWARD <times> (counter values 0/1/2/small/usize::MAX-1/usize::MAX, spellings +n/00n, malformed, and counters whose text hashes to the other side of the layout than the key); non-trivial case = at least one command executed locally, one MOVED/forwarded and one cross-slot refusal in the same case; distinct = distinct (config, installed layout)");
    });
}
