//! C02 correspondence stream: real `MetaStore` histories → real `get_proxy_by_address` → real
//! `ProxyMetaRespSender::send_meta` (SETREPL + SETCLUSTER, plain or compressed) delivered by an
//! in-memory `RedisClientFactory` to real `ForwardHandler`s (one per proxy, fake Redis backends
//! that answer with their own address and record what they received) → a client that starts at
//! every proxy and follows MOVED.  Migration phases are driven through the real tasks: the
//! in-memory client lets the real `UMCTL PRECHECK / PRESWITCH / FINALSWITCH` requests of the
//! source task through (or drops the reply) according to a gate level, and holds the SCAN reply.
//!
//! Op grammar (tokens separated by one space); the Lean driver is `umdriver route`:
//!   b <broker op>                    as in umh_broker (choice filled in from the real store)
//!   proxy <addr> <announce host>     fresh proxy process
//!   view <addr> <limit>              get_proxy_by_address → canonical text
//!   sync <addr> <plain|comp>         send_meta of the last `view` of <addr> → `<reply> tasks=<n>`
//!   gate <level>                     harness only (driver: `ok`): raise the handshake gate
//!       0 nothing passes | 1 PRECHECK | 2 PRESWITCH handled, reply lost | 3 PRESWITCH acked, SCAN held
//!       4 scan finishes | 5 FINALSWITCH handled, reply lost | 6 FINALSWITCH acked
//!       9 (after 1) the forced path: PRESWITCH never gets through, `max_blocking_time` expires, the scan
//!         runs and finishes, FINALSWITCH does not get through: (FINAL_SWITCH, PRE_CHECK)
//!     followed by the `hs …` / `src …` lines of what thereby happened in every pending migration
//!     `gate <level> <src proxy>` moves only the migrations whose source proxy is <src proxy>
//!   kill <addr>                      the proxy process dies (failed proxy): it is asked and told nothing any more
//!   states                           every migration task of every proxy (UMCTL INFO), sorted
//!   follow <start> <slot> <picks>    GET <key of slot> at <start>, following MOVED;
//!                                    `k=<MOVED seen> <proxy>>M:<addr>;…;<proxy>>X:<node>|H|E:<kind>`
//!   late <proxy> <slot> <pick|->     reply a queued (`H`) command got when the blocking was released
use arc_swap::ArcSwap;
use futures::channel::mpsc;
use futures::Future;
use serde_json::json;
use std::collections::{BTreeMap, BTreeSet, HashMap};
use std::convert::TryFrom;
use std::pin::Pin;
use std::sync::atomic::{AtomicBool, Ordering};
use std::sync::{Arc, Mutex, RwLock};
use std::time::Duration;
use umharness::broker_support::*;
use umharness::route_support::{server_config, Log, ProxyCfg, RecordingConnFactory};
use umharness::util::*;
use undermoon::broker::verif_export::store::{MetaStore, MetaStoreError};
use undermoon::common::cluster::{ClusterName, MigrationTaskMeta, Proxy, SlotRangeTag};
use undermoon::common::config::ClusterConfig;
use undermoon::common::track::TrackedFutureRegistry;
use undermoon::common::utils::generate_slot;
use undermoon::coordinator::verif_export::core::ProxyMetaSender;
use undermoon::coordinator::verif_export::sync::ProxyMetaRespSender;
use undermoon::protocol::{
    Array, BinSafeStr, BulkStr, OptionalMulti, RedisClient, RedisClientError, RedisClientFactory, Resp, RespPacket,
    RespVec,
};
use undermoon::proxy::command::{new_command_pair, Command};
use undermoon::proxy::executor::ForwardHandler;
use undermoon::proxy::manager::MetaMap;
use undermoon::proxy::session::{CmdCtx, CmdCtxHandler};
use undermoon::proxy::slowlog::SlowRequestLogger;

const SLOT_NUM: usize = 16384;

// ---------------------------------------------------------------------------------------------
// the in-memory network
// ---------------------------------------------------------------------------------------------

type Handler = ForwardHandler<NetClientFactory, RecordingConnFactory>;

struct PBox {
    handler: Handler,
    #[allow(dead_code)]
    log: Log,
    _stopped: Mutex<mpsc::UnboundedReceiver<()>>,
}

#[derive(Default)]
struct NetInner {
    proxies: RwLock<HashMap<String, Arc<PBox>>>,
    /// gate level per migration (key text); a migration the harness has not gated yet is at level 0
    levels: Mutex<HashMap<String, usize>>,
    /// source node address -> key text of the migration scanning it (for the SCAN gate)
    node_key: Mutex<HashMap<String, BTreeSet<String>>>,
    /// delivered handshake requests since the last drain: (dst proxy, sub command, key text) -> reply
    hs_log: Mutex<BTreeMap<(String, String, String), String>>,
    /// replies to UMCTL SETCLUSTER, per proxy address, in order
    setcluster_log: Mutex<Vec<(String, String)>>,
}

struct NetClientFactory {
    net: Arc<NetInner>,
}

struct NetClient {
    net: Arc<NetInner>,
    address: String,
}

fn up(b: &[u8]) -> String {
    String::from_utf8_lossy(b).to_uppercase()
}

async fn run_cmd(p: &PBox, args: &[Vec<u8>]) -> RespVec {
    let resp = Resp::Arr(Array::Arr(args.iter().map(|b| Resp::Bulk(BulkStr::Str(b.clone()))).collect()));
    let cmd = Command::new(Box::new(RespPacket::Data(resp)));
    let (s, r) = new_command_pair(&cmd);
    let ctx = CmdCtx::new(cmd, s, 1, false);
    let authenticated = AtomicBool::new(false);
    match p.handler.handle_cmd_ctx(ctx, r, &authenticated).await {
        Ok(t) => t.into_resp_vec(),
        Err(e) => Resp::Error(format!("HANDLER {:?}", e).into_bytes()),
    }
}

fn reply_text(r: &RespVec) -> String {
    match r {
        Resp::Simple(b) => {
            let s = String::from_utf8_lossy(b).to_string();
            if s.starts_with("WARNING") { "WARN".to_string() } else { s }
        }
        Resp::Error(b) => {
            let s = String::from_utf8_lossy(b).to_string();
            match s.as_str() {
                "NOT_READY_FOR_SWITCHING" => "NOT_READY".to_string(),
                "ERR_NOT_MY_META" => "NOT_MY_META".to_string(),
                "Invalid Arg" => "INVALID_ARG".to_string(),
                "Peer Not Migrating" => "PEER_MIGRATING".to_string(),
                _ if s.starts_with("Failed to parse args") => "PARSE_ERR".to_string(),
                _ => s.replace(' ', "_"),
            }
        }
        Resp::Integer(b) => format!("I{}", String::from_utf8_lossy(b)),
        Resp::Bulk(BulkStr::Str(b)) => format!("B{}", String::from_utf8_lossy(b)),
        _ => "?".to_string(),
    }
}

/// `<cluster> <epoch> <ranges> <sp> <sn> <dp> <dn>` of the task a handshake request names
fn key_text_of_args(args: &[Vec<u8>]) -> String {
    // UMCTL <SUB> <version> <cluster> <slot range strings…>
    let strs: Vec<String> = args.iter().skip(3).map(|b| String::from_utf8_lossy(b).to_string()).collect();
    let mut it = strs.into_iter().peekable();
    match MigrationTaskMeta::from_strings(&mut it) {
        Some(m) => key_text(&m),
        None => "?".to_string(),
    }
}

fn key_text(m: &MigrationTaskMeta) -> String {
    let meta = match &m.slot_range.tag {
        SlotRangeTag::Migrating(x) | SlotRangeTag::Importing(x) => x.clone(),
        SlotRangeTag::None => return "?".to_string(),
    };
    format!(
        "{} {} {} {} {} {} {}",
        m.cluster_name,
        meta.epoch,
        render_ranges(&m.slot_range.range_list),
        meta.src_proxy_address,
        meta.src_node_address,
        meta.dst_proxy_address,
        meta.dst_node_address
    )
}

async fn exec_one(net: &Arc<NetInner>, address: &str, cmd: Vec<BinSafeStr>) -> RespVec {
    let pbox = net.proxies.read().expect("proxies").get(address).cloned();
    let name = cmd.first().map(|b| up(b)).unwrap_or_default();
    let sub = cmd.get(1).map(|b| up(b)).unwrap_or_default();
    match pbox {
        Some(p) => {
            if name == "UMCTL" && (sub == "PRECHECK" || sub == "PRESWITCH" || sub == "FINALSWITCH") {
                let level = net.levels.lock().expect("levels").get(&key_text_of_args(&cmd)).cloned().unwrap_or(0);
                let (deliver, ack) = match (level, sub.as_str()) {
                    // level 9 = the forced path: PRESWITCH and FINALSWITCH never get through, the scan does
                    (9, "PRECHECK") => (true, true),
                    (9, _) => (false, false),
                    (_, "PRECHECK") => (level >= 1, level >= 1),
                    (_, "PRESWITCH") => (level >= 2, level >= 3),
                    _ => (level >= 5, level >= 6),
                };
                if !deliver {
                    return Resp::Error(b"GATE".to_vec());
                }
                let r = run_cmd(&p, &cmd).await;
                net.hs_log
                    .lock()
                    .expect("hs")
                    .entry((address.to_string(), sub.clone(), key_text_of_args(&cmd)))
                    .or_insert_with(|| reply_text(&r));
                if !ack {
                    return Resp::Error(b"GATE".to_vec());
                }
                return r;
            }
            let r = run_cmd(&p, &cmd).await;
            if name == "UMCTL" && sub == "SETCLUSTER" {
                net.setcluster_log.lock().expect("sc").push((address.to_string(), reply_text(&r)));
            }
            r
        }
        None => {
            // a Redis node
            if name == "SCAN" {
                // the scan of a migration is held exactly while that migration is at level 3; scans of
                // several migrations out of one node cannot be told apart, so any of them at 3 holds all
                let keys = net.node_key.lock().expect("nk").get(address).cloned().unwrap_or_default();
                let lv = net.levels.lock().expect("levels");
                let held = keys.iter().any(|k| lv.get(k).cloned().unwrap_or(0) == 3);
                if !held {
                    Resp::Arr(Array::Arr(vec![Resp::Bulk(BulkStr::Str(b"0".to_vec())), Resp::Arr(Array::Arr(vec![]))]))
                } else {
                    Resp::Error(b"GATE".to_vec())
                }
            } else {
                Resp::Simple(b"OK".to_vec())
            }
        }
    }
}

impl RedisClient for NetClient {
    fn execute<'s>(
        &'s mut self,
        command: OptionalMulti<Vec<BinSafeStr>>,
    ) -> Pin<Box<dyn Future<Output = Result<OptionalMulti<RespVec>, RedisClientError>> + Send + 's>> {
        let net = self.net.clone();
        let address = self.address.clone();
        Box::pin(async move {
            match command {
                OptionalMulti::Single(c) => Ok(OptionalMulti::Single(exec_one(&net, &address, c).await)),
                OptionalMulti::Multi(cs) => {
                    let mut v = vec![];
                    for c in cs {
                        v.push(exec_one(&net, &address, c).await);
                    }
                    Ok(OptionalMulti::Multi(v))
                }
            }
        })
    }
}

impl RedisClientFactory for NetClientFactory {
    type Client = NetClient;

    fn create_client<'s>(
        &'s self,
        address: String,
    ) -> Pin<Box<dyn Future<Output = Result<Self::Client, RedisClientError>> + Send + 's>> {
        let net = self.net.clone();
        Box::pin(async move { Ok(NetClient { net, address }) })
    }
}

fn new_proxy(net: &Arc<NetInner>, addr: &str, host: &str) -> Arc<PBox> {
    let mut cfg = server_config(&ProxyCfg { active_redirection: false, max_redirections: None, default_redirection_address: None });
    cfg.address = addr.to_string();
    cfg.announce_address = addr.to_string();
    cfg.announce_host = host.to_string();
    let config = Arc::new(cfg);
    let log: Log = Arc::new(Mutex::new(vec![]));
    let conn_factory = Arc::new(RecordingConnFactory { log: log.clone() });
    let meta_map = Arc::new(ArcSwap::new(Arc::new(MetaMap::empty())));
    let future_registry = Arc::new(TrackedFutureRegistry::default());
    let (tx, rx) = mpsc::unbounded();
    let handler = ForwardHandler::new(
        config.clone(),
        Arc::new(NetClientFactory { net: net.clone() }),
        Arc::new(SlowRequestLogger::new(config)),
        meta_map,
        conn_factory,
        future_registry,
        tx,
    );
    Arc::new(PBox { handler, log, _stopped: Mutex::new(rx) })
}

// ---------------------------------------------------------------------------------------------
// one hop / one client run
// ---------------------------------------------------------------------------------------------

#[derive(Clone, Debug, PartialEq)]
enum Hop {
    Moved(String, String), // proxy, target
    Exec(String, String),  // proxy, node
    Held(String),
    Err(String, String),
    NoProxy(String),
    Limit(String),
}

fn render_hop(h: &Hop) -> String {
    match h {
        Hop::Moved(p, a) => format!("{}>M:{}", p, a),
        Hop::Exec(p, n) => format!("{}>X:{}", p, n),
        Hop::Held(p) => format!("{}>H", p),
        Hop::Err(p, e) => format!("{}>E:{}", p, e),
        Hop::NoProxy(p) => format!("{}>NOPROXY", p),
        Hop::Limit(p) => format!("{}>LIMIT", p),
    }
}

fn classify(proxy: &str, r: &RespVec) -> Hop {
    match r {
        Resp::Bulk(BulkStr::Str(b)) => Hop::Exec(proxy.to_string(), String::from_utf8_lossy(b).to_string()),
        Resp::Error(b) => {
            let s = String::from_utf8_lossy(b).to_string();
            let toks: Vec<&str> = s.split(' ').collect();
            if toks.len() == 3 && toks[0] == "MOVED" {
                Hop::Moved(proxy.to_string(), toks[2].to_string())
            } else if s.starts_with("slot not covered") {
                Hop::Err(proxy.to_string(), "slot-not-covered".to_string())
            } else if s == "ERR_CLUSTER_NOT_FOUND" {
                Hop::Err(proxy.to_string(), "cluster-not-found".to_string())
            } else {
                Hop::Err(proxy.to_string(), s.replace(' ', "_"))
            }
        }
        other => Hop::Err(proxy.to_string(), format!("unexpected:{}", reply_text(other))),
    }
}

struct Probe {
    start: String,
    slot: usize,
    hops: Arc<Mutex<Vec<Hop>>>,
    at: Arc<Mutex<String>>,
    done: Arc<AtomicBool>,
    declared_held: Arc<AtomicBool>,
    late: Arc<Mutex<Option<Hop>>>,
}

/// the client: GET <key> at `start`, follow MOVED (at most 8 times)
async fn follow_task(
    net: Arc<NetInner>,
    key: Vec<u8>,
    start: String,
    hops: Arc<Mutex<Vec<Hop>>>,
    at: Arc<Mutex<String>>,
    done: Arc<AtomicBool>,
    declared_held: Arc<AtomicBool>,
    late: Arc<Mutex<Option<Hop>>>,
) {
    let mut cur = start;
    let mut fuel = 8;
    loop {
        *at.lock().expect("at") = cur.clone();
        let p = net.proxies.read().expect("proxies").get(&cur).cloned();
        let p = match p {
            Some(p) => p,
            None => {
                hops.lock().expect("hops").push(Hop::NoProxy(cur.clone()));
                break;
            }
        };
        if fuel == 0 {
            hops.lock().expect("hops").push(Hop::Limit(cur.clone()));
            break;
        }
        let r = run_cmd(&p, &[b"GET".to_vec(), key.clone()]).await;
        let h = classify(&cur, &r);
        if declared_held.load(Ordering::SeqCst) {
            // the main task already reported this hop as held: this is the late reply
            *late.lock().expect("late") = Some(h);
            break;
        }
        hops.lock().expect("hops").push(h.clone());
        match h {
            Hop::Moved(_, a) => {
                cur = a;
                fuel -= 1;
            }
            _ => break,
        }
    }
    done.store(true, Ordering::SeqCst);
}

// ---------------------------------------------------------------------------------------------
// the runner: executes op lines against the real code
// ---------------------------------------------------------------------------------------------

struct SlotInfo {
    owner_node: String,
    #[allow(dead_code)]
    owner_proxy: String,
    mig: Option<(String, String)>, // (src node, dst node)
}

struct Runner {
    s: Streams,
    case: u64,
    ops: Vec<String>,
    store: MetaStore,
    net: Arc<NetInner>,
    views: HashMap<String, Proxy>,
    synced_epoch: HashMap<String, u64>,
    key_for_slot: Arc<Vec<Vec<u8>>>,
    pending: Vec<(Probe, tokio::task::JoinHandle<()>)>,
    limit: u64,
    flags: BTreeSet<String>,
}

fn code(e: &MetaStoreError) -> String {
    e.to_code().to_string()
}

fn cluster_proxy_set(store: &MetaStore, name: &str) -> BTreeSet<String> {
    let cn = match ClusterName::try_from(name) {
        Ok(c) => c,
        Err(_) => return BTreeSet::new(),
    };
    store
        .clusters
        .get(&cn)
        .map(|c| c.chunks.iter().flat_map(|ch| ch.proxy_addresses.iter().cloned()).collect())
        .unwrap_or_default()
}

fn choice_of(before: &BTreeSet<String>, store: &MetaStore, name: &str) -> String {
    let cn = match ClusterName::try_from(name) {
        Ok(c) => c,
        Err(_) => return "-".into(),
    };
    match store.clusters.get(&cn) {
        None => "-".into(),
        Some(c) => {
            let v: Vec<String> = c
                .chunks
                .iter()
                .filter(|ch| !before.contains(&ch.proxy_addresses[0]) && !before.contains(&ch.proxy_addresses[1]))
                .map(|ch| format!("{},{}", ch.proxy_addresses[0], ch.proxy_addresses[1]))
                .collect();
            if v.is_empty() { "-".into() } else { v.join(";") }
        }
    }
}

impl Runner {
    fn emit(&mut self, op: String, obs: String) {
        self.ops.push(op.clone());
        self.s.op(&op, &obs);
    }

    fn fail(&mut self, what: String) {
        self.fail_as(what, "");
    }

    fn fail_as(&mut self, what: String, finding: &str) {
        let c = self.case;
        let r = self.ops.clone();
        self.s.stats.count(if finding.is_empty() { "oracle.failure" } else { "oracle.known_finding" });
        self.s.stats.oracle_failure(c, &what, finding, r);
    }

    fn new_case(&mut self) {
        if self.case > 0 && self.flags.contains("migration") && self.flags.contains("handshake") {
            let txt = self.ops.join("\n");
            self.s.stats.nontrivial_case(&txt);
        }
        self.case = self.s.case();
        self.ops.clear();
        self.store = MetaStore::new(false);
        self.net = Arc::new(NetInner::default());
        self.views.clear();
        self.synced_epoch.clear();
        self.pending.clear();
        self.flags.clear();
    }

    // ---- broker ops (subset of umh_broker's grammar) ----
    fn do_b(&mut self, toks: &[&str]) {
        let st = &mut self.store;
        let g = |st: &MetaStore| format!(" g={}", st.global_epoch);
        let fin = |st: &MetaStore, r: Result<String, MetaStoreError>| match r {
            Ok(extra) => format!("OK{}{}", extra, g(st)),
            Err(e) => format!("ERR {}{}", code(&e), g(st)),
        };
        let (op, obs) = match toks {
            ["add_proxy", a, n0, n1, h] => {
                let host = if *h == "-" { None } else { Some(h.to_string()) };
                let r = st.add_proxy(a.to_string(), [n0.to_string(), n1.to_string()], host, None);
                (toks.join(" "), fin(st, r.map(|_| String::new())))
            }
            ["add_cluster", n, k, _] => {
                let before = cluster_proxy_set(st, n);
                let existed = !before.is_empty();
                let r = st.add_cluster(n.to_string(), k.parse().unwrap_or(0), ClusterConfig::default());
                let choice = if r.is_ok() && !existed { choice_of(&before, st, n) } else { "-".into() };
                (format!("add_cluster {} {} {}", n, k, choice), fin(st, r.map(|_| String::new())))
            }
            ["add_nodes", n, k, _] => {
                let before = cluster_proxy_set(st, n);
                let r = st.auto_add_nodes(n.to_string(), k.parse().unwrap_or(0));
                let choice = if r.is_ok() { choice_of(&before, st, n) } else { "-".into() };
                (format!("add_nodes {} {} {}", n, k, choice), fin(st, r.map(|_| String::new())))
            }
            ["config", n, kv] => {
                let mut m = HashMap::new();
                if *kv != "-" {
                    for p in kv.split(',') {
                        let mut it = p.split('=');
                        if let (Some(k), Some(v)) = (it.next(), it.next()) {
                            m.insert(k.to_string(), v.to_string());
                        }
                    }
                }
                let r = st.change_config(n.to_string(), m);
                (toks.join(" "), fin(st, r.map(|_| String::new())))
            }
            ["balance", n] => {
                let r = st.balance_masters(n.to_string());
                (toks.join(" "), fin(st, r.map(|_| String::new())))
            }
            ["del_free", n] => {
                let r = st.auto_delete_free_nodes(n.to_string());
                (toks.join(" "), fin(st, r.map(|_| String::new())))
            }
            ["migrate", n] => {
                let r = st.migrate_slots(n.to_string());
                (toks.join(" "), fin(st, r.map(|_| String::new())))
            }
            ["scale_down", n, k] => {
                let r = st.migrate_slots_to_scale_down(n.to_string(), k.parse().unwrap_or(0));
                (toks.join(" "), fin(st, r.map(|_| String::new())))
            }
            ["commit", n, e, rs, tag, clear] => {
                let task = commit_task(n, e, rs, tag);
                match task {
                    Some(task) => {
                        let r = st.commit_migration(task, *clear == "1");
                        (toks.join(" "), fin(st, r.map(|_| String::new())))
                    }
                    None => (toks.join(" "), "bad-op".to_string()),
                }
            }
            ["failover", a, _] => {
                let r = st.replace_failed_proxy(a.to_string(), 0);
                let (choice, r2) = match r {
                    Ok(Some(p)) => (p.get_address().to_string(), Ok(format!(" {}", p.get_address()))),
                    Ok(None) => ("-".to_string(), Ok(" none".to_string())),
                    Err(e) => ("-".to_string(), Err(e)),
                };
                (format!("failover {} {}", a, choice), fin(st, r2))
            }
            _ => (toks.join(" "), "bad-op".to_string()),
        };
        self.s.stats.count(&format!("op.b.{}", toks[0]));
        self.s.stats.count(&format!("out.b.{}.{}", toks[0], obs.split(' ').next().unwrap_or("?")));
        self.emit(format!("b {}", op), obs);
    }

    fn do_proxy(&mut self, addr: &str, host: &str) {
        let p = new_proxy(&self.net, addr, host);
        self.net.proxies.write().expect("proxies").insert(addr.to_string(), p);
        self.emit(format!("proxy {} {}", addr, host), "ok".to_string());
    }

    fn do_view(&mut self, addr: &str, limit: u64) {
        let obs = match self.store.get_proxy_by_address(addr, limit) {
            Some(p) => {
                let txt = render_vproxy(&serde_json::to_value(&p).expect("proxy json"));
                self.views.insert(addr.to_string(), p);
                txt
            }
            None => "NONE".to_string(),
        };
        self.emit(format!("view {} {}", addr, limit), obs);
    }

    async fn tasks_of(&self, addr: &str) -> Vec<String> {
        let p = self.net.proxies.read().expect("proxies").get(addr).cloned();
        let p = match p {
            Some(p) => p,
            None => return vec![],
        };
        let r = run_cmd(&p, &[b"UMCTL".to_vec(), b"INFO".to_vec()]).await;
        let mut out = vec![];
        if let Resp::Arr(Array::Arr(items)) = r {
            if let Some(Resp::Arr(Array::Arr(lines))) = items.get(5) {
                for l in lines.iter().skip(1) {
                    if let Resp::Bulk(BulkStr::Str(b)) = l {
                        let s = String::from_utf8_lossy(b).to_string();
                        let t: Vec<&str> = s.split(' ').collect();
                        // <count> <s-e>… <src> -> <dst> <STATE>
                        if t.len() >= 6 {
                            let n = t.len();
                            let ranges = t[1..n - 4].join("+");
                            let ranges = if ranges.is_empty() { "e".to_string() } else { ranges };
                            out.push(format!("{}/{}/{}/{}/{}", addr, ranges, t[n - 4], t[n - 2], t[n - 1]));
                        }
                    }
                }
            }
        }
        out
    }

    async fn states_text(&self) -> String {
        let addrs: Vec<String> = self.net.proxies.read().expect("proxies").keys().cloned().collect();
        let mut all = vec![];
        for a in addrs {
            all.extend(self.tasks_of(&a).await);
        }
        all.sort();
        if all.is_empty() { "-".to_string() } else { all.join("|") }
    }

    async fn do_states(&mut self) {
        let t = self.states_text().await;
        for st in ["PRE_CHECK", "PRE_BLOCKING", "PRE_SWITCH", "SCANNING", "FINAL_SWITCH", "SWITCH_COMMITTED"] {
            if t.contains(&format!("/{}", st)) {
                self.s.stats.count(&format!("out.state.{}", st));
            }
        }
        self.emit("states".to_string(), t);
    }

    async fn do_sync(&mut self, addr: &str, mode: &str) {
        let view = match self.views.get(addr) {
            Some(v) => v.clone(),
            None => {
                self.emit(format!("sync {} {}", addr, mode), "bad-op".to_string());
                return;
            }
        };
        let epoch = view.get_epoch();
        let before = self.net.setcluster_log.lock().expect("sc").len();
        let sender = ProxyMetaRespSender::new(Arc::new(NetClientFactory { net: self.net.clone() }), mode == "comp");
        let res = sender.send_meta(view).await;
        let reply = {
            let l = self.net.setcluster_log.lock().expect("sc");
            l.iter().skip(before).filter(|(a, _)| a == addr).map(|(_, r)| r.clone()).last()
        };
        let reply = match (reply, res) {
            (Some(r), _) => r,
            (None, Err(e)) => format!("SEND_ERR:{:?}", e).replace(' ', "_"),
            (None, Ok(())) => "NO_SETCLUSTER".to_string(),
        };
        if reply == "OK" || reply == "WARN" {
            self.synced_epoch.insert(addr.to_string(), epoch);
        }
        // let the spawned tasks start
        for _ in 0..4 {
            tokio::task::yield_now().await;
        }
        let n = self.tasks_of(addr).await.len();
        self.s.stats.count(&format!("op.sync.{}", mode));
        self.s.stats.count(&format!("out.sync.{}", reply));
        self.emit(format!("sync {} {}", addr, mode), format!("{} tasks={}", reply, n));
    }

    /// the pending migrations as the source proxies see them (from the views last synced)
    fn migrations(&self) -> Vec<(String, String, String)> {
        // (key text, src proxy, dst proxy)
        let mut out = BTreeSet::new();
        for (addr, v) in self.views.iter() {
            if !self.synced_epoch.contains_key(addr) {
                continue;
            }
            if let Some(cn) = v.get_cluster_name() {
                for n in v.get_nodes() {
                    for sr in n.get_slots() {
                        if let SlotRangeTag::Migrating(m) = &sr.tag {
                            let task = MigrationTaskMeta { cluster_name: cn.clone(), slot_range: sr.clone() };
                            out.insert((key_text(&task), m.src_proxy_address.clone(), m.dst_proxy_address.clone()));
                        }
                    }
                }
            }
        }
        out.into_iter().collect()
    }

    fn expected_states(level: usize) -> (&'static str, &'static str) {
        match level {
            0 => ("PRE_CHECK", "PRE_CHECK"),
            1 => ("PRE_SWITCH", "PRE_CHECK"),
            2 => ("PRE_SWITCH", "PRE_SWITCH"),
            3 => ("SCANNING", "PRE_SWITCH"),
            4 => ("FINAL_SWITCH", "PRE_SWITCH"),
            5 => ("FINAL_SWITCH", "SWITCH_COMMITTED"),
            9 => ("FINAL_SWITCH", "PRE_CHECK"),
            _ => ("SWITCH_COMMITTED", "SWITCH_COMMITTED"),
        }
    }

    fn level_of(&self, key: &str) -> usize {
        self.net.levels.lock().expect("levels").get(key).cloned().unwrap_or(0)
    }

    /// the largest gate level among the pending migrations (0 when there is none)
    fn max_level(&self) -> usize {
        self.migrations().iter().map(|(k, _, _)| self.level_of(k)).max().unwrap_or(0)
    }

    /// `gate <level>` moves every pending migration to `level`, `gate <level> <src proxy>` only those
    /// whose source proxy is `<src proxy>`; then what thereby happened in each of them is reported
    async fn do_gate(&mut self, level: usize, only_src: Option<&str>) {
        self.net.hs_log.lock().expect("hs").clear();
        {
            // source node -> the pending migrations out of it (those of dropped tasks are forgotten)
            let mut nk = self.net.node_key.lock().expect("nk");
            nk.clear();
            for (key, _, _) in self.migrations() {
                if let Some(sn) = key.split(' ').nth(4) {
                    nk.entry(sn.to_string()).or_default().insert(key.clone());
                }
            }
        }
        let migs: Vec<(String, String, String)> =
            self.migrations().into_iter().filter(|(_, sp, _)| only_src.map(|o| o == sp).unwrap_or(true)).collect();
        // what happens between the two levels, per migration
        let mut plan: Vec<(String, String, String, Vec<usize>)> = vec![];
        for (key, sp, dp) in migs.iter() {
            let old = self.level_of(key);
            let steps: Vec<usize> = if level == 9 {
                if old == 1 { vec![9] } else { vec![] }
            } else if old == 9 {
                if level == 6 { vec![5, 6] } else { vec![] }
            } else if level > old {
                ((old + 1)..=level).collect()
            } else {
                vec![]
            };
            plan.push((key.clone(), sp.clone(), dp.clone(), steps));
        }
        {
            let mut lv = self.net.levels.lock().expect("levels");
            for (key, _, _, steps) in plan.iter() {
                // a migration that is already further along is not pulled back
                if !steps.is_empty() {
                    lv.insert(key.clone(), level);
                }
            }
        }
        match only_src {
            Some(o) => self.emit(format!("gate {} {}", level, o), "ok".to_string()),
            None => self.emit(format!("gate {}", level), "ok".to_string()),
        }
        if plan.iter().all(|p| p.3.is_empty()) {
            return;
        }
        self.flags.insert("handshake".to_string());
        // wait until every moved migration reached the phase pair of its level
        let (es, ed) = Self::expected_states(level);
        for _ in 0..(if level == 9 { 1200 } else { 400 }) {
            let t = self.states_text().await;
            let lines: Vec<&str> = t.split('|').collect();
            let all = plan.iter().filter(|p| !p.3.is_empty()).all(|(key, sp, dp, _)| {
                let ranges = key.split(' ').nth(2).unwrap_or("?");
                let s_ok = lines.iter().any(|l| l.starts_with(&format!("{}/{}/", sp, ranges)) && l.ends_with(&format!("/{}", es)));
                let d_ok = lines.iter().any(|l| l.starts_with(&format!("{}/{}/", dp, ranges)) && l.ends_with(&format!("/{}", ed)));
                s_ok && d_ok
            });
            if all {
                break;
            }
            tokio::time::sleep(Duration::from_millis(5)).await;
        }
        if level == 2 || level == 5 {
            tokio::time::sleep(Duration::from_millis(5)).await;
        }
        let hs = self.net.hs_log.lock().expect("hs").clone();
        let max_steps: BTreeSet<usize> = plan.iter().flat_map(|p| p.3.iter().cloned()).collect();
        for step in max_steps {
            for (key, sp, dp, steps) in plan.iter() {
                if !steps.contains(&step) {
                    continue;
                }
                let hs_line = |me: &mut Runner, sub: &str| {
                    let obs = hs.get(&(dp.clone(), sub.to_string(), key.clone())).cloned().unwrap_or_else(|| "MISSING".to_string());
                    me.s.stats.count(&format!("out.hs.{}.{}", sub, obs));
                    me.emit(format!("hs {} {} {}", dp, sub, key), obs);
                };
                let src_line = |me: &mut Runner, ev: &str| {
                    me.emit(format!("src {} {} {}", sp, ev, key), "ok".to_string());
                };
                match step {
                    1 => {
                        hs_line(self, "PRECHECK");
                        src_line(self, "precheckAcked");
                        src_line(self, "blockingStarted");
                        src_line(self, "blockingDone");
                    }
                    2 => hs_line(self, "PRESWITCH"),
                    3 => {
                        src_line(self, "preswitchAcked");
                        src_line(self, "blockingStopped");
                    }
                    4 => src_line(self, "scanDone"),
                    5 => hs_line(self, "FINALSWITCH"),
                    6 => src_line(self, "finalAcked"),
                    // max_blocking_time expired: the blocking handle is dropped with the abandoned
                    // pre_block/pre_switch future (queued commands are re-sent right then) …
                    9 => src_line(self, "blockingStopped"),
                    _ => {}
                }
            }
            if step == 3 || step == 9 {
                self.drain_pending().await;
            }
            if step == 9 {
                // … and the scan runs to its end although the destination never switched
                for (key, sp, _, steps) in plan.iter() {
                    if steps.contains(&9) {
                        self.emit(format!("src {} scanDone {}", sp, key), "ok".to_string());
                    }
                }
                self.s.stats.count("gen.forced_path");
            }
        }
        self.s.stats.count(&format!("op.gate.{}", level));
    }

    /// commands queued behind a blocking that has just been released (those still queued behind
    /// another migration's blocking stay pending)
    async fn drain_pending(&mut self) {
        for _ in 0..40 {
            if self.pending.iter().all(|(p, _)| p.done.load(Ordering::SeqCst)) {
                break;
            }
            tokio::time::sleep(Duration::from_millis(5)).await;
        }
        let pend: Vec<_> = self.pending.drain(..).collect();
        for (probe, handle) in pend {
            if !probe.done.load(Ordering::SeqCst) {
                self.pending.push((probe, handle));
                continue;
            }
            let late = probe.late.lock().expect("late").clone();
            let at = probe.at.lock().expect("at").clone();
            let pick = match &late {
                Some(Hop::Moved(_, a)) => a.clone(),
                _ => "-".to_string(),
            };
            let obs = match late {
                Some(h) => render_hop(&h),
                None => format!("{}>STILL_HELD", at),
            };
            self.s.stats.count("op.late");
            self.emit(format!("late {} {} {}", at, probe.slot, pick), obs);
        }
    }

    /// a proxy process dies (a failed proxy): it takes no part any more
    fn do_kill(&mut self, addr: &str) {
        self.net.proxies.write().expect("proxies").remove(addr);
        self.views.remove(addr);
        self.synced_epoch.remove(addr);
        self.emit(format!("kill {}", addr), "ok".to_string());
    }

    fn slot_info(&self) -> Option<Vec<SlotInfo>> {
        let name = self.store.get_cluster_names().first().map(|c| c.to_string())?;
        let c = self.store.get_cluster_by_name(&name, self.limit)?;
        let v = serde_json::to_value(&c).ok()?;
        let mut info: Vec<Option<SlotInfo>> = (0..SLOT_NUM).map(|_| None).collect();
        for n in v["nodes"].as_array().cloned().unwrap_or_default() {
            let addr = n["address"].as_str().unwrap_or("?").to_string();
            let proxy = n["proxy_address"].as_str().unwrap_or("?").to_string();
            for sr in n["slots"].as_array().cloned().unwrap_or_default() {
                if sr["tag"].get("Importing").is_some() {
                    continue;
                }
                let mig = sr["tag"].get("Migrating").map(|m| {
                    (
                        m["src_node_address"].as_str().unwrap_or("?").to_string(),
                        m["dst_node_address"].as_str().unwrap_or("?").to_string(),
                    )
                });
                for r in sr["range_list"].as_array().cloned().unwrap_or_default() {
                    let (s, e) = (r[0].as_u64().unwrap_or(0) as usize, r[1].as_u64().unwrap_or(0) as usize);
                    for x in s..=e.min(SLOT_NUM - 1) {
                        info[x] = Some(SlotInfo { owner_node: addr.clone(), owner_proxy: proxy.clone(), mig: mig.clone() });
                    }
                }
            }
        }
        info.into_iter().collect()
    }

    fn all_synced(&self) -> bool {
        let name = match self.store.get_cluster_names().first() {
            Some(c) => c.to_string(),
            None => return false,
        };
        let proxies = cluster_proxy_set(&self.store, &name);
        !proxies.is_empty()
            && proxies.iter().all(|a| {
                let cur = self.store.get_proxy_by_address(a, self.limit).map(|p| p.get_epoch());
                cur.is_some() && self.synced_epoch.get(a).cloned() == cur
            })
    }

    /// the property's oracle on one client run (only when every proxy of the cluster serves its
    /// current view): executing node ∈ {designated owner, migration source, migration destination},
    /// MOVED count within bound, source before / destination after the switch
    fn oracle(&mut self, start: &str, slot: usize, hops: &[Hop], info: &Option<Vec<SlotInfo>>, synced: bool) {
        if !synced {
            self.s.stats.count("oracle.skipped_unsynced");
            return;
        }
        if !cluster_proxy_set(&self.store, "c1").contains(start) {
            // a proxy outside the cluster (free proxy asked directly) is not a start the property speaks of
            self.s.stats.count("oracle.skipped_start_outside_cluster");
            return;
        }
        let info = match info {
            Some(i) => &i[slot],
            None => return,
        };
        // the gate level that matters for this slot: that of its migration, or — for a stable slot — of a
        // migration whose (possibly blocking) source node is the slot's owner
        let migs = self.migrations();
        let level = match &info.mig {
            Some((src, dst)) => migs
                .iter()
                .find(|(k, _, _)| {
                    let t: Vec<&str> = k.split(' ').collect();
                    t.get(4) == Some(&src.as_str()) && t.get(6) == Some(&dst.as_str())
                })
                .map(|(k, _, _)| self.level_of(k))
                .unwrap_or(0),
            // a stable slot can only be held behind a migration out of its owner node that is blocking
            None => migs
                .iter()
                .filter(|(k, _, _)| k.split(' ').nth(4) == Some(info.owner_node.as_str()))
                .map(|(k, _, _)| self.level_of(k))
                .find(|l| (1..=2).contains(l))
                .unwrap_or(0),
        };
        let moved = hops.iter().filter(|h| matches!(h, Hop::Moved(..))).count();
        let last = hops.last().cloned();
        if level == 9 {
            // forced path (not a handshake phase pair): only "no third node" is claimed
            self.s.stats.count("oracle.forced_path_no_third_node_only");
            let bad = hops.iter().find_map(|h| match (h, &info.mig) {
                (Hop::Exec(_, n), Some((src, dst))) if n != src && n != dst => Some(n.clone()),
                (Hop::Exec(_, n), None) if n != &info.owner_node => Some(n.clone()),
                _ => None,
            });
            if matches!(hops.last(), Some(Hop::Limit(_))) {
                self.s.stats.count("out.follow.forced_pingpong");
            }
            if let Some(n) = bad {
                self.fail(format!("C02: slot {} executed on third node {} on the forced path", slot, n));
            }
            return;
        }
        let what = match (&info.mig, last) {
            (None, Some(Hop::Exec(_, n))) => {
                if n != info.owner_node {
                    Some(format!("stable slot {} executed on {} but the owner is {}", slot, n, info.owner_node))
                } else if moved > 1 {
                    Some(format!("stable slot {}: {} redirections", slot, moved))
                } else {
                    None
                }
            }
            (None, Some(Hop::Held(_))) if (1..=2).contains(&level) && moved <= 1 => None,
            (Some((src, dst)), Some(Hop::Exec(_, n))) => {
                if &n != src && &n != dst {
                    Some(format!("migrating slot {} executed on third node {} (src {}, dst {})", slot, n, src, dst))
                } else if moved > 3 {
                    Some(format!("migrating slot {}: {} redirections", slot, moved))
                } else if level <= 1 && &n != src {
                    Some(format!("migrating slot {} executed on {} before the destination switched", slot, n))
                } else if level >= 3 && &n != dst {
                    Some(format!("migrating slot {} executed on {} after the destination switched", slot, n))
                } else {
                    None
                }
            }
            (Some(_), Some(Hop::Held(_))) if (1..=2).contains(&level) && moved <= 3 => None,
            (_, other) => Some(format!("slot {} from {}: run ended with {:?}", slot, start, other)),
        };
        self.s.stats.count("oracle.checked");
        if let Some(w) = what {
            // (F02a — equal node addresses of one proxy — is fixed in /repo bf43b2d: nothing is excused any more)
            let finding = "";
            let msg = format!("C02: {} [level {}, trace {}]", w, level, hops.iter().map(render_hop).collect::<Vec<_>>().join(";"));
            self.fail_as(msg, finding);
        }
    }

    fn spawn_probe(&self, start: &str, slot: usize) -> (Probe, tokio::task::JoinHandle<()>) {
        let probe = Probe {
            start: start.to_string(),
            slot,
            hops: Arc::new(Mutex::new(vec![])),
            at: Arc::new(Mutex::new(start.to_string())),
            done: Arc::new(AtomicBool::new(false)),
            declared_held: Arc::new(AtomicBool::new(false)),
            late: Arc::new(Mutex::new(None)),
        };
        let h = tokio::spawn(follow_task(
            self.net.clone(),
            self.key_for_slot[slot].clone(),
            start.to_string(),
            probe.hops.clone(),
            probe.at.clone(),
            probe.done.clone(),
            probe.declared_held.clone(),
            probe.late.clone(),
        ));
        (probe, h)
    }

    fn emit_follow(&mut self, probe: &Probe, hops: Vec<Hop>, info: &Option<Vec<SlotInfo>>, synced: bool) {
        let picks: Vec<String> = hops.iter().filter_map(|h| if let Hop::Moved(_, a) = h { Some(a.clone()) } else { None }).collect();
        let k = picks.len();
        let picks_txt = if picks.is_empty() { "-".to_string() } else { picks.join(",") };
        let kind = match hops.last() {
            Some(Hop::Exec(..)) => "X",
            Some(Hop::Held(..)) => "H",
            Some(Hop::Err(..)) => "E",
            _ => "other",
        };
        self.s.stats.count(&format!("out.follow.k{}.{}", k, kind));
        let mig = info.as_ref().map(|i| i[probe.slot].mig.is_some()).unwrap_or(false);
        self.s.stats.count(if mig { "gen.slot.migrating" } else { "gen.slot.stable" });
        if k == 2 || kind == "H" {
            self.s.stats.sample(json!({"start": probe.start, "slot": probe.slot, "level": self.max_level(),
                "trace": hops.iter().map(render_hop).collect::<Vec<_>>().join(";")}));
        }
        self.oracle(&probe.start, probe.slot, &hops, info, synced);
        self.emit(
            format!("follow {} {} {}", probe.start, probe.slot, picks_txt),
            format!("k={} {}", k, hops.iter().map(render_hop).collect::<Vec<_>>().join(";")),
        );
    }

    /// run the client for every (start, slot); runs that do not finish within the grace period are
    /// reported as held at the proxy they wait at and kept until the blocking is released
    async fn do_follow_batch(&mut self, probes: &[(String, usize)]) {
        let info = self.slot_info();
        let synced = self.all_synced();
        let may_block = self.migrations().iter().any(|(k, _, _)| (1..=2).contains(&self.level_of(k)));
        if !may_block {
            for (start, slot) in probes.iter() {
                let (probe, h) = self.spawn_probe(start, *slot);
                let _ = tokio::time::timeout(Duration::from_secs(5), h).await;
                let hops = probe.hops.lock().expect("hops").clone();
                self.emit_follow(&probe, hops, &info, synced);
            }
            return;
        }
        let mut running = vec![];
        for (start, slot) in probes.iter() {
            running.push(self.spawn_probe(start, *slot));
        }
        // grace period: everything that can answer does so within a few scheduler rounds
        for _ in 0..30 {
            tokio::time::sleep(Duration::from_millis(5)).await;
            if running.iter().all(|(p, _)| p.done.load(Ordering::SeqCst)) {
                break;
            }
        }
        for (probe, h) in running {
            if probe.done.load(Ordering::SeqCst) {
                let hops = probe.hops.lock().expect("hops").clone();
                self.emit_follow(&probe, hops, &info, synced);
            } else {
                probe.declared_held.store(true, Ordering::SeqCst);
                let mut hops = probe.hops.lock().expect("hops").clone();
                let at = probe.at.lock().expect("at").clone();
                hops.push(Hop::Held(at));
                self.emit_follow(&probe, hops, &info, synced);
                self.pending.push((probe, h));
            }
        }
    }
}

fn commit_task(n: &str, e: &str, rs: &str, tag: &str) -> Option<MigrationTaskMeta> {
    use undermoon::common::cluster::{MigrationMeta, Range, RangeList, SlotRange};
    let cn = ClusterName::try_from(n).ok()?;
    let ranges: Option<Vec<Range>> = if rs == "e" {
        Some(vec![])
    } else {
        rs.split('+')
            .map(|r| {
                let mut it = r.split('-');
                let a = it.next()?.parse().ok()?;
                let b = it.next()?.parse().ok()?;
                Some(Range(a, b))
            })
            .collect()
    };
    let meta = MigrationMeta {
        epoch: e.parse().ok()?,
        src_proxy_address: "x".into(),
        src_node_address: "x".into(),
        dst_proxy_address: "x".into(),
        dst_node_address: "x".into(),
    };
    let tagv = match tag {
        "M" => SlotRangeTag::Migrating(meta),
        "I" => SlotRangeTag::Importing(meta),
        _ => SlotRangeTag::None,
    };
    Some(MigrationTaskMeta { cluster_name: cn, slot_range: SlotRange { range_list: RangeList::new(ranges?), tag: tagv } })
}

// ---------------------------------------------------------------------------------------------
// generation
// ---------------------------------------------------------------------------------------------

fn proxy_addr(j: u64) -> String {
    format!("10.0.{}.1:6000", j)
}
fn proxy_host(j: u64) -> String {
    format!("10.0.{}.1", j)
}

fn cluster_proxies(store: &MetaStore) -> Vec<String> {
    let mut v: Vec<String> = cluster_proxy_set(store, "c1").into_iter().collect();
    v.sort();
    v
}

/// the pending migrations of the store as commit ops (what the coordinator would report)
fn commit_ops(store: &MetaStore) -> Vec<String> {
    let mut out = BTreeSet::new();
    if let Some(c) = store.get_cluster_by_name("c1", 0) {
        for n in c.get_nodes() {
            for sr in n.get_slots() {
                if let SlotRangeTag::Migrating(m) = &sr.tag {
                    out.insert(format!("commit c1 {} {} M 0", m.epoch, render_ranges(&sr.range_list)));
                }
            }
        }
    }
    out.into_iter().collect()
}

fn boundary_slots(r: &Runner, rng: &mut Rng, n: usize) -> Vec<usize> {
    let mut s = BTreeSet::new();
    if let Some(c) = r.store.get_cluster_by_name("c1", r.limit) {
        for node in c.get_nodes() {
            for sr in node.get_slots() {
                for rg in sr.range_list.get_ranges() {
                    s.insert(rg.start().min(SLOT_NUM - 1));
                    s.insert(rg.end().min(SLOT_NUM - 1));
                }
            }
        }
    }
    let mut v: Vec<usize> = s.into_iter().collect();
    if n == 0 {
        return v;
    }
    while v.len() < n {
        v.push(rng.below(SLOT_NUM as u64) as usize);
    }
    // keep all boundaries when they fit, otherwise a random subset
    while v.len() > n {
        let i = rng.below(v.len() as u64) as usize;
        v.remove(i);
    }
    v
}

async fn sync_all(r: &mut Runner, rng: &mut Rng, addrs: &[String], probe_between: bool, slots: &[usize]) {
    let mut order: Vec<String> = addrs.to_vec();
    for i in (1..order.len()).rev() {
        let j = rng.below(i as u64 + 1) as usize;
        order.swap(i, j);
    }
    let limit = r.limit;
    for (i, a) in order.iter().enumerate() {
        r.do_view(a, limit);
        let mode = if rng.chance(1, 3) { "comp" } else { "plain" };
        r.do_sync(a, mode).await;
        if probe_between && i + 1 < order.len() && rng.chance(1, 2) {
            // partially synced cluster: the model must still predict every hop
            let st = rng.pick(addrs).clone();
            let sl = *rng.pick(slots);
            r.s.stats.count("gen.follow.partially_synced");
            r.do_follow_batch(&[(st, sl)]).await;
        }
    }
}

async fn probe(r: &mut Runner, rng: &mut Rng, starts: &[String], slots: &[usize], per_start: usize) {
    let mut ps = vec![];
    for st in starts.iter() {
        for _ in 0..per_start {
            ps.push((st.clone(), *rng.pick(slots)));
        }
    }
    r.do_follow_batch(&ps).await;
}

async fn gen_case(r: &mut Runner, rng: &mut Rng, thorough: bool, idx: u64) {
    r.new_case();
    let shape = if idx % 12 == 7 { 9 } else { rng.below(9) };
    let n = 4 + 2 * rng.below(3); // 4, 6 or 8 proxies
    for j in 1..=n {
        if shape == 9 {
            // regression for F02a (fixed in /repo bf43b2d): a proxy whose two node addresses are equal is refused
            r.do_b(&["add_proxy", &proxy_addr(j), &format!("{}:7001", proxy_host(j)), &format!("{}:7001", proxy_host(j)), "-"]);
        }
        r.do_b(&["add_proxy", &proxy_addr(j), &format!("{}:7001", proxy_host(j)), &format!("{}:7002", proxy_host(j)), "-"]);
    }
    r.do_b(&["add_cluster", "c1", "4", "-"]);
    r.limit = if shape == 6 { 1 } else { 0 };
    r.s.stats.count(&format!("gen.shape.{}", match shape {
        0 => "stable4",
        1 | 2 => "scale_out_migrating",
        3 => "scale_out_committed",
        4 => "failover_stable",
        5 => "failover_mid_migration",
        6 => "migrating_limit1",
        7 => "scale_down_migrating",
        8 => "forced_path_blocking_timeout",
        _ => "dup_node_address_refused_then_failover",
    }));
    match shape {
        0 => {}
        1 | 2 | 6 => {
            r.do_b(&["add_nodes", "c1", if n >= 8 && rng.chance(1, 2) { "8" } else { "4" }, "-"]);
            r.do_b(&["migrate", "c1"]);
        }
        3 | 7 => {
            r.do_b(&["add_nodes", "c1", "4", "-"]);
            r.do_b(&["migrate", "c1"]);
            for op in commit_ops(&r.store) {
                let t: Vec<&str> = op.split(' ').collect();
                r.do_b(&t);
            }
            if shape == 7 {
                r.do_b(&["scale_down", "c1", "4"]);
            }
        }
        4 | 9 => {
            let ps = cluster_proxies(&r.store);
            let a = rng.pick(&ps).clone();
            r.do_b(&["failover", &a, "-"]);
        }
        8 => {
            r.do_b(&["config", "c1", "migration_max_blocking_time=1200"]);
            r.do_b(&["add_nodes", "c1", "4", "-"]);
            r.do_b(&["migrate", "c1"]);
        }
        _ => {
            r.do_b(&["add_nodes", "c1", "4", "-"]);
            r.do_b(&["migrate", "c1"]);
            let ps = cluster_proxies(&r.store);
            let a = rng.pick(&ps).clone();
            r.do_b(&["failover", &a, "-"]);
        }
    }
    let has_mig = !commit_ops(&r.store).is_empty();
    if has_mig {
        r.flags.insert("migration".to_string());
    }
    // proxy processes: every registered proxy (a failed one keeps running but is never synced again)
    for j in 1..=n {
        r.do_proxy(&proxy_addr(j), &proxy_host(j));
    }
    let in_cluster = cluster_proxies(&r.store);
    let mut sync_set = in_cluster.clone();
    let free: Vec<String> = (1..=n).map(proxy_addr).filter(|a| !in_cluster.contains(a) && !r.store.failed_proxies.contains(a)).collect();
    let mut starts = in_cluster.clone();
    if !free.is_empty() && rng.chance(1, 3) {
        // a free proxy is synced too (empty cluster name) and asked directly
        let f = rng.pick(&free).clone();
        sync_set.push(f.clone());
        starts.push(f);
        r.s.stats.count("gen.start.free_proxy");
    }
    let nslots = if thorough { 96 } else { 48 };
    let slots = boundary_slots(r, rng, nslots);
    sync_all(r, rng, &sync_set, true, &slots).await;
    r.do_states().await;
    let per = if thorough { 24 } else { 10 };
    probe(r, rng, &starts, &slots, per).await;
    // every slot from one start (quick: one case per run; thorough: every 4th case)
    if (!thorough && idx == 1) || (thorough && idx % 4 == 1) {
        let st = rng.pick(&starts).clone();
        let all: Vec<(String, usize)> = (0..SLOT_NUM).map(|s| (st.clone(), s)).collect();
        r.s.stats.count("gen.all_slots_sweep");
        r.do_follow_batch(&all).await;
    }
    if has_mig && shape == 8 {
        for level in [1usize, 9, 6] {
            r.do_gate(level, None).await;
            r.do_states().await;
            probe(r, rng, &starts, &slots, if level == 1 { 3 } else { 6 }).await;
        }
    } else if has_mig {
        // long-lived proxies: the same MetaManagers receive every further SETCLUSTER of the history
        let migs = r.migrations();
        let srcs: BTreeSet<String> = migs.iter().map(|m| m.1.clone()).collect();
        let has_free = (1..=n).map(proxy_addr).any(|a| !in_cluster.contains(&a) && !r.store.failed_proxies.contains(&a));
        let variant = match rng.below(10) {
            0..=4 => 0,
            5..=7 if srcs.len() >= 2 => 1,
            8..=9 if has_free => 2,
            _ => 0,
        };
        match variant {
            1 => {
                // two concurrent migrations: one is walked to the end and committed while the other runs
                r.s.stats.count("gen.history.commit_one_while_other_runs");
                let a_src = rng.pick(&srcs.iter().cloned().collect::<Vec<_>>()).clone();
                let other = *rng.pick(&[0usize, 0, 1, 3, 4, 5]);
                for level in 1..=other {
                    for sp in srcs.iter().filter(|x| **x != a_src) {
                        r.do_gate(level, Some(sp)).await;
                    }
                }
                for level in 1..=6 {
                    r.do_gate(level, Some(&a_src)).await;
                    if level == 3 || level == 6 {
                        r.do_states().await;
                        probe(r, rng, &starts, &slots, 3).await;
                    }
                }
                let commits = reported_commits(r, &[a_src.clone()]).await;
                for op in commits {
                    let t: Vec<&str> = op.split(' ').collect();
                    r.do_b(&t);
                }
                resync(r, rng, &in_cluster).await;
                for level in (other + 1)..=6 {
                    r.do_gate(level, None).await;
                    r.do_states().await;
                    probe(r, rng, &in_cluster, &slots, if (1..=2).contains(&level) { 2 } else { 4 }).await;
                }
                let commits = reported_commits(r, &in_cluster).await;
                for op in commits {
                    let t: Vec<&str> = op.split(' ').collect();
                    r.do_b(&t);
                }
                resync(r, rng, &in_cluster).await;
            }
            2 => {
                // a failover while the migrations run: the migrations that involve the failed proxy are
                // re-issued (fresh tasks), the others keep their tasks and phases under a higher epoch
                r.s.stats.count("gen.history.failover_during_migration");
                let lvl = *rng.pick(&[0usize, 3, 4]);
                for level in 1..=lvl {
                    r.do_gate(level, None).await;
                }
                r.do_states().await;
                let victim = rng.pick(&in_cluster).clone();
                r.do_b(&["failover", &victim, "-"]);
                let now = cluster_proxies(&r.store);
                if !now.contains(&victim) {
                    r.do_kill(&victim);
                }
                resync(r, rng, &now).await;
                for level in [3usize, 6] {
                    r.do_gate(level, None).await;
                    r.do_states().await;
                    probe(r, rng, &now, &slots, 4).await;
                }
            }
            _ => {
                // global walk; at one or two points the epoch is bumped by something that touches no task
                // (balance_masters) and every proxy re-applies its metadata
                let max_level = if rng.chance(3, 4) { 6 } else { rng.below(6) as usize + 1 };
                let p1 = rng.below(max_level as u64 + 1) as usize;
                let p2 = rng.below(max_level as u64 + 1) as usize;
                for level in 0..=max_level {
                    if level > 0 {
                        r.do_gate(level, None).await;
                        r.do_states().await;
                        let per = if (1..=2).contains(&level) { 3 } else { 6 };
                        probe(r, rng, &starts, &slots, per).await;
                    }
                    if level == p1 || (level == p2 && rng.chance(1, 2)) {
                        r.s.stats.count(&format!("gen.history.balance_resync_at_level_{}", level));
                        r.do_b(&["balance", "c1"]);
                        resync(r, rng, &in_cluster).await;
                    }
                }
                if max_level == 6 && rng.chance(2, 3) {
                    // the coordinator commits what the source proxies report (real INFOMGR → real from_strings)
                    let commits = reported_commits(r, &in_cluster).await;
                    for op in commits {
                        let t: Vec<&str> = op.split(' ').collect();
                        r.do_b(&t);
                    }
                    r.s.stats.count("gen.commit_round");
                    resync(r, rng, &in_cluster).await;
                }
            }
        }
    }
}

/// what the given proxies report as finished (real `UMCTL INFOMGR`, real `from_strings`), as commit ops
async fn reported_commits(r: &Runner, proxies: &[String]) -> BTreeSet<String> {
    let mut commits = BTreeSet::new();
    for a in proxies.iter() {
        let p = r.net.proxies.read().expect("proxies").get(a).cloned();
        if let Some(p) = p {
            if let Resp::Arr(Array::Arr(items)) = run_cmd(&p, &[b"UMCTL".to_vec(), b"INFOMGR".to_vec()]).await {
                for it in items {
                    if let Resp::Bulk(BulkStr::Str(b)) = it {
                        let s = String::from_utf8_lossy(&b).to_string();
                        let mut toks = s.split(' ').map(|t| t.to_string()).peekable();
                        if let Some(m) = MigrationTaskMeta::from_strings(&mut toks) {
                            if let SlotRangeTag::Migrating(meta) = &m.slot_range.tag {
                                commits.insert(format!("commit c1 {} {} M 0", meta.epoch, render_ranges(&m.slot_range.range_list)));
                            }
                        }
                    }
                }
            }
        }
    }
    commits
}

/// every live proxy of the cluster re-applies the broker's current metadata; afterwards one key of
/// every slot class (both ends of every range the view shows) is routed from every proxy
async fn resync(r: &mut Runner, rng: &mut Rng, addrs: &[String]) {
    r.s.stats.count("gen.history.resync");
    let classes = boundary_slots(r, rng, 0);
    sync_all(r, rng, addrs, false, &classes).await;
    r.do_states().await;
    let mut ps = vec![];
    for st in addrs.iter() {
        for sl in classes.iter() {
            ps.push((st.clone(), *sl));
        }
    }
    r.do_follow_batch(&ps).await;
}

/// Replays are written with the proxy addresses of the run that recorded them, but the real store
/// allocates chunks in `HashMap` order, which differs from run to run.  All proxies are generated
/// alike (`10.0.<j>.1:…`), so a recorded run is replayed up to the renaming of `<j>` that makes the
/// recorded allocation choices equal to the ones the store makes this time.
#[derive(Default)]
struct Remap {
    map: BTreeMap<u64, u64>,
}

impl Remap {
    fn idx(tok: &str) -> Option<(u64, &str)> {
        let rest = tok.strip_prefix("10.0.")?;
        let dot = rest.find('.')?;
        let j: u64 = rest[..dot].parse().ok()?;
        Some((j, &rest[dot..]))
    }
    fn get(&mut self, j: u64) -> u64 {
        if let Some(x) = self.map.get(&j) {
            return *x;
        }
        let used: BTreeSet<u64> = self.map.values().cloned().collect();
        let mut x = j;
        if used.contains(&x) {
            x = 1;
            while used.contains(&x) || (self.map.contains_key(&x) && x != j) {
                x += 1;
            }
        }
        self.map.insert(j, x);
        x
    }
    fn tok(&mut self, t: &str) -> String {
        match Self::idx(t) {
            Some((j, rest)) => format!("10.0.{}{}", self.get(j), rest),
            None => t.to_string(),
        }
    }
    /// recorded and actual allocation (`a,b;c,d` or a single address): pair them up
    fn learn(&mut self, recorded: &str, actual: &str) {
        let split = |s: &str| -> Vec<u64> {
            s.split(|c| c == ',' || c == ';').filter_map(|t| Self::idx(t).map(|x| x.0)).collect()
        };
        let (r, a) = (split(recorded), split(actual));
        if r.len() == a.len() {
            for (x, y) in r.into_iter().zip(a.into_iter()) {
                self.map.entry(x).or_insert(y);
            }
        }
    }
}

async fn replay(r: &mut Runner, lines: &[String]) {
    r.new_case();
    let mut remap = Remap::default();
    // consecutive `follow` lines are one batch (as generated): the clients run concurrently, so the
    // queued ones cost one grace period in total and the wall-clock limits of a phase are respected
    let mut batch: Vec<(String, usize)> = vec![];
    for l in lines.iter().chain(std::iter::once(&"end".to_string())) {
        if l.starts_with('#') {
            continue;
        }
        if !l.starts_with("follow ") && !batch.is_empty() {
            let b: Vec<(String, usize)> = batch.drain(..).collect();
            r.do_follow_batch(&b).await;
        }
        let raw: Vec<&str> = l.split(' ').collect();
        let has_choice = matches!(raw.as_slice(), ["b", "add_cluster", ..] | ["b", "add_nodes", ..] | ["b", "failover", ..]);
        // registering the proxies is symmetric in <j>: no renaming there (and none learned yet)
        let verbatim = matches!(raw.as_slice(), ["b", "add_proxy", ..]);
        let n = raw.len();
        let owned: Vec<String> = raw
            .iter()
            .enumerate()
            .map(|(i, t)| if verbatim || (has_choice && i + 1 == n) { t.to_string() } else { remap.tok(t) })
            .collect();
        let toks: Vec<&str> = owned.iter().map(|s| s.as_str()).collect();
        match toks.as_slice() {
            ["case", _] => r.new_case(),
            ["b", rest @ ..] => {
                r.do_b(rest);
                if has_choice {
                    let actual = r.ops.last().and_then(|o| o.split(' ').last().map(|s| s.to_string())).unwrap_or_default();
                    remap.learn(raw[n - 1], &actual);
                }
            }
            ["proxy", a, h] => r.do_proxy(a, h),
            ["view", a, l] => {
                let lim = l.parse().unwrap_or(0);
                r.limit = lim;
                r.do_view(a, lim)
            }
            ["sync", a, m] => r.do_sync(a, m).await,
            ["gate", l] => r.do_gate(l.parse().unwrap_or(0), None).await,
            ["gate", l, sp] => r.do_gate(l.parse().unwrap_or(0), Some(sp)).await,
            ["kill", a] => r.do_kill(a),
            ["states"] => r.do_states().await,
            ["follow", st, sl, _] => {
                if let Ok(s) = sl.parse::<usize>() {
                    if s < SLOT_NUM {
                        batch.push((st.to_string(), s));
                    }
                }
            }
            // re-derived by `gate`
            ["hs", ..] | ["src", ..] | ["late", ..] => {}
            _ => {}
        }
    }
}

fn main() {
    let args = parse_args();
    let mut key_for_slot: Vec<Vec<u8>> = vec![vec![]; SLOT_NUM];
    let mut found = 0;
    let mut i = 0u64;
    while found < SLOT_NUM {
        let k = format!("r{}", i).into_bytes();
        let s = generate_slot(&k);
        if key_for_slot[s].is_empty() {
            key_for_slot[s] = k;
            found += 1;
        }
        i += 1;
    }
    let key_for_slot = Arc::new(key_for_slot);
    let mut rng = Rng::new(args.seed);
    let mut runner = Runner {
        s: Streams::new(&args),
        case: 0,
        ops: vec![],
        store: MetaStore::new(false),
        net: Arc::new(NetInner::default()),
        views: HashMap::new(),
        synced_epoch: HashMap::new(),
        key_for_slot,
        pending: vec![],
        limit: 0,
        flags: BTreeSet::new(),
    };
    if let Some(p) = &args.replay {
        let lines = read_lines(p);
        // one runtime per case so that the background tasks of a case die with it
        let mut cases: Vec<Vec<String>> = vec![vec![]];
        for l in lines {
            if l.starts_with("case ") && !cases.last().map(|c| c.is_empty()).unwrap_or(true) {
                cases.push(vec![]);
            }
            if !l.starts_with("case ") {
                cases.last_mut().expect("case").push(l);
            }
        }
        for c in cases {
            let rt = tokio::runtime::Builder::new_current_thread().enable_all().build().expect("runtime");
            rt.block_on(replay(&mut runner, &c));
            runner.pending.clear();
            drop(rt);
        }
    } else {
        let cases = if args.thorough { 160 } else { 24 };
        for idx in 1..=cases {
            let rt = tokio::runtime::Builder::new_current_thread().enable_all().build().expect("runtime");
            let mut crng = rng.fork();
            rt.block_on(gen_case(&mut runner, &mut crng, args.thorough, idx));
            runner.pending.clear();
            drop(rt);
        }
    }
    runner.new_case_flush();
    runner.s.finish("umh_route", "a case is non-trivial when it has a pending migration and its handshake was driven through at least one gate level");
}

impl Runner {
    fn new_case_flush(&mut self) {
        if self.case > 0 && self.flags.contains("migration") && self.flags.contains("handshake") {
            let txt = self.ops.join("\n");
            self.s.stats.nontrivial_case(&txt);
        }
    }
}
