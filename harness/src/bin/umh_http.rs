//! Correspondence stream `http` (C01, C04): the broker model against the real broker *through its
//! HTTP API*. A real `undermoon::broker::run_server(Arc<MemBrokerService>, addr)` (warp routes + JSON
//! bodies of src/broker/service.rs) runs on a loopback port; random operation histories are driven
//! through it with the project's own HTTP clients where they exist
//! (`coordinator::http_meta_broker::HttpMetaBroker`: get_cluster_names, get_cluster, get_proxy_addresses,
//! get_proxy, add_failure, get_failures, get_failed_proxies;
//! `coordinator::http_mani_broker::HttpMetaManipulationBroker`: replace_proxy, commit_migration — they talk
//! to the server through a byte-copying loopback forwarder that records the raw response so that the
//! `{"error": CODE}` body the client throws away can be printed) and with plain `reqwest` for the admin
//! endpoints the coordinator does not use.
//!
//! ops.txt is in the grammar of the `broker` driver (see umh_broker.rs): after every mutating call
//!   <op line> -> `OK… g=<GET /epoch>` | `ERR <code of the JSON error body> g=…`
//!   state     -> `GET /metadata` (gzip) decoded into the real `MetaStore`, `render_store`
//!   check, inv
//!   view <name> <limit> / proxy <addr> <limit> -> what `HttpMetaBroker` decoded, `render_vcluster` /
//!                `render_vproxy` of `serde_json::to_value` of the decoded structs; <limit> = the
//!                service's `migration_limit` (cases run with 0, 1, 2)
//!   views <limit> -> digest over all of them + `GET /clusters/info/<name>`
//! Strings that travel in URL paths are printed as the server received them ("effective" argument: the
//! clients do not percent-encode, reqwest/url encodes some characters, warp does not decode); when that is
//! not the string the caller named, the oracle reports it.
//!
//! Replay files ("intent" grammar ⊇ ops.txt): `cfg limit=L ordered=0|1 gzip=0|1 quorum=Q pool=0|1` first,
//! then op lines; `change_num n k -` = the composite POST /clusters/migrations/auto/n/k (emits `change_num`
//! and, after the wait for the proxy epochs, `scale_out_num`), `recover N` = PUT /epoch/recovery,
//! `snap` / `restart N` = new service + server from the snapshot, then PUT /epoch/recovery;
//! `probe …` lines are implementation-only checks; `@i` = loopback stand-in i; query lines are skipped.
#![recursion_limit = "1024"] // the warp filter tree behind `run_server` (cf. hook H4)
use futures::StreamExt;
use serde_json::{json, Value};
use std::collections::{BTreeMap, BTreeSet, HashMap};
use std::convert::TryFrom;
use std::sync::atomic::{AtomicBool, AtomicU64, Ordering};
use std::sync::{Arc, Mutex};
use std::time::Duration;
use tokio::io::{AsyncReadExt, AsyncWriteExt};
use umharness::broker_support::*;
use umharness::util::*;
use undermoon::broker::verif_export::store::{ClusterInfo, MetaStore};
use undermoon::broker::{run_server, JsonFileStorage, JsonMetaReplicator, MemBrokerConfig, MemBrokerService, StorageConfig};
use undermoon::common::cluster::{Cluster, ClusterName, MigrationMeta, MigrationTaskMeta, Node, Proxy, Range, RangeList, SlotRange, SlotRangeTag};
use undermoon::common::config::ClusterConfig;
use undermoon::coordinator::broker::{MetaDataBroker, MetaManipulationBroker};
use undermoon::coordinator::http_mani_broker::{HttpMetaManipulationBroker, ReplaceProxyResponse};
use undermoon::coordinator::http_meta_broker::HttpMetaBroker;

const HIGH_EPOCH: u64 = u64::MAX;
const FAILURE_TTL: u64 = 315_360_000; // ten years: the clock does not matter

// ---------------------------------------------------------------------------------------------
// loopback stand-ins answering UMCTL GETEPOCH (as in umh_recover.rs)
// ---------------------------------------------------------------------------------------------

#[derive(Clone)]
struct Standins {
    pool: Arc<Vec<String>>,
    epochs: Arc<Mutex<HashMap<String, Option<u64>>>>, // address -> Some(installed epoch) | None (down)
    hits: Arc<AtomicU64>,
    high: Arc<AtomicBool>, // answer HIGH_EPOCH whatever is installed
}

fn find(h: &[u8], n: &[u8]) -> Option<usize> { h.windows(n.len()).position(|w| w == n) }

async fn serve_standin(listener: tokio::net::TcpListener, addr: String, st: Standins) {
    loop {
        let (mut sock, _) = match listener.accept().await { Ok(x) => x, Err(_) => return };
        let st = st.clone();
        let addr = addr.clone();
        tokio::spawn(async move {
            let mut buf = vec![0u8; 4096];
            let mut acc: Vec<u8> = vec![];
            loop {
                let state = st.epochs.lock().unwrap().get(&addr).cloned().unwrap_or(Some(0));
                if state.is_none() { return; } // down: close at once
                let n = match sock.read(&mut buf).await { Ok(0) | Err(_) => return, Ok(n) => n };
                acc.extend_from_slice(&buf[..n]);
                while let Some(pos) = find(&acc, b"GETEPOCH\r\n") {
                    acc.drain(..pos + 10);
                    st.hits.fetch_add(1, Ordering::SeqCst);
                    let e = if st.high.load(Ordering::SeqCst) { HIGH_EPOCH } else { st.epochs.lock().unwrap().get(&addr).cloned().flatten().unwrap_or(0) };
                    if sock.write_all(format!(":{}\r\n", e).as_bytes()).await.is_err() { return; }
                }
            }
        });
    }
}

async fn start_standins(n: usize) -> Standins {
    let mut st = Standins { pool: Arc::new(vec![]), epochs: Arc::new(Mutex::new(HashMap::new())), hits: Arc::new(AtomicU64::new(0)), high: Arc::new(AtomicBool::new(false)) };
    let mut ls = vec![];
    let mut pool = vec![];
    for _ in 0..n {
        let l = tokio::net::TcpListener::bind("127.0.0.1:0").await.expect("bind");
        pool.push(format!("127.0.0.1:{}", l.local_addr().expect("addr").port()));
        ls.push(l);
    }
    st.pool = Arc::new(pool.clone());
    for (l, a) in ls.into_iter().zip(pool.into_iter()) { tokio::spawn(serve_standin(l, a, st.clone())); }
    st
}

// ---------------------------------------------------------------------------------------------
// recording forwarder: client -> forwarder -> server; the bytes of the responses are kept
// ---------------------------------------------------------------------------------------------

type Tee = Arc<Mutex<Vec<u8>>>;

async fn forwarder(listener: tokio::net::TcpListener, upstream: String, tee: Tee) {
    loop {
        let (client, _) = match listener.accept().await { Ok(x) => x, Err(_) => return };
        let upstream = upstream.clone();
        let tee = tee.clone();
        tokio::spawn(async move {
            let server = match tokio::net::TcpStream::connect(&upstream).await { Ok(s) => s, Err(_) => return };
            let (mut cr, mut cw) = client.into_split();
            let (mut sr, mut sw) = server.into_split();
            let up = tokio::spawn(async move { let _ = tokio::io::copy(&mut cr, &mut sw).await; let _ = sw.shutdown().await; });
            let mut buf = vec![0u8; 16384];
            loop {
                let n = match sr.read(&mut buf).await { Ok(0) | Err(_) => break, Ok(n) => n };
                tee.lock().unwrap().extend_from_slice(&buf[..n]);
                if cw.write_all(&buf[..n]).await.is_err() { break; }
            }
            let _ = cw.shutdown().await;
            up.abort();
        });
    }
}

/// first HTTP/1.1 response in `buf`: (status, body bytes as sent: content-length or de-chunked)
fn parse_http_response(buf: &[u8]) -> Option<(u16, Vec<u8>)> {
    let hend = find(buf, b"\r\n\r\n")?;
    let head = String::from_utf8_lossy(&buf[..hend]).to_string();
    let mut lines = head.split("\r\n");
    let status: u16 = lines.next()?.split(' ').nth(1)?.parse().ok()?;
    let mut clen: Option<usize> = None;
    let mut chunked = false;
    for l in lines {
        let mut it = l.splitn(2, ':');
        let (k, v) = (it.next()?.trim().to_ascii_lowercase(), it.next().unwrap_or("").trim().to_ascii_lowercase());
        if k == "content-length" { clen = v.parse().ok(); }
        if k == "transfer-encoding" && v.contains("chunked") { chunked = true; }
    }
    let rest = &buf[hend + 4..];
    if chunked {
        let mut out = vec![];
        let mut p = 0;
        loop {
            let le = find(&rest[p..], b"\r\n")?;
            let sz = usize::from_str_radix(String::from_utf8_lossy(&rest[p..p + le]).split(';').next()?.trim(), 16).ok()?;
            p += le + 2;
            if sz == 0 { break; }
            out.extend_from_slice(rest.get(p..p + sz)?);
            p += sz + 2;
        }
        Some((status, out))
    } else {
        let n = clen.unwrap_or(0);
        Some((status, rest.get(..n)?.to_vec()))
    }
}

// ---------------------------------------------------------------------------------------------
// one running broker: service + warp server + forwarder + the clients
// ---------------------------------------------------------------------------------------------

#[derive(Clone, Debug)]
struct CaseCfg { limit: u64, ordered: bool, gzip: bool, quorum: u64, pool: bool }

impl CaseCfg {
    fn line(&self) -> String { format!("cfg limit={} ordered={} gzip={} quorum={} pool={}", self.limit, self.ordered as u8, self.gzip as u8, self.quorum, self.pool as u8) }
    fn parse(l: &str) -> Option<CaseCfg> {
        let mut c = CaseCfg { limit: 0, ordered: false, gzip: true, quorum: 1, pool: false };
        let mut it = l.split(' ');
        if it.next()? != "cfg" { return None; }
        for kv in it {
            let mut p = kv.split('=');
            let (k, v) = (p.next()?, p.next()?.parse::<u64>().ok()?);
            match k { "limit" => c.limit = v, "ordered" => c.ordered = v != 0, "gzip" => c.gzip = v != 0, "quorum" => c.quorum = v, "pool" => c.pool = v != 0, _ => return None }
        }
        Some(c)
    }
}

struct Inst {
    addr: String,
    server: tokio::task::JoinHandle<()>,
    fwd: tokio::task::JoinHandle<()>,
    tee: Tee,
    meta: HttpMetaBroker,
    mani: HttpMetaManipulationBroker,
    raw: reqwest::Client,
}

impl Drop for Inst {
    fn drop(&mut self) { self.server.abort(); self.fwd.abort(); }
}

struct Resp { status: u16, body: String, json: Option<Value> }

impl Resp {
    /// the `MetaStoreError` code the JSON body carries; a reply without one is printed as HTTP<status>
    fn code(&self) -> String {
        match self.json.as_ref().and_then(|j| j.get("error")).and_then(|e| e.as_str()) { Some(c) => c.to_string(), None => format!("HTTP{}", self.status) }
    }
    fn ok(&self) -> bool { self.status == 200 }
}

async fn start_inst(cfg: &CaseCfg, last: Option<MetaStore>) -> Result<Inst, String> {
    for _attempt in 0..20 {
        let port = { let l = std::net::TcpListener::bind("127.0.0.1:0").map_err(|e| e.to_string())?; l.local_addr().map_err(|e| e.to_string())?.port() };
        let addr = format!("127.0.0.1:{}", port);
        // UMH_HTTP_SELFTEST=limit|quorum runs the service with another value than the one the harness prints / expects
        // (a sensitivity test of this harness: the run must then disagree with the model resp. fail the failures oracle)
        let selftest = std::env::var("UMH_HTTP_SELFTEST").unwrap_or_default();
        let mcfg = MemBrokerConfig { address: addr.clone(), failure_ttl: FAILURE_TTL, failure_quorum: cfg.quorum + (selftest == "quorum") as u64, migration_limit: cfg.limit + (selftest == "limit") as u64,
            recover_from_meta_file: false, meta_filename: "/nonexistent/umh_http.json".into(), auto_update_meta_file: false,
            update_meta_file_interval: None, replica_addresses: Arc::new(arc_swap::ArcSwap::new(Arc::new(vec![]))),
            sync_meta_interval: None, enable_ordered_proxy: cfg.ordered, storage: StorageConfig::Memory, debug: false };
        let svc = MemBrokerService::new(mcfg, ClusterConfig::default(), Arc::new(JsonFileStorage::new("/nonexistent/umh_http.json".into())),
            Arc::new(JsonMetaReplicator::new(Arc::new(arc_swap::ArcSwap::new(Arc::new(vec![]))), reqwest::Client::new())), last.clone())
            .map_err(|e| e.to_code().to_string())?;
        let sock: std::net::SocketAddr = addr.parse().map_err(|_| "addr".to_string())?;
        let server = tokio::spawn(run_server(Arc::new(svc), sock));
        let mut up = false;
        for _ in 0..200 {
            if server.is_finished() { break; }
            if tokio::net::TcpStream::connect(&addr).await.is_ok() { up = true; break; }
            tokio::time::sleep(Duration::from_millis(5)).await;
        }
        if !up { server.abort(); continue; }
        let fl = tokio::net::TcpListener::bind("127.0.0.1:0").await.map_err(|e| e.to_string())?;
        let faddr = format!("127.0.0.1:{}", fl.local_addr().map_err(|e| e.to_string())?.port());
        let tee: Tee = Arc::new(Mutex::new(vec![]));
        let fwd = tokio::spawn(forwarder(fl, addr.clone(), tee.clone()));
        let baddrs = Arc::new(arc_swap::ArcSwap::new(Arc::new(vec![faddr.clone()])));
        // `reqwest::Client::new()` is what src/bin/coordinator.rs builds
        let meta = HttpMetaBroker::new(baddrs.clone(), reqwest::Client::new(), cfg.gzip);
        let mani = HttpMetaManipulationBroker::new(baddrs, reqwest::Client::new());
        return Ok(Inst { addr, server, fwd, tee, meta, mani, raw: reqwest::Client::new() });
    }
    Err("could not start the broker server".into())
}

impl Inst {
    async fn raw(&self, m: reqwest::Method, path: &str, body: Option<&Value>) -> Resp {
        let url = format!("http://{}/api/v3{}", self.addr, path);
        let mut rb = self.raw.request(m, &url);
        if let Some(b) = body { rb = rb.json(b); }
        self.finish(rb).await
    }
    async fn raw_text(&self, m: reqwest::Method, path: &str, body: &str) -> Resp {
        let url = format!("http://{}/api/v3{}", self.addr, path);
        let rb = self.raw.request(m, &url).header("content-type", "application/json").body(body.to_string());
        self.finish(rb).await
    }
    async fn finish(&self, rb: reqwest::RequestBuilder) -> Resp {
        match rb.send().await {
            Err(e) => Resp { status: 0, body: format!("{:?}", e), json: None },
            Ok(r) => {
                let status = r.status().as_u16();
                let body = r.text().await.unwrap_or_else(|e| format!("<body: {:?}>", e));
                let json = serde_json::from_str(&body).ok();
                Resp { status, body, json }
            }
        }
    }
    fn tee_reset(&self) { self.tee.lock().unwrap().clear(); }
    /// the raw response the project's client just consumed
    fn tee_resp(&self) -> Resp {
        let buf = self.tee.lock().unwrap().clone();
        match parse_http_response(&buf) {
            None => Resp { status: 0, body: String::from_utf8_lossy(&buf).to_string(), json: None },
            Some((status, body)) => { let body = String::from_utf8_lossy(&body).to_string(); let json = serde_json::from_str(&body).ok(); Resp { status, body, json } }
        }
    }
}

// ---------------------------------------------------------------------------------------------
// what the server's route sees of a client-formatted path
// ---------------------------------------------------------------------------------------------

#[derive(Clone)]
enum Part { F(&'static str), A(String) }

fn fmt_path(parts: &[Part]) -> String {
    let mut s = String::new();
    for p in parts { s.push('/'); match p { Part::F(x) => s.push_str(x), Part::A(x) => s.push_str(x) } }
    s
}

/// the arguments as they arrive at the route (`None`: the request does not reach the intended route).
/// reqwest/url percent-encodes `"<>`{}#?`, space and non-ASCII in paths and turns `\` into `/`; `?` and `#` cut
/// the path; warp's `String` path parameter is the raw segment.
fn effective(parts: &[Part]) -> Option<Vec<String>> {
    let u = reqwest::Url::parse(&format!("http://127.0.0.1:1/api/v3{}", fmt_path(parts))).ok()?;
    let segs: Vec<String> = u.path_segments()?.skip(2).map(|s| s.to_string()).collect();
    if segs.len() != parts.len() { return None; }
    let mut out = vec![];
    for (s, p) in segs.iter().zip(parts.iter()) {
        match p { Part::F(x) => if s != x { return None; }, Part::A(_) => { if s.is_empty() { return None; } out.push(s.clone()); } }
    }
    Some(out)
}

// ---------------------------------------------------------------------------------------------
// the world: one case = one broker instance + the oracles' memory
// ---------------------------------------------------------------------------------------------

struct World {
    s: Streams,
    st: Standins,
    rng: Rng,              // choices of the harness itself (omit-vs-null, down proxies, sampling)
    inst: Option<Inst>,
    cfg: CaseCfg,
    store: MetaStore,      // decoded from the last GET /metadata
    case: u64,
    ops: Vec<String>,      // replay (intent) lines of the current case
    last_epochs: BTreeMap<String, (u64, String)>,
    max_served: BTreeMap<String, u64>,
    last_global: u64,
    snapshot: Option<MetaStore>,
    recover_floor: Option<u64>,
    after_restore: bool,   // a PUT /metadata with a larger epoch was accepted: the model no longer follows
    saw_migration: bool,
    saw_failover: bool,
    dead: bool,
    reported: BTreeSet<String>,
    prev_registered: BTreeSet<String>, // registered before the current call
    known_reports: u64,
}

fn parse_ranges(s: &str) -> Option<Vec<Range>> {
    if s == "e" { return Some(vec![]); }
    s.split('+').map(|r| { let mut it = r.split('-'); let a = it.next()?.parse().ok()?; let b = it.next()?.parse().ok()?; Some(Range(a, b)) }).collect()
}

fn cluster_proxy_set(store: &MetaStore, name: &str) -> BTreeSet<String> {
    ClusterName::try_from(name).ok().and_then(|cn| store.clusters.get(&cn).map(|c| c.chunks.iter().flat_map(|ch| ch.proxy_addresses.iter().cloned()).collect())).unwrap_or_default()
}

fn new_chunks(before: &BTreeSet<String>, store: &MetaStore, name: &str) -> String {
    let v: Vec<String> = ClusterName::try_from(name).ok().and_then(|cn| store.clusters.get(&cn).map(|c| c.chunks.iter()
        .filter(|ch| !before.contains(&ch.proxy_addresses[0]) && !before.contains(&ch.proxy_addresses[1]))
        .map(|ch| format!("{},{}", ch.proxy_addresses[0], ch.proxy_addresses[1])).collect())).unwrap_or_default();
    if v.is_empty() { "-".into() } else { v.join(";") }
}

fn is_migrating(store: &MetaStore, name: &str) -> bool {
    ClusterName::try_from(name).ok().and_then(|cn| store.clusters.get(&cn).map(|c| c.is_migrating())).unwrap_or(false)
}

impl World {
    fn inst(&self) -> &Inst { self.inst.as_ref().expect("instance") }

    /// pool addresses are written `@i` in replay lines (the ports differ between runs)
    fn to_replay(&self, l: &str) -> String {
        let mut l = l.to_string();
        if self.cfg.pool { for (i, a) in self.st.pool.iter().enumerate() { l = l.replace(a.as_str(), &format!("@{}", i)); } }
        l
    }
    fn from_replay(&self, l: &str) -> String {
        l.split(' ').map(|t| {
            // inside choice lists too
            let mut out = String::new();
            let mut rest = t;
            while let Some(p) = rest.find('@') {
                out.push_str(&rest[..p]);
                let digits: String = rest[p + 1..].chars().take_while(|c| c.is_ascii_digit()).collect();
                match digits.parse::<usize>().ok().and_then(|i| self.st.pool.get(i)) {
                    Some(a) if !digits.is_empty() => { out.push_str(a); rest = &rest[p + 1 + digits.len()..]; }
                    _ => { out.push('@'); rest = &rest[p + 1..]; }
                }
            }
            out.push_str(rest);
            out
        }).collect::<Vec<_>>().join(" ")
    }
    fn record(&mut self, intent: &str) { let l = self.to_replay(intent); self.ops.push(l); }
    fn emit(&mut self, op: &str, obs: &str) { self.s.op(op, obs); }
    fn fail(&mut self, what: String, finding: &str) {
        // a known class is reported once per case (it would crowd out everything else)
        if !finding.is_empty() {
            self.known_reports += if self.reported.contains(finding) { 0 } else { 1 };
            if self.known_reports > 6 || !self.reported.insert(finding.to_string()) { self.s.stats.count(&format!("oracle.repeat.{}", finding)); return; }
        }
        let c = self.case;
        let r = self.ops.clone();
        self.s.stats.count(&format!("oracle.{}", what.split(':').next().unwrap_or("?")));
        self.s.stats.oracle_failure(c, &what, finding, r);
    }

    async fn new_case(&mut self, cfg: CaseCfg) {
        self.flush_case_stats();
        self.inst = None;
        self.cfg = cfg.clone();
        self.case = self.s.case();
        self.ops.clear();
        self.last_epochs.clear();
        self.max_served.clear();
        self.last_global = 0;
        self.snapshot = None;
        self.recover_floor = None;
        self.after_restore = false;
        self.saw_migration = false;
        self.saw_failover = false;
        self.dead = false;
        self.reported.clear();
        self.st.high.store(false, Ordering::SeqCst);
        for a in self.st.pool.iter() { self.st.epochs.lock().unwrap().insert(a.clone(), Some(0)); }
        self.ops.push(cfg.line());
        self.s.stats.count(&format!("gen.limit.{}", cfg.limit));
        self.s.stats.count(if cfg.ordered { "gen.mode.ordered" } else { "gen.mode.normal" });
        self.s.stats.count(if cfg.gzip { "gen.client.gzip" } else { "gen.client.identity" });
        self.s.stats.count(&format!("gen.quorum.{}", cfg.quorum));
        self.s.stats.count(if cfg.pool { "gen.addresses.loopback_standins" } else { "gen.addresses.symbolic" });
        match start_inst(&cfg, None).await {
            Ok(i) => self.inst = Some(i),
            Err(e) => { self.dead = true; self.fail(format!("C01: broker server did not start: {}", e), ""); return; }
        }
        self.refresh().await;
        if cfg.ordered {
            let g = self.store.global_epoch;
            self.emit("mode ordered", &format!("OK g={}", g));
        }
    }
    fn flush_case_stats(&mut self) {
        if self.case > 0 && self.saw_migration && self.saw_failover {
            let txt = self.ops.join("\n");
            self.s.stats.nontrivial_case(&txt);
        }
    }

    /// GET /metadata (gzip route) -> the real `MetaStore`; GET /epoch must agree
    async fn refresh(&mut self) {
        let r = self.inst().raw(reqwest::Method::GET, "/metadata", None).await;
        match serde_json::from_str::<MetaStore>(&r.body) {
            Ok(m) if r.ok() => self.store = m,
            _ => { self.dead = true; self.fail(format!("C01: GET /metadata answered {} {}", r.status, r.body.chars().take(200).collect::<String>()), ""); return; }
        }
        let e = self.inst().raw(reqwest::Method::GET, "/epoch", None).await;
        let ge = e.json.as_ref().and_then(|j| j.as_u64());
        if !e.ok() || ge != Some(self.store.global_epoch) {
            self.fail(format!("C04: GET /epoch answered {} {} while the metadata carries global epoch {}", e.status, e.body, self.store.global_epoch), "");
        }
    }

    fn fin(&self, r: &Resp, extra: &str) -> String {
        if r.ok() { format!("OK{} g={}", extra, self.store.global_epoch) } else { format!("ERR {} g={}", r.code(), self.store.global_epoch) }
    }

    /// an argument was not delivered as named: the caller asked for `named`, the route got `eff`
    fn misdelivered(&mut self, what: &str, named: &[&str], eff: &Option<Vec<String>>) {
        let same = match eff { Some(v) => v.iter().map(|s| s.as_str()).collect::<Vec<_>>() == named, None => false };
        if !same {
            // a caller-side spelling problem unless the string is the address of a registered proxy: then the API
            // has accepted a proxy it cannot address afterwards
            let got = match eff { Some(v) => format!("{:?}", v), None => "no route".to_string() };
            if named.iter().any(|n| self.store.all_proxies.contains_key(*n) || self.prev_registered.contains(*n)) {
                self.s.stats.count("glue.registered_proxy_not_addressable");
                self.fail(format!("C01: {}: the address of a registered proxy in {:?} reaches the service as {}", what, named, got), "F01h");
            } else {
                self.s.stats.count("glue.path_argument_rewritten_by_url_syntax");
            }
        }
    }

    /// a request whose path does not reach the intended route: it must be refused without a MetaStoreError body
    /// and change nothing (the `state` line that follows is compared with the model, which saw no operation)
    fn expect_no_route(&mut self, what: &str, r: &Resp) {
        if r.ok() || r.json.as_ref().and_then(|j| j.get("error")).is_some() {
            self.fail(format!("C01: {}: expected no route, got {} {}", what, r.status, r.body), "");
        }
        self.s.stats.count(&format!("out.no_route.{}", r.status));
    }

    /// one mutating intent through HTTP; returns the (op line, observable) pairs in broker-driver grammar
    async fn exec(&mut self, toks: &[&str]) -> Vec<(String, String)> {
        use reqwest::Method as M;
        let before = self.store.clone();
        self.prev_registered = before.all_proxies.keys().cloned().collect();
        let simple = |w: &World, line: String, r: &Resp| vec![(line, w.fin(r, ""))];
        match toks {
            ["add_proxy", a, n0, n1, h] | ["add_proxy", a, n0, n1, h, _] => {
                let idx = toks.get(5).cloned();
                let mut body = serde_json::Map::new();
                body.insert("proxy_address".into(), json!(a));
                body.insert("nodes".into(), json!([n0, n1]));
                // `None` travels as null or as a missing field
                if *h != "-" { body.insert("host".into(), json!(h)); } else if self.rng.chance(1, 2) { body.insert("host".into(), Value::Null); }
                match idx {
                    Some("-") | None => { if self.rng.chance(1, 2) { body.insert("index".into(), Value::Null); } }
                    Some(i) => match i.parse::<u64>() { Ok(i) => { body.insert("index".into(), json!(i)); } Err(_) => return vec![(toks.join(" "), "bad-op".into())] },
                }
                let r = self.inst().raw(M::POST, "/proxies/meta", Some(&Value::Object(body))).await;
                self.refresh().await;
                simple(self, toks.join(" "), &r)
            }
            ["remove_proxy", a] => {
                let parts = [Part::F("proxies"), Part::F("meta"), Part::A(a.to_string())];
                let eff = effective(&parts);
                let r = self.inst().raw(M::DELETE, &fmt_path(&parts), None).await;
                self.refresh().await;
                self.misdelivered("DELETE /proxies/meta/<address>", &[a], &eff);
                match eff { Some(v) => simple(self, format!("remove_proxy {}", v[0]), &r), None => { self.expect_no_route("DELETE /proxies/meta/<address>", &r); vec![] } }
            }
            ["add_cluster", n, k, _] => {
                let parts = [Part::F("clusters"), Part::F("meta"), Part::A(n.to_string())];
                let eff = effective(&parts);
                let kk: u64 = match k.parse() { Ok(k) => k, Err(_) => return vec![(toks.join(" "), "bad-op".into())] };
                let r = self.inst().raw(M::POST, &fmt_path(&parts), Some(&json!({"node_number": kk}))).await;
                self.refresh().await;
                self.misdelivered("POST /clusters/meta/<name>", &[n], &eff);
                match eff {
                    Some(v) => {
                        let old = cluster_proxy_set(&before, &v[0]);
                        let choice = if r.ok() && old.is_empty() { new_chunks(&old, &self.store, &v[0]) } else { "-".into() };
                        simple(self, format!("add_cluster {} {} {}", v[0], k, choice), &r)
                    }
                    None => { self.expect_no_route("POST /clusters/meta/<name>", &r); vec![] }
                }
            }
            ["add_nodes", n, k, _] | ["scale_up", n, k, _] => {
                let add = toks[0] == "add_nodes";
                let parts = [Part::F("clusters"), Part::F("nodes"), Part::A(n.to_string())];
                let eff = effective(&parts);
                let kk: u64 = match k.parse() { Ok(k) => k, Err(_) => return vec![(toks.join(" "), "bad-op".into())] };
                let r = if add { self.inst().raw(M::PATCH, &fmt_path(&parts), Some(&json!({"node_number": kk}))).await }
                        else { self.inst().raw(M::PUT, &fmt_path(&parts), Some(&json!({"cluster_node_number": kk}))).await };
                self.refresh().await;
                self.misdelivered("PATCH|PUT /clusters/nodes/<name>", &[n], &eff);
                match eff {
                    Some(v) => {
                        let old = cluster_proxy_set(&before, &v[0]);
                        let choice = if r.ok() { new_chunks(&old, &self.store, &v[0]) } else { "-".into() };
                        if r.ok() {
                            // the body lists the new nodes: it must decode as Vec<Node> and name exactly the proxies of the new chunks
                            match serde_json::from_str::<Vec<Node>>(&r.body) {
                                Ok(nodes) => {
                                    let got: BTreeSet<String> = nodes.iter().map(|n| n.get_proxy_address().to_string()).collect();
                                    let want: BTreeSet<String> = cluster_proxy_set(&self.store, &v[0]).difference(&old).cloned().collect();
                                    if got != want { self.fail(format!("C01: {} answered the nodes of proxies {:?}, the metadata gained {:?}", toks[0], got, want), ""); }
                                }
                                Err(e) => self.fail(format!("C01: {} reply does not decode as Vec<Node>: {}", toks[0], e), ""),
                            }
                        }
                        simple(self, format!("{} {} {} {}", toks[0], v[0], k, choice), &r)
                    }
                    None => { self.expect_no_route("PATCH|PUT /clusters/nodes/<name>", &r); vec![] }
                }
            }
            ["remove_cluster", n] | ["del_free", n] | ["migrate", n] | ["balance", n] => {
                let (m, parts): (M, Vec<Part>) = match toks[0] {
                    "remove_cluster" => (M::DELETE, vec![Part::F("clusters"), Part::F("meta"), Part::A(n.to_string())]),
                    "del_free" => (M::DELETE, vec![Part::F("clusters"), Part::F("free_nodes"), Part::A(n.to_string())]),
                    "migrate" => (M::POST, vec![Part::F("clusters"), Part::F("migrations"), Part::F("expand"), Part::A(n.to_string())]),
                    _ => (M::PUT, vec![Part::F("clusters"), Part::F("balance"), Part::A(n.to_string())]),
                };
                let eff = effective(&parts);
                let r = self.inst().raw(m, &fmt_path(&parts), None).await;
                self.refresh().await;
                self.misdelivered(toks[0], &[n], &eff);
                match eff { Some(v) => simple(self, format!("{} {}", toks[0], v[0]), &r), None => { self.expect_no_route(toks[0], &r); vec![] } }
            }
            ["scale_down", n, k] => {
                let parts = [Part::F("clusters"), Part::F("migrations"), Part::F("shrink"), Part::A(n.to_string()), Part::A(k.to_string())];
                let eff = effective(&parts);
                if k.parse::<u64>().is_err() { return vec![(toks.join(" "), "bad-op".into())]; }
                let r = self.inst().raw(M::POST, &fmt_path(&parts), None).await;
                self.refresh().await;
                self.misdelivered("POST /clusters/migrations/shrink/<name>/<n>", &[n, k], &eff);
                match eff { Some(v) => simple(self, format!("scale_down {} {}", v[0], v[1]), &r), None => { self.expect_no_route("shrink", &r); vec![] } }
            }
            ["config", n, kv] => {
                let parts = [Part::F("clusters"), Part::F("config"), Part::A(n.to_string())];
                let eff = effective(&parts);
                let mut m = serde_json::Map::new();
                if *kv != "-" { for p in kv.split(',') { let mut it = p.split('='); if let (Some(k), Some(v)) = (it.next(), it.next()) { m.insert(k.to_string(), json!(v)); } } }
                let r = self.inst().raw(M::PATCH, &fmt_path(&parts), Some(&Value::Object(m.clone()))).await;
                self.refresh().await;
                self.misdelivered("PATCH /clusters/config/<name>", &[n], &eff);
                if r.code() == "INVALID_CONFIG" {
                    // the InvalidConfig shape: {"error","key","value","message"} naming one of the submitted pairs
                    let j = r.json.clone().unwrap_or(Value::Null);
                    let (k, v) = (j["key"].as_str().unwrap_or("?").to_string(), j["value"].as_str().unwrap_or("?").to_string());
                    if m.get(&k).and_then(|x| x.as_str()) != Some(v.as_str()) || !j["message"].is_string() || r.status != 400 {
                        self.fail(format!("C01: INVALID_CONFIG body {} does not name a submitted pair", r.body), "");
                    }
                    self.s.stats.count("out.invalid_config_shape_checked");
                }
                match eff { Some(v) => simple(self, format!("config {} {}", v[0], kv), &r), None => { self.expect_no_route("config", &r); vec![] } }
            }
            ["bump_all", e] => {
                let parts = [Part::F("epoch"), Part::A(e.to_string())];
                if e.parse::<u64>().is_err() { return vec![(toks.join(" "), "bad-op".into())]; }
                let r = self.inst().raw(M::PUT, &fmt_path(&parts), None).await;
                self.refresh().await;
                simple(self, toks.join(" "), &r)
            }
            ["commit", n, e, rs, tag, _] => {
                // through `HttpMetaManipulationBroker::commit_migration`; the service always passes clear_free_nodes = false
                let (cn, ranges, ep) = match (ClusterName::try_from(*n), parse_ranges(rs), e.parse::<u64>()) { (Ok(c), Some(r), Ok(e)) => (c, r, e), _ => return vec![(toks.join(" "), "bad-op".into())] };
                let meta = MigrationMeta { epoch: ep, src_proxy_address: "x".into(), src_node_address: "x".into(), dst_proxy_address: "x".into(), dst_node_address: "x".into() };
                let tagv = match *tag { "M" => SlotRangeTag::Migrating(meta), "I" => SlotRangeTag::Importing(meta), _ => SlotRangeTag::None };
                let task = MigrationTaskMeta { cluster_name: cn, slot_range: SlotRange { range_list: RangeList::new(ranges), tag: tagv } };
                self.inst().tee_reset();
                let cr = self.inst().mani.commit_migration(task).await;
                let r = self.inst().tee_resp();
                self.refresh().await;
                // the client's mapping: 2xx and 404 -> Ok, 409 -> Retry, anything else InvalidReply
                let class = match &cr { Ok(()) => "ok".to_string(), Err(e) => format!("{:?}", e) };
                self.s.stats.count(&format!("client.commit.{}.{}", r.status, class));
                let want_ok = r.status == 200 || r.status == 404;
                if cr.is_ok() != want_ok { self.fail(format!("C01: commit_migration client answered {} for HTTP {}", class, r.status), ""); }
                simple(self, format!("commit {} {} {} {} 0", n, e, rs, tag), &r)
            }
            ["failover", a, _] => {
                let parts = [Part::F("proxies"), Part::F("failover"), Part::A(a.to_string())];
                let eff = effective(&parts);
                self.inst().tee_reset();
                let cr = self.inst().mani.replace_proxy(a.to_string()).await;
                let r = self.inst().tee_resp();
                self.refresh().await;
                self.misdelivered("POST /proxies/failover/<address>", &[a], &eff);
                let class = match &cr { Ok(Some(_)) => "some".to_string(), Ok(None) => "none".to_string(), Err(e) => format!("{:?}", e) };
                self.s.stats.count(&format!("client.failover.{}.{}", r.status, class));
                if cr.is_ok() != r.ok() { self.fail(format!("C01: replace_proxy client answered {} for HTTP {} {}", class, r.status, r.body), ""); }
                match eff {
                    None => { self.expect_no_route("failover", &r); vec![] }
                    Some(v) => {
                        let (choice, extra) = match &cr { Ok(Some(p)) => (p.get_address().to_string(), format!(" {}", p.get_address())), Ok(None) => ("-".to_string(), " none".to_string()), Err(_) => ("-".to_string(), String::new()) };
                        if r.ok() {
                            // response shape {"proxy": Proxy|null}; the Proxy is the view served for the replacement under the service's limit
                            if serde_json::from_str::<ReplaceProxyResponse>(&r.body).is_err() { self.fail(format!("C01: failover reply is not a ReplaceProxyResponse: {}", r.body), ""); }
                            if let Some(p) = cr.as_ref().ok().and_then(|o| o.as_ref()).filter(|p| effective(&[Part::A(p.get_address().to_string())]).map(|v| v[0] == p.get_address()).unwrap_or(false)) {
                                let now = self.inst().meta.get_proxy(p.get_address().to_string()).await;
                                let (a1, a2) = (serde_json::to_value(p).unwrap_or(Value::Null), now.ok().flatten().map(|x| serde_json::to_value(&x).unwrap_or(Value::Null)).unwrap_or(Value::Null));
                                if a1 != a2 { self.fail(format!("C01: the Proxy returned by failover differs from the view served for {} right after", p.get_address()), ""); }
                            }
                        }
                        vec![(format!("failover {} {}", v[0], choice), self.fin(&r, &extra))]
                    }
                }
            }
            ["add_failure", a, rep, _] => {
                let parts = [Part::F("failures"), Part::A(a.to_string()), Part::A(rep.to_string())];
                let eff = effective(&parts);
                self.inst().tee_reset();
                let cr = self.inst().meta.add_failure(a.to_string(), rep.to_string()).await;
                let r = self.inst().tee_resp();
                self.refresh().await;
                self.misdelivered("POST /failures/<address>/<reporter>", &[a, rep], &eff);
                if cr.is_ok() != r.ok() { self.fail(format!("C01: add_failure client answered {:?} for HTTP {}", cr, r.status), ""); }
                match eff {
                    None => { self.expect_no_route("add_failure", &r); vec![] }
                    Some(v) => {
                        // the route drops the bool of MetaStore::add_failure: a report is new iff it was not stored before
                        let was = before.failures.get(&v[0]).map(|m| m.contains_key(&v[1])).unwrap_or(false);
                        let ts = self.store.failures.get(&v[0]).and_then(|m| m.get(&v[1])).cloned().unwrap_or(0);
                        vec![(format!("add_failure {} {} {}", v[0], v[1], ts), self.fin(&r, &format!(" {}", !was)))]
                    }
                }
            }
            ["change_num", n, k, _] => self.exec_auto(n, k, &before).await,
            ["recover", _] => {
                // PUT /epoch/recovery: fetch_max_epoch over TCP (stand-ins), service + 1, storage + 1
                let reach = self.reachable_max(&before);
                let r = self.inst().raw(M::PUT, "/epoch/recovery", None).await;
                self.refresh().await;
                self.check_recovery_reply(&r, &before);
                vec![(format!("recover {}", reach + 2), self.fin(&r, ""))]
            }
            _ => vec![(toks.join(" "), "bad-op".into())],
        }
    }

    /// largest epoch installed on a reachable stand-in among the registered proxies of `store`
    fn reachable_max(&self, store: &MetaStore) -> u64 {
        let g = self.st.epochs.lock().unwrap();
        store.all_proxies.keys().filter_map(|a| g.get(a).cloned().flatten()).max().unwrap_or(0)
    }
    fn check_recovery_reply(&mut self, r: &Resp, store: &MetaStore) {
        let mut want: Vec<String> = { let g = self.st.epochs.lock().unwrap(); store.all_proxies.keys().filter(|a| !matches!(g.get(*a), Some(Some(_)))).cloned().collect() };
        want.sort();
        let mut got: Vec<String> = r.json.as_ref().and_then(|j| j["failed_addresses"].as_array().cloned()).unwrap_or_default().iter().filter_map(|x| x.as_str().map(|s| s.to_string())).collect();
        got.sort();
        if !r.ok() || got != want { self.fail(format!("C04: PUT /epoch/recovery answered {} {}; unreachable proxies are {:?}", r.status, r.body, want), ""); }
    }

    /// POST /clusters/migrations/auto/<name>/<n>: auto_change_node_number, then (scale-out only) the wait for the
    /// proxies' epochs — observed at the stand-ins — and auto_scale_out_node_number
    async fn exec_auto(&mut self, n: &str, k: &str, before: &MetaStore) -> Vec<(String, String)> {
        let parts = [Part::F("clusters"), Part::F("migrations"), Part::F("auto"), Part::A(n.to_string()), Part::A(k.to_string())];
        let eff = effective(&parts);
        if k.parse::<u64>().is_err() { return vec![(format!("change_num {} {} -", n, k), "bad-op".into())]; }
        let kept = ClusterName::try_from(n).ok().and_then(|cn| before.clusters.get(&cn).map(|c| c.chunks.iter()
            .filter(|ch| ch.stable_slots.iter().any(|s| s.is_some()) || ch.migrating_slots.iter().any(|m| !m.is_empty())).count())).unwrap_or(0);
        let h0 = self.st.hits.load(Ordering::SeqCst);
        let inst = self.inst.take().expect("instance");
        let path = fmt_path(&parts);
        let mut out = vec![];
        let mut waited = false;
        let r = {
            let fut = inst.raw(reqwest::Method::POST, &path, None);
            tokio::pin!(fut);
            let mut done: Option<Resp> = None;
            loop {
                tokio::select! {
                    r = &mut fut => { done = Some(r); break; }
                    _ = tokio::time::sleep(Duration::from_millis(10)) => { if self.st.hits.load(Ordering::SeqCst) > h0 { break; } }
                }
            }
            match done {
                Some(r) => r,
                None => {
                    // the service is polling UMCTL GETEPOCH: the first phase is done, the second has not begun
                    waited = true;
                    let m = inst.raw(reqwest::Method::GET, "/metadata", None).await;
                    if let Ok(ms) = serde_json::from_str::<MetaStore>(&m.body) { self.store = ms; }
                    let choice = ClusterName::try_from(n).ok().and_then(|cn| self.store.clusters.get(&cn).map(|c| {
                        let v: Vec<String> = c.chunks.iter().skip(kept).map(|ch| format!("{},{}", ch.proxy_addresses[0], ch.proxy_addresses[1])).collect();
                        if v.is_empty() { "-".to_string() } else { v.join(";") } })).unwrap_or_else(|| "-".into());
                    out.push((format!("change_num {} {} {}", n, k, choice), format!("OK 1 g={}", self.store.global_epoch)));
                    out.push(("state".to_string(), render_store(&self.store)));
                    self.s.stats.count("auto.scale_out_waited_for_proxy_epochs");
                    self.st.high.store(true, Ordering::SeqCst);
                    let r = fut.await;
                    self.st.high.store(false, Ordering::SeqCst);
                    r
                }
            }
        };
        self.inst = Some(inst);
        self.refresh().await;
        self.misdelivered("POST /clusters/migrations/auto/<name>/<n>", &[n, k], &eff);
        if waited && r.code() == "PROXY_NOT_SYNC" {
            // some cluster proxy never answered UMCTL GETEPOCH (31 polls): the service gave up before its second phase,
            // `auto_scale_out_node_number` was not run — there is no second model step
            self.s.stats.count("auto.proxy_not_sync_after_first_phase");
        } else if waited {
            out.push((format!("scale_out_num {} {}", n, k), self.fin(&r, "")));
        } else if r.ok() {
            let op = if is_migrating(&self.store, n) { 2 } else { 0 };
            out.push((format!("change_num {} {} -", n, k), self.fin(&r, &format!(" {}", op))));
        } else if r.code() == "PROXY_NOT_SYNC" {
            // the first phase succeeded with a scale-out, the proxies never answered UMCTL GETEPOCH (31 polls): the
            // second phase was not run
            let choice = ClusterName::try_from(n).ok().and_then(|cn| self.store.clusters.get(&cn).map(|c| {
                let v: Vec<String> = c.chunks.iter().skip(kept).map(|ch| format!("{},{}", ch.proxy_addresses[0], ch.proxy_addresses[1])).collect();
                if v.is_empty() { "-".to_string() } else { v.join(";") } })).unwrap_or_else(|| "-".into());
            self.s.stats.count("auto.proxy_not_sync");
            out.push((format!("change_num {} {} {}", n, k, choice), format!("OK 1 g={}", self.store.global_epoch)));
        } else {
            out.push((format!("change_num {} {} -", n, k), self.fin(&r, "")));
        }
        out
    }
}

// ---------------------------------------------------------------------------------------------
// observation through the HTTP clients + oracles
// ---------------------------------------------------------------------------------------------

impl World {
    /// run one intent line, print its model lines, then the observation block + oracles
    async fn step(&mut self, line: &str) {
        if self.dead { return; }
        let toks: Vec<&str> = line.split(' ').collect();
        let kind = toks[0].to_string();
        self.record(line);
        self.s.stats.count(&format!("op.{}", kind));
        let lines: Vec<(String, String)> = match toks.as_slice() {
            ["snap"] => { self.snapshot = Some(self.store.clone()); vec![("snap".to_string(), format!("snap g={}", self.store.global_epoch))] }
            ["restart", _] => { if self.snapshot.is_some() && !self.after_restore { self.restart().await } else { return } }
            ["probe", ..] => { self.probe(&toks).await; vec![] }
            _ => { if self.after_restore { return; } self.exec(&toks).await }
        };
        if self.dead { return; }
        for (op, obs) in lines.iter() {
            if op != "state" {
                let k = op.split(' ').next().unwrap_or("?");
                let outcome = obs.split(' ').take(2).collect::<Vec<_>>().join("_");
                self.s.stats.count(&format!("out.{}.{}", k, if outcome.starts_with("OK") { "OK".to_string() } else { outcome }));
            }
            self.emit(op, obs);
        }
        self.observe(&kind).await;
    }

    async fn observe(&mut self, kind: &str) {
        if !self.after_restore {
            let st = render_store(&self.store);
            self.emit("state", &st);
            let chk = self.store.check().is_ok();
            self.emit("check", &format!("{}", chk));
            self.emit("inv", "inv:ok");
        }
        let l = self.cfg.limit;
        let model = !self.after_restore;
        // ---- names and addresses through the paging client -------------------------------------------
        let names: Vec<Result<ClusterName, _>> = self.inst().meta.get_cluster_names().collect().await;
        let mut ns: Vec<String> = vec![];
        for r in names { match r { Ok(n) => ns.push(n.to_string()), Err(e) => self.fail(format!("C01: get_cluster_names failed: {:?}", e), "") } }
        ns.sort();
        let mut want: Vec<String> = self.store.clusters.keys().map(|c| c.to_string()).collect();
        want.sort();
        if ns != want { self.fail(format!("C01: the paged cluster names {:?} are not the clusters of the metadata {:?}", ns.len(), want.len()), ""); }
        let addrs: Vec<Result<String, _>> = self.inst().meta.get_proxy_addresses().collect().await;
        let mut as_: Vec<String> = vec![];
        for r in addrs { match r { Ok(a) => as_.push(a), Err(e) => self.fail(format!("C01: get_proxy_addresses failed: {:?}", e), "") } }
        as_.sort();
        let mut wanta: Vec<String> = self.store.all_proxies.keys().cloned().collect();
        wanta.sort();
        if as_ != wanta { self.fail(format!("C01: the paged proxy addresses ({}) are not the proxies of the metadata ({})", as_.len(), wanta.len()), ""); }
        if want.len() > 100 { self.s.stats.count("pagination.cluster_names_beyond_one_page"); }
        if wanta.len() > 100 { self.s.stats.count("pagination.proxy_addresses_beyond_one_page"); }
        // ---- every cluster view ------------------------------------------------------------------------
        let mut views = Views { clusters: BTreeMap::new(), proxies: BTreeMap::new() };
        let mut complete = true;
        for n in want.iter() {
            let cn = match ClusterName::try_from(n.as_str()) { Ok(c) => c, Err(_) => continue };
            let c: Option<Cluster> = match self.inst().meta.get_cluster(cn).await { Ok(c) => c, Err(e) => { self.fail(format!("C01: get_cluster {} failed: {:?}", n, e), ""); complete = false; continue } };
            let v = c.as_ref().map(|c| serde_json::to_value(c).expect("cluster json"));
            if model { let obs = v.as_ref().map(render_vcluster).unwrap_or_else(|| "NONE".into()); self.emit(&format!("view {} {}", n, l), &obs); }
            let info = self.inst().raw(reqwest::Method::GET, &format!("/clusters/info/{}", n), None).await;
            let info: Option<ClusterInfo> = serde_json::from_str(&info.body).ok();
            match (v, info) {
                (Some(v), Some(i)) => { views.clusters.insert(n.clone(), (v, (i.node_number, i.node_number_with_slots, i.is_migrating))); }
                _ => { self.fail(format!("C01: cluster {} of the metadata is not served (view or info missing)", n), ""); complete = false; }
            }
        }
        // ---- every proxy view --------------------------------------------------------------------------
        let sample: Option<BTreeSet<String>> = if wanta.len() > 24 { Some((0..10).map(|_| self.rng.pick(&wanta).clone()).collect()) } else { None };
        for a in wanta.iter() {
            let parts = [Part::F("proxies"), Part::F("meta"), Part::A(a.clone())];
            let eff = effective(&parts);
            let p: Result<Option<Proxy>, _> = self.inst().meta.get_proxy(a.clone()).await;
            match (&eff, p) {
                (Some(e), Ok(p)) => {
                    let v = p.as_ref().map(|p| serde_json::to_value(p).expect("proxy json"));
                    if model && sample.as_ref().map(|s| s.contains(a)).unwrap_or(true) {
                        let obs = v.as_ref().map(render_vproxy).unwrap_or_else(|| "NONE".into());
                        self.emit(&format!("proxy {} {}", e[0], l), &obs);
                    }
                    if e[0] == *a {
                        match v { Some(v) => { views.proxies.insert(a.clone(), v); } None => { self.fail(format!("C01: registered proxy {} is served None", a), ""); complete = false; } }
                    } else {
                        complete = false;
                        self.s.stats.count("glue.registered_proxy_not_addressable");
                        self.fail(format!("C01: registered proxy {:?} cannot be queried: GET /proxies/meta/<address> reaches the service as {:?} and serves {}", a, e[0], if v.is_some() { "another proxy" } else { "None" }), "F01h");
                    }
                }
                (None, r) => {
                    complete = false;
                    self.s.stats.count("glue.registered_proxy_not_addressable");
                    self.fail(format!("C01: registered proxy {:?} cannot be queried: its address does not fit a path segment ({})", a, if r.is_ok() { "Ok" } else { "client error" }), "F01h");
                }
                (Some(_), Err(e)) => { complete = false; self.fail(format!("C01: get_proxy {} failed: {:?}", a, e), ""); }
            }
        }
        if model && complete {
            let d = fnv(render_all_views(&views).as_bytes());
            self.emit(&format!("views {}", l), &format!("{}", d));
        }
        // ---- absent / invalid names: `None` (200 + null), not an error --------------------------------------
        if model && self.rng.chance(1, 3) {
            let n = self.rng.pick(&["nosuch", "c9", "a.b", "toolongtoolongtoolongtoolongtoolong", "x_y-z@1", "%41"]).to_string();
            if let Ok(cn) = ClusterName::try_from(n.as_str()) {
                let r = self.inst().meta.get_cluster(cn).await;
                let obs = match r { Ok(Some(c)) => render_vcluster(&serde_json::to_value(&c).expect("json")), Ok(None) => "NONE".into(), Err(e) => format!("CLIENT-ERR {:?}", e) };
                self.emit(&format!("view {} {}", n, l), &obs);
            } else {
                // not constructible as ClusterName: ask the route directly
                let r = self.inst().raw(reqwest::Method::GET, &format!("/clusters/meta/{}", n), None).await;
                let obs = if r.ok() && r.json.as_ref().map(|j| j["cluster"].is_null()).unwrap_or(false) { "NONE".to_string() } else { format!("HTTP{} {}", r.status, r.body) };
                self.emit(&format!("view {} {}", n, l), &obs);
            }
            let info = self.inst().raw(reqwest::Method::GET, &format!("/clusters/info/{}", n), None).await;
            if !self.store.clusters.keys().any(|c| c.to_string() == n) && (info.status != 404 || info.code() != "CLUSTER_NOT_FOUND") {
                self.fail(format!("C01: GET /clusters/info/{} of an absent cluster answered {} {}", n, info.status, info.body), "");
            }
            let a = self.rng.pick(&["nosuch:1", "p999:1", "nocolon", "a%41:1", "x.y~z:80"]).to_string();
            if !self.store.all_proxies.contains_key(&a) {
                let r = self.inst().meta.get_proxy(a.clone()).await;
                let obs = match r { Ok(Some(p)) => render_vproxy(&serde_json::to_value(&p).expect("json")), Ok(None) => "NONE".into(), Err(e) => format!("CLIENT-ERR {:?}", e) };
                self.emit(&format!("proxy {} {}", a, l), &obs);
            }
            self.s.stats.count("query.absent_names_probed");
        }
        // ---- failures / failed proxies through the client -----------------------------------------------------
        let fl: Vec<Result<String, _>> = self.inst().meta.get_failures().collect().await;
        let mut got: Vec<String> = fl.into_iter().filter_map(|r| r.ok()).collect();
        got.sort();
        let mut wantf: Vec<String> = self.store.failures.iter().filter(|(a, m)| m.len() as u64 >= self.cfg.quorum && self.store.all_proxies.contains_key(*a)).map(|(a, _)| a.clone()).collect();
        wantf.sort();
        if got != wantf { self.fail(format!("C01: GET /failures lists {:?}; registered proxies with >= {} stored reports (ttl {} s) are {:?}", got, self.cfg.quorum, FAILURE_TTL, wantf), ""); }
        if !wantf.is_empty() { self.s.stats.count("failures.nonempty_listing"); }
        let fp: Vec<Result<String, _>> = self.inst().meta.get_failed_proxies().collect().await;
        let mut gotp: Vec<String> = fp.into_iter().filter_map(|r| r.ok()).collect();
        gotp.sort();
        let mut wantp: Vec<String> = self.store.failed_proxies.iter().cloned().collect();
        wantp.sort();
        if gotp != wantp { self.fail(format!("C01: GET /proxies/failed/addresses lists {:?}, the metadata {:?}", gotp, wantp), ""); }
        // ---- C01 on every view obtained through HTTP ----------------------------------------------------------
        for (name, (cv, _)) in views.clusters.iter() {
            if let Some(why) = check_partition(cv) { self.fail(format!("C01: cluster {} limit {} after {} (through HTTP): {}", name, l, kind, why), ""); }
            if let Some(why) = check_proxy_views(cv, &views.proxies) { self.fail(format!("C01: cluster {} limit {} (through HTTP): {}", name, l, why), ""); }
            if cv["nodes"].as_array().map(|n| n.iter().any(|x| x["slots"].as_array().map(|s| s.iter().any(|sr| !sr["tag"].is_string())).unwrap_or(false))).unwrap_or(false) { self.saw_migration = true; }
        }
        // ---- C04 on the served epochs ---------------------------------------------------------------------------
        let g = self.store.global_epoch;
        if kind != "restart" && g < self.last_global { self.fail(format!("C04: global epoch went back {} -> {} after {}", self.last_global, g, kind), ""); }
        self.last_global = g;
        let mut now: BTreeMap<String, (u64, String)> = BTreeMap::new();
        for (a, p) in views.proxies.iter() {
            let e = p["epoch"].as_u64().unwrap_or(0);
            let mut content = p.clone(); content["epoch"] = Value::Null;
            now.insert(a.clone(), (e, content.to_string()));
        }
        if let Some(fl) = self.recover_floor {
            for (a, (e, _)) in now.iter() { if *e <= fl { self.fail(format!("C13: after recovery with largest reachable proxy epoch {}, {} is served epoch {} (after {})", fl, a, e, kind), ""); } }
        }
        if kind == "restart" { self.last_epochs.clear(); self.max_served.clear(); }
        for (a, (e, content)) in now.iter() {
            if let Some((pe, pc)) = self.last_epochs.get(a) {
                if e < pe { self.fail(format!("C04: epoch served to {} went back {} -> {} after {} (through HTTP)", a, pe, e, kind), ""); }
                else if pc != content && e <= pe { self.fail(format!("C04: view of {} changed without a larger epoch ({} -> {}) after {} (through HTTP)", a, pe, e, kind), ""); }
            } else if let Some(m) = self.max_served.get(a) {
                if e <= m { self.fail(format!("C04: {} re-registered and served epoch {} <= previously served {}", a, e, m), ""); }
            }
            let m = self.max_served.entry(a.clone()).or_insert(0);
            if *e > *m { *m = *e; }
        }
        self.last_epochs = now;
        // the stand-ins install what they are served (most of the time)
        if self.cfg.pool {
            for (a, p) in views.proxies.iter() {
                let e = p["epoch"].as_u64().unwrap_or(0);
                if self.rng.chance(4, 5) { let mut gd = self.st.epochs.lock().unwrap(); if let Some(Some(cur)) = gd.get(a).cloned() { if e > cur { gd.insert(a.clone(), Some(e)); } } }
            }
        }
        if self.store.failed_proxies.iter().any(|_| true) { self.saw_failover = true; }
    }

    /// the broker process is lost: a new service is built from the snapshot (`MemBrokerService::new(.., Some(snapshot))`),
    /// a new server is started and epoch recovery is run through PUT /epoch/recovery
    async fn restart(&mut self) -> Vec<(String, String)> {
        let snap = self.snapshot.clone().expect("snapshot");
        let mut down: BTreeSet<String> = BTreeSet::new();
        let installed: BTreeMap<String, u64> = self.st.epochs.lock().unwrap().iter().filter_map(|(a, e)| e.map(|e| (a.clone(), e))).collect();
        for a in snap.all_proxies.keys() { if self.rng.chance(1, 8) { down.insert(a.clone()); } }
        for a in down.iter() { self.st.epochs.lock().unwrap().insert(a.clone(), None); }
        let e = self.reachable_max(&snap);
        self.inst = None;
        let mut cfg = self.cfg.clone();
        cfg.ordered = if self.rng.chance(1, 3) { self.s.stats.count("restart.configured_mode_differs_from_snapshot"); !snap.enable_ordered_proxy } else { snap.enable_ordered_proxy };
        let out = match start_inst(&cfg, Some(snap.clone())).await {
            Err(c) => { self.dead = true; self.fail(format!("C04: restart from the snapshot failed: {}", c), ""); vec![] }
            Ok(i) => {
                self.inst = Some(i);
                let r = self.inst().raw(reqwest::Method::PUT, "/epoch/recovery", None).await;
                self.refresh().await;
                self.check_recovery_reply(&r, &snap);
                self.recover_floor = Some(e);
                self.s.stats.count("restart.service_path_through_http");
                if !down.is_empty() { self.s.stats.count("restart.with_unreachable"); }
                vec![(format!("restart {}", e + 1), self.fin(&r, ""))]
            }
        };
        for a in down.iter() { self.st.epochs.lock().unwrap().insert(a.clone(), installed.get(a).cloned().or(Some(0))); }
        out
    }

    /// implementation-only checks of the glue (no model line except the `state` that follows: nothing may change)
    async fn probe(&mut self, toks: &[&str]) {
        use reqwest::Method as M;
        let g0 = self.store.global_epoch;
        let cur = serde_json::to_value(&self.store).expect("store json");
        let what = toks.get(1).cloned().unwrap_or("");
        let arg = toks.get(2).cloned().unwrap_or("");
        self.s.stats.count(&format!("probe.{}.{}", what, arg));
        match (what, arg) {
            ("put_meta", "same") => {
                // equal epoch passes the guard (`self.global_epoch > other.global_epoch` refuses); the JSON round trip must be lossless
                let r = self.inst().raw(M::PUT, "/metadata", Some(&cur)).await;
                if !r.ok() { self.fail(format!("C04: PUT /metadata of the current metadata answered {} {}", r.status, r.body), ""); }
            }
            ("put_meta", "version") => {
                let mut v = cur.clone(); v["version"] = json!("mem-broker-0.0"); v["global_epoch"] = json!(g0 + 5);
                let r = self.inst().raw(M::PUT, "/metadata", Some(&v)).await;
                if r.status != 409 || r.code() != "INVALID_META_VERSION" { self.fail(format!("C04: PUT /metadata with a foreign version answered {} {}", r.status, r.body), ""); }
            }
            ("put_meta", "older") => {
                if g0 == 0 { return; }
                let mut v = json!({"version": cur["version"], "global_epoch": g0 - 1, "clusters": {}, "all_proxies": {}, "failed_proxies": [], "failures": {}, "enable_ordered_proxy": cur["enable_ordered_proxy"]});
                if self.rng.chance(1, 2) { v = cur.clone(); v["global_epoch"] = json!(g0 - 1); }
                let r = self.inst().raw(M::PUT, "/metadata", Some(&v)).await;
                if r.status != 409 || r.code() != "EPOCH_SMALLER_THAN_CURRENT" { self.fail(format!("C04: PUT /metadata with global epoch {} under {} answered {} {}", g0 - 1, g0, r.status, r.body), ""); }
            }
            ("put_meta", "bad") => {
                for b in ["{", "{\"version\": 1}", "[]", "{\"version\":\"x\",\"global_epoch\":-1,\"clusters\":{},\"all_proxies\":{},\"failed_proxies\":[],\"failures\":{},\"enable_ordered_proxy\":false}",
                          "{\"version\":\"x\",\"global_epoch\":18446744073709551616,\"clusters\":{},\"all_proxies\":{},\"failed_proxies\":[],\"failures\":{},\"enable_ordered_proxy\":false}",
                          "{\"version\":\"x\",\"global_epoch\":1.5,\"clusters\":{},\"all_proxies\":{},\"failed_proxies\":[],\"failures\":{},\"enable_ordered_proxy\":false}"] {
                    let r = self.inst().raw_text(M::PUT, "/metadata", b).await;
                    if r.status != 400 { self.fail(format!("C04: PUT /metadata with body {} answered {} {}", b, r.status, r.body), ""); }
                }
            }
            ("put_meta", "newer") => {
                // accepted: from here on the model no longer follows (restore is not an operation of the model); the
                // served views and the epoch oracles go on
                let k = (1 + self.rng.below(1000)).min(u64::MAX - g0);
                if k == 0 { return; }
                let mut v = cur.clone(); v["global_epoch"] = json!(g0 + k);
                let r = self.inst().raw(M::PUT, "/metadata", Some(&v)).await;
                self.refresh().await;
                let mut want = self.store.clone(); want.global_epoch = g0 + k;
                let again: MetaStore = serde_json::from_value(v).expect("store");
                if !r.ok() || render_store(&self.store) != render_store(&again) || self.store.global_epoch != g0 + k {
                    self.fail(format!("C04: PUT /metadata with global epoch {} over {} answered {} {} / the metadata served afterwards is not the one restored", g0 + k, g0, r.status, r.body), "");
                }
                let _ = want;
                self.after_restore = true;
                return;
            }
            ("body", "add_proxy") => {
                // bodies that must be refused by the JSON layer (400, no MetaStoreError code)
                for b in ["{\"proxy_address\":\"q:1\",\"nodes\":[\"a:1\"]}", "{\"proxy_address\":\"q:1\",\"nodes\":[\"a:1\",\"a:2\",\"a:3\"]}",
                          "{\"proxy_address\":\"q:1\",\"nodes\":[\"a:1\",\"a:2\"],\"index\":-1}", "{\"proxy_address\":\"q:1\",\"nodes\":[\"a:1\",\"a:2\"],\"index\":1.5}",
                          "{\"proxy_address\":\"q:1\",\"nodes\":[\"a:1\",\"a:2\"],\"index\":\"1\"}", "{\"proxy_address\":\"q:1\",\"nodes\":[\"a:1\",\"a:2\"],\"host\":7}",
                          "{\"nodes\":[\"a:1\",\"a:2\"]}", "not json"] {
                    let r = self.inst().raw_text(M::POST, "/proxies/meta", b).await;
                    if r.status != 400 || r.json.as_ref().and_then(|j| j.get("error")).is_some() { self.fail(format!("C01: POST /proxies/meta with body {} answered {} {}", b, r.status, r.body), ""); }
                }
            }
            ("body", "add_cluster") => {
                for b in ["{}", "{\"node_number\":-4}", "{\"node_number\":\"4\"}", "{\"node_number\":4.0}", "{\"node_number\":18446744073709551616}"] {
                    let r = self.inst().raw_text(M::POST, "/clusters/meta/zz", b).await;
                    if r.status != 400 || r.json.as_ref().and_then(|j| j.get("error")).is_some() { self.fail(format!("C01: POST /clusters/meta/zz with body {} answered {} {}", b, r.status, r.body), ""); }
                }
            }
            ("path", "numbers") => {
                // numeric path parameters out of range / malformed do not reach a route
                for p in ["/epoch/18446744073709551616", "/epoch/-1", "/epoch/1.0", "/epoch/0x10", "/epoch/7e0"] {
                    let r = self.inst().raw(M::PUT, p, None).await;
                    if r.ok() || r.json.as_ref().and_then(|j| j.get("error")).is_some() { self.fail(format!("C04: PUT {} answered {} {}", p, r.status, r.body), ""); }
                }
                for p in ["/clusters/migrations/shrink/c0/-4", "/clusters/migrations/auto/c0/18446744073709551616", "/clusters/migrations/shrink/c0/4.0"] {
                    let r = self.inst().raw(M::POST, p, None).await;
                    if r.ok() || r.json.as_ref().and_then(|j| j.get("error")).is_some() { self.fail(format!("C01: POST {} answered {} {}", p, r.status, r.body), ""); }
                }
            }
            ("broker_config", _) => {
                let v = self.inst().raw(M::GET, "/version", None).await;
                if !v.ok() || v.body.is_empty() { self.fail(format!("C01: GET /version answered {} {:?}", v.status, v.body), ""); }
                let r0 = self.inst().raw(M::GET, "/config", None).await;
                let put = self.inst().raw(M::PUT, "/config", Some(&json!({"replica_addresses": ["127.0.0.1:1", "r{2}:2"]}))).await;
                let r1 = self.inst().raw(M::GET, "/config", None).await;
                let back = self.inst().raw(M::PUT, "/config", Some(&json!({"replica_addresses": []}))).await;
                if !r0.ok() || !put.ok() || !back.ok() || r1.json.as_ref().map(|j| j["replica_addresses"] == json!(["127.0.0.1:1", "r{2}:2"])) != Some(true) {
                    self.fail(format!("C01: PUT/GET /config round trip: {} {} / {} / {} {}", r0.status, r0.body, put.status, r1.status, r1.body), "");
                }
                let c = self.inst().raw(M::POST, "/resources/failures/check", None).await;
                if !c.ok() || !c.json.as_ref().map(|j| j["hosts_cannot_fail"].is_array()).unwrap_or(false) { self.fail(format!("C01: POST /resources/failures/check answered {} {}", c.status, c.body), ""); }
            }
            ("page", _) => {
                // offset/limit windows of one unpaged listing (the map is not modified in between)
                for (path, key) in [("/clusters/names", "names"), ("/proxies/addresses", "addresses")] {
                    let full = self.inst().raw(M::GET, path, None).await;
                    let all: Vec<Value> = full.json.as_ref().and_then(|j| j[key].as_array().cloned()).unwrap_or_default();
                    for _ in 0..6 {
                        let (o, l) = (self.rng.below(all.len() as u64 + 3) as usize, self.rng.below(all.len() as u64 + 3) as usize);
                        let q = match self.rng.below(4) { 0 => format!("{}?offset={}", path, o), 1 => format!("{}?limit={}", path, l), _ => format!("{}?offset={}&limit={}", path, o, l) };
                        let (o2, l2) = (if q.contains("offset") { o } else { 0 }, if q.contains("limit") { l } else { usize::MAX });
                        let r = self.inst().raw(M::GET, &q, None).await;
                        let got: Vec<Value> = r.json.as_ref().and_then(|j| j[key].as_array().cloned()).unwrap_or_default();
                        let want: Vec<Value> = all.iter().skip(o2).take(l2).cloned().collect();
                        if !r.ok() || got != want { self.fail(format!("C01: GET {} answered {} with {} entries, the window of the unpaged listing has {}", q, r.status, got.len(), want.len()), ""); }
                    }
                    for q in ["?offset=-1", "?limit=x", "?offset=1.5", "?offset=18446744073709551616"] {
                        let r = self.inst().raw(M::GET, &format!("{}{}", path, q), None).await;
                        if r.status != 400 { self.fail(format!("C01: GET {}{} answered {} {}", path, q, r.status, r.body), ""); }
                    }
                }
            }
            _ => {}
        }
        self.refresh().await;
        if self.store.global_epoch != g0 { self.fail(format!("C04: probe {} {} moved the global epoch {} -> {}", what, arg, g0, self.store.global_epoch), ""); }
    }
}

// ---------------------------------------------------------------------------------------------
// generator (operation mix of umh_broker.rs, restricted to what the HTTP API offers)
// ---------------------------------------------------------------------------------------------

struct Gen { auto_left: i64, rng: Rng, next_proxy: usize, hosts: usize, ordered: bool, pool: bool, exotic: bool, stats: Vec<&'static str> }

/// address spellings that matter to URL paths; all have exactly one ':' (valid for `add_proxy`)
const EXOTIC: &[&str] = &["a%41", "pct%", "sp%20x", "pl+us", "br{ce}", "pi|pe", "qu?x", "ha#sh", "sl/ash", "bs\\l", "é", "dq\"x", "lt<gt>", "ti~l.d-e_", "at@x", "am&p=eq", "st*ar!$'()", "ca^ret", "bt`k", "日本"];

impl Gen {
    fn index_token(&mut self, store: &MetaStore) -> Option<String> {
        let used: BTreeSet<usize> = store.all_proxies.values().map(|p| p.index).collect();
        let smallest_missing = (0..).find(|i| !used.contains(i)).unwrap_or(0);
        let max = used.iter().next_back().cloned().unwrap_or(0);
        if self.ordered {
            let r = self.rng.below(100);
            if r < 84 { Some(format!("{}", smallest_missing)) }
            else if r < 90 && !used.is_empty() { let v: Vec<usize> = used.iter().cloned().collect(); Some(format!("{}", self.rng.pick(&v))) }
            else if r < 94 { Some(format!("{}", max + 2 + self.rng.below(3) as usize)) }
            else if r < 97 { Some(format!("{}", self.rng.below(12))) }
            else if r < 99 { Some("-".to_string()) }
            else { None }
        } else if self.rng.chance(1, 7) {
            Some(if self.rng.chance(1, 4) { "-".to_string() } else { format!("{}", self.rng.below(9)) })
        } else { None }
    }
    fn proxy_line(&mut self, store: &MetaStore, host: usize, pool: &[String]) -> String {
        let j = self.next_proxy; self.next_proxy += 1;
        let base = if self.pool {
            match pool.iter().find(|a| !store.all_proxies.contains_key(*a)) {
                Some(a) => format!("add_proxy {} n{}:{} n{}:{} h{}", a, j, 7000 + 2 * j, j, 7001 + 2 * j, host),
                None => format!("add_proxy {} n{}:1 n{}:2 h{}", self.rng.pick(pool), j, j, host), // re-registration
            }
        } else if self.exotic && self.rng.chance(1, 3) {
            self.stats.push("gen.address.exotic");
            let x = *self.rng.pick(EXOTIC);
            if self.rng.chance(1, 2) { format!("add_proxy {}{}:{} n{}:{} n{}:{} h{}", x, j, 6000 + j, j, 7000 + 2 * j, j, 7001 + 2 * j, host) }
            else { format!("add_proxy h{}:{}{} n{}:{} n{}:{} -", host, x, j, j, 7000 + 2 * j, j, 7001 + 2 * j) }
        } else if self.rng.chance(3, 4) {
            format!("add_proxy p{}:{} n{}:{} n{}:{} h{}", j, 6000 + j, j, 7000 + 2 * j, j, 7001 + 2 * j, host)
        } else {
            format!("add_proxy h{}:{} n{}:{} n{}:{} -", host, 6000 + j, j, 7000 + 2 * j, j, 7001 + 2 * j)
        };
        match self.index_token(store) { Some(i) => format!("{} {}", base, i), None => base }
    }
    fn pending(store: &MetaStore) -> Vec<(String, u64, String)> {
        let mut v = vec![];
        for c in store.clusters.values() { for ch in c.chunks.iter() { for l in ch.migrating_slots.iter() { for m in l.iter() {
            if m.is_migrating { v.push((c.name.to_string(), m.meta.epoch, render_ranges(&m.range_list))); }
        } } } }
        v.sort();
        v
    }
    fn next_op(&mut self, store: &MetaStore, pool: &[String], has_snapshot: bool) -> String {
        let names = ["c0", "c1", "c2", "x_y-z@1"];
        let clusters: Vec<String> = { let mut v: Vec<String> = store.clusters.keys().map(|c| c.to_string()).collect(); v.sort(); v };
        let proxies: Vec<String> = { let mut v: Vec<String> = store.all_proxies.keys().cloned().collect(); v.sort(); v };
        let in_cluster: Vec<String> = proxies_in_clusters(store).into_iter().collect();
        let free: Vec<String> = proxies.iter().filter(|a| store.all_proxies[*a].cluster.is_none()).cloned().collect();
        let pend = Self::pending(store);
        let kept_of = |n: &str| store.clusters.values().find(|c| c.name.to_string() == n).map(|c| 4 * c.chunks.iter()
            .filter(|ch| ch.stable_slots.iter().any(|s| s.is_some()) || ch.migrating_slots.iter().any(|m| !m.is_empty())).count()).unwrap_or(0) as i64;
        let cur_of = |n: &str| store.clusters.values().find(|c| c.name.to_string() == n).map(|c| c.chunks.len() * 4).unwrap_or(4) as i64;
        for _ in 0..50 {
            let r = self.rng.below(100);
            match r {
                0..=15 => { let h = self.rng.below(self.hosts as u64) as usize; return self.proxy_line(store, h, pool); }
                16..=17 => { if !proxies.is_empty() { let a2 = self.rng.pick(&proxies).clone();
                    let idx = if self.ordered { match self.rng.below(4) { 0 => " -".to_string(), 1 => format!(" {}", self.rng.below(9)), _ => format!(" {}", store.all_proxies.get(&a2).map(|p| p.index).unwrap_or(0)) } } else { String::new() };
                    return format!("add_proxy {} x{}:1 x{}:2 -{}", a2, self.next_proxy, self.next_proxy, idx); } }
                18..=19 => { self.next_proxy += 1; let j = self.next_proxy; let idx = if self.ordered && self.rng.chance(3, 4) { format!(" {}", self.rng.below(30)) } else { String::new() };
                    // on stand-ins only addresses that are refused: a registered proxy that is not a stand-in would make every
                    // wait for proxy epochs / epoch recovery run into its 31 s resp. connect timeouts
                    let a = if self.pool { *self.rng.pick(&["nocolon", "a:b:c", "[::1]:80"]) } else { *self.rng.pick(&["nocolon", "a:b:c", ":", "h9:1", "[::1]:80"]) };
                    return format!("add_proxy {} y{}:1 y{}:2 -{}", a, j, j, idx); }
                20..=27 => { let n = *self.rng.pick(&names); let k = *self.rng.pick(&[4i64, 4, 8, 8, 12, 16, 6, 0]);
                    let n = if self.exotic && self.rng.chance(1, 8) { *self.rng.pick(&["a.b", "c0?x", "c1#f", "c{2}", "sl/ash", "é", "toolongtoolongtoolongtoolongtoolong", "c%30"]) } else { n };
                    return format!("add_cluster {} {} -", n, k); }
                28..=35 => { if !clusters.is_empty() { let n = self.rng.pick(&clusters).clone(); let cur = cur_of(&n);
                    let k = cur + *self.rng.pick(&[4i64, 4, 8, 12, 2, 0]);
                    return match self.rng.below(4) { 0 => format!("scale_up {} {} -", n, k), 1 => format!("add_nodes {} {} -", n, k - cur),
                        // the composite: only where the proxies answer UMCTL GETEPOCH
                        _ => if self.pool { format!("change_num {} {} -", n, k) } else { format!("scale_up {} {} -", n, k) } }; } }
                36..=43 => { if !clusters.is_empty() { let n = self.rng.pick(&clusters).clone(); return format!("migrate {}", n); } }
                44..=51 => { if !clusters.is_empty() { let n = self.rng.pick(&clusters).clone(); let cur = cur_of(&n);
                    let k = if cur > 4 { 4 * self.rng.range(1, cur / 4 - 1).max(1) } else { *self.rng.pick(&[0i64, 4, 6]) };
                    // scale-in / no-op / refused through the composite never waits for proxies
                    return if self.rng.chance(1, 2) || (!self.pool && kept_of(&n) < k) { format!("scale_down {} {}", n, k) } else { format!("change_num {} {} -", n, k) }; } }
                52..=69 => { if !pend.is_empty() { let (n, e, rs) = self.rng.pick(&pend).clone();
                    let tag = *self.rng.pick(&["M", "M", "I", "I", "I", "N"]);
                    return match self.rng.below(12) { 0 => format!("commit {} {} {} {} 0", n, e + 1, rs, tag), 1 => format!("commit {} {} 0-0 {} 0", n, e, tag),
                        2 => format!("commit zz {} {} {} 0", e, rs, tag), _ => format!("commit {} {} {} {} 0", n, e, rs, tag) }; }
                    else if self.rng.chance(1, 6) && !clusters.is_empty() { return format!("commit {} 1 0-99 M 0", self.rng.pick(&clusters)); } }
                70..=75 => { if !in_cluster.is_empty() && self.rng.chance(4, 5) { return format!("failover {} -", self.rng.pick(&in_cluster)); } else if !proxies.is_empty() { return format!("failover {} -", self.rng.pick(&proxies)); } else { return "failover nosuch:1 -".into(); } }
                76..=80 => { if self.rng.chance(1, 2) && !clusters.is_empty() { return format!("migrate {}", self.rng.pick(&clusters)); } else if !clusters.is_empty() { return format!("balance {}", self.rng.pick(&clusters)); } }
                81..=83 => { if !clusters.is_empty() { let n = self.rng.pick(&clusters).clone();
                    let kv = *self.rng.pick(&["compression_strategy=allow_all", "compression_strategy=set_get_only", "COMPRESSION_STRATEGY=Disabled", "migration_scan_count=0", "migration_scan_count=32", "migration_max_blocking_time=+77", "migration_scan_interval=-1", "nosuch=1", "migration_=1", "migration_max_migration_time=18446744073709551616", "migration_max_migration_time=18446744073709551615", "migration_scan_interval=9,migration_scan_count=3", "-"]);
                    return format!("config {} {}", n, kv); } }
                84..=85 => { if !clusters.is_empty() { return format!("del_free {}", self.rng.pick(&clusters)); } }
                86 => { if !clusters.is_empty() && self.rng.chance(1, 2) { return format!("remove_cluster {}", self.rng.pick(&clusters)); } else if self.rng.chance(1, 3) { return format!("remove_cluster {}", self.rng.pick(&["nosuch", "a.b", "c0?x"])); } }
                87..=88 => { if !free.is_empty() { return format!("remove_proxy {}", self.rng.pick(&free)); } else if !proxies.is_empty() { return format!("remove_proxy {}", self.rng.pick(&proxies)); } }
                89..=92 => { if !proxies.is_empty() { let a = if self.rng.chance(3, 4) && !free.is_empty() { self.rng.pick(&free).clone() } else { self.rng.pick(&proxies).clone() };
                    let rep = if self.exotic && self.rng.chance(1, 6) { self.rng.pick(&["r%41", "r{1}", "r?q", "r/1", "ré"]).to_string() } else { format!("r{}", self.rng.below(3)) };
                    return format!("add_failure {} {} 0", a, rep); } }
                93 => { let e = match self.rng.below(6) { 0 => 9007199254740993u64.max(store.global_epoch + 1), 1 => (1u64 << 63) + 5, _ => (store.global_epoch as i64 + self.rng.range(-2, 20)).max(0) as u64 };
                    return format!("bump_all {}", e); }
                94..=95 => { return format!("probe {}", self.rng.pick(&["put_meta same", "put_meta version", "put_meta older", "put_meta bad", "body add_proxy", "body add_cluster", "path numbers", "page windows", "broker_config roundtrip"])); }
                96..=97 => { if self.pool { return match self.rng.below(3) { 0 => "snap".to_string(), 1 if has_snapshot => "restart 0".to_string(), _ => "recover 0".to_string() }; } }
                _ => { if !clusters.is_empty() && self.pool { let n = self.rng.pick(&clusters).clone(); return format!("change_num {} {} -", n, cur_of(&n) + 4); } }
            }
        }
        "add_proxy p0:1 n:1 n:2 h0".into()
    }
}

async fn run_case(w: &mut World, g: &mut Gen, len: usize, cfg: CaseCfg, initial: usize) {
    g.ordered = cfg.ordered;
    g.pool = cfg.pool;
    w.new_case(cfg).await;
    if w.dead { return; }
    g.next_proxy = 0;
    g.hosts = g.rng.range(2, 6) as usize;
    let pool: Vec<String> = w.st.pool.iter().cloned().collect();
    for i in 0..initial {
        let h = if g.rng.chance(1, 5) { 0 } else { i % g.hosts };
        let l = g.proxy_line(&w.store, h, &pool);
        // registrations of the initial pool: printed without the observation block
        w.record(&l);
        let toks: Vec<&str> = l.split(' ').collect();
        for (op, obs) in w.exec(&toks).await { w.emit(&op, &obs); }
    }
    w.observe("init").await;
    let mut auto_budget = if g.auto_left > 0 { 1 } else { 0 };
    // on stand-ins: usually a snapshot in the first half and a restart from it later
    let plan = if g.pool && g.rng.chance(3, 4) { Some((g.rng.range(1, len as i64 / 2) as usize, g.rng.range(len as i64 / 2 + 1, len as i64 - 1) as usize)) } else { None };
    for i in 0..len {
        if w.dead || w.after_restore { break; }
        let mut l = g.next_op(&w.store, &pool, w.snapshot.is_some());
        if let Some((a, b)) = plan { if i == a { l = "snap".into(); } else if i == b { l = "restart 0".into(); } }
        // each scale-out through the composite costs >= 2 s of the service's own sleeping
        if l.starts_with("change_num ") {
            let t: Vec<&str> = l.split(' ').collect();
            let kept = w.store.clusters.values().find(|c| c.name.to_string() == t[1]).map(|c| 4 * c.chunks.iter()
                .filter(|ch| ch.stable_slots.iter().any(|s| s.is_some()) || ch.migrating_slots.iter().any(|m| !m.is_empty())).count()).unwrap_or(0);
            if t[2].parse::<usize>().unwrap_or(0) > kept { if auto_budget == 0 { l = format!("scale_up {} {} -", t[1], t[2]); } else { auto_budget -= 1; g.auto_left -= 1; } }
        }
        w.step(&l).await;
    }
    if !w.dead && !w.after_restore && g.rng.chance(1, 3) { w.step("probe put_meta newer").await; }
    for k in g.stats.drain(..) { w.s.stats.count(k); }
}

/// more than one page (PAGE_SIZE = 100) of cluster names and proxy addresses
async fn run_paging_case(w: &mut World, g: &mut Gen, clusters: usize, limit: u64) {
    let cfg = CaseCfg { limit, ordered: false, gzip: true, quorum: 1, pool: false };
    g.ordered = false; g.pool = false;
    w.new_case(cfg).await;
    if w.dead { return; }
    for i in 0..(2 * clusters + 3) {
        let l = format!("add_proxy p{}:{} n{}:1 n{}:2 h{}", i, 6000 + i, i, i, i % 5);
        w.record(&l);
        let toks: Vec<&str> = l.split(' ').collect();
        for (op, obs) in w.exec(&toks).await { w.emit(&op, &obs); }
    }
    for i in 0..clusters {
        let l = format!("add_cluster k{} 4 -", i);
        w.record(&l);
        let toks: Vec<&str> = l.split(' ').collect();
        for (op, obs) in w.exec(&toks).await { w.emit(&op, &obs); }
    }
    w.observe("init").await;
    w.step("probe page windows").await;
    w.step("remove_cluster k7").await;
    w.step("scale_up k3 8 -").await;
    w.step("migrate k3").await;
    w.step(&format!("failover p{} -", g.rng.below(2 * clusters as u64))).await;
}

async fn amain(args: Args) {
    let st = start_standins(16).await;
    let s = Streams::new(&args);
    let mut w = World { s, st, rng: Rng::new(args.seed ^ 0x68747470), inst: None, cfg: CaseCfg { limit: 0, ordered: false, gzip: true, quorum: 1, pool: false },
        store: MetaStore::new(false), case: 0, ops: vec![], last_epochs: BTreeMap::new(), max_served: BTreeMap::new(), last_global: 0, snapshot: None,
        recover_floor: None, after_restore: false, saw_migration: false, saw_failover: false, dead: false, reported: BTreeSet::new(), prev_registered: BTreeSet::new(), known_reports: 0 };
    let mut g = Gen { auto_left: if args.thorough { 16 } else { 2 }, rng: Rng::new(args.seed), next_proxy: 0, hosts: 4, ordered: false, pool: false, exotic: false, stats: vec![] };
    if let Some(p) = &args.replay {
        let lines: Vec<String> = read_lines(p).into_iter().filter(|l| !l.starts_with('#') && !l.starts_with("case ")).collect();
        let cfg = lines.iter().find_map(|l| CaseCfg::parse(l)).unwrap_or(CaseCfg { limit: 0, ordered: lines.iter().any(|l| l == "mode ordered"), gzip: true, quorum: 1, pool: lines.iter().any(|l| l.contains('@') && l.starts_with("add_proxy @")) });
        w.new_case(cfg).await;
        for l in lines {
            let k = l.split(' ').next().unwrap_or("");
            if matches!(k, "cfg" | "mode" | "state" | "check" | "inv" | "views" | "view" | "proxy" | "scale_out_num") { continue; }
            let l = w.from_replay(&l);
            w.step(&l).await;
        }
    } else {
        let (cases, len) = if args.thorough { (160, 36) } else { (28, 22) };
        for i in 0..cases {
            let pool = i % 5 == 4;
            let cfg = CaseCfg { limit: (i % 3) as u64, ordered: g.rng.chance(1, 4), gzip: g.rng.chance(1, 2), quorum: 1 + g.rng.below(3), pool };
            g.exotic = !pool && g.rng.chance(1, 2);
            let initial = if pool { g.rng.range(4, 12) } else { g.rng.range(0, 14) } as usize;
            run_case(&mut w, &mut g, len, cfg, initial).await;
        }
        if args.thorough { run_paging_case(&mut w, &mut g, 120, 1).await; run_paging_case(&mut w, &mut g, 101, 0).await; } else { run_paging_case(&mut w, &mut g, 101, 2).await; }
    }
    w.flush_case_stats();
    w.inst = None;
    let sample_ops: Vec<String> = w.ops.iter().take(14).cloned().collect();
    w.s.stats.sample(json!({"last_case_first_ops": sample_ops}));
    w.s.finish("http", "random operation histories driven through the broker's HTTP API (real run_server + MemBrokerService on loopback; HttpMetaBroker / HttpMetaManipulationBroker for the coordinator's calls, reqwest for the admin endpoints): migration_limit 0/1/2, about a quarter ordered-proxy mode, client compression on/off, failure quorum 1-3, a fifth of the cases on loopback UMCTL GETEPOCH stand-ins (composite auto-scale endpoint, PUT /epoch/recovery, restart from a snapshot), half of the others with URL-sensitive proxy addresses / reporter ids / cluster names; after every call: GET /metadata decoded into MetaStore, every cluster and proxy view through the client's JSON decoding, digest incl. GET /clusters/info, GET /failures and failed addresses; implementation-only probes of PUT /metadata guards, malformed bodies, numeric path parameters, offset/limit windows; one case with > 100 clusters and > 200 proxies (two pages); non-trivial = a history that reached a pending migration AND a failed proxy; distinct = distinct op sequences");
}

fn main() {
    let args = parse_args();
    let rt = tokio::runtime::Builder::new_multi_thread().worker_threads(3).enable_all().build().expect("rt");
    rt.block_on(amain(args));
}
