//! C07 control-plane correspondence stream: the real coordinator components
//! (`undermoon::coordinator::verif_export::{core,sync,detector,migration,recover}`) against the real
//! `MemBrokerService` (through an in-process adapter shaped like `HttpMetaBroker` /
//! `HttpMetaManipulationBroker`: pages of 100, serde round trip of every payload, status-code
//! mapping) and real proxies (`ForwardHandler` → `MetaManager`, one per address) through a fake
//! network that executes a seeded fault plan.  The Lean driver `umdriver coordinator` replays the
//! same plan through `Um.Coord.runRound`.
//!
//! Op grammar (one space between tokens):
//!   init <migration_limit> <failure_quorum> <compress 0|1>
//!   admin <broker op>                       (grammar of umh_broker.rs, executed through the service)
//!   spawn <addr> <announce_host> | kill <addr> | restart <addr>
//!   finish <src_addr> <k>                   k-th unfinished migrating task of that proxy runs to the end
//!   round <sync|mig|detect|failover> <reporter> faults=<F> targets=<T> choices=<C> nested=<N>
//!       F = `-` or `k.f;k.f…`, f ∈ dq (request dropped) dp (reply dropped) dup dl<d> (delayed by d
//!           later calls) cr (coordinator crash just before call k)
//!       T = order in which the ordered retriever yielded the addresses (recorded), C = replacement
//!           proxies chosen by replace_proxy in execution order (recorded),
//!       N = `-` or `k~kind~reporter~F~T~C|…`: a whole round of another coordinator just before call k
//!   flush choices=<C>                       every delayed call is delivered now
//!   redeliver <cluster> <M|I|N> <epoch> <src_proxy> <src_node> <dst_proxy> <dst_node> <ranges>
//!                                           an earlier commit request reaches the broker (again) now
//!   t <i>                                   i-th record of the last round: `<k> <call> -> <reply> || <digest>`
//!   proxies | broker | digest | bag
use arc_swap::ArcSwap;
use futures::channel::mpsc;
use futures::future::BoxFuture;
use futures::{stream, Future, FutureExt, SinkExt, Stream, StreamExt, TryStreamExt};
use serde_json::{json, Value};
use std::collections::{BTreeMap, BTreeSet, HashMap};
use std::convert::TryFrom;
use std::net::SocketAddr;
use std::num::NonZeroUsize;
use std::panic::AssertUnwindSafe;
use std::pin::Pin;
use std::sync::atomic::{AtomicBool, AtomicI64, AtomicU64};
use std::sync::{Arc, Mutex, Weak};
use std::time::Duration;
use umharness::broker_support::*;
use umharness::util::*;
use undermoon::broker::verif_export::store::{MetaStore, MetaStoreError};
use undermoon::broker::{
    JsonFileStorage, MemBrokerConfig, MemBrokerService, MetaReplicator, MetaSyncError, StorageConfig,
};
use undermoon::common::batch::BatchStrategy;
use undermoon::common::cluster::{
    Cluster, ClusterName, MigrationTaskMeta, Proxy, SlotRange, SlotRangeTag,
};
use undermoon::common::config::ClusterConfig;
use undermoon::common::proto::ProxyClusterMeta;
use undermoon::common::track::TrackedFutureRegistry;
use undermoon::coordinator::broker::{
    MetaDataBroker, MetaDataBrokerError, MetaManipulationBroker, MetaManipulationBrokerError,
};
use undermoon::coordinator::verif_export::core::{
    CoordinateError, FailureDetector, FailureHandler, MigrationStateSynchronizer, ParFailureDetector,
    ParFailureHandler, ParMigrationStateSynchronizer, ProxiesRetriever, ProxyMetaRespSynchronizer,
    ProxyMetaSynchronizer,
};
use undermoon::coordinator::verif_export::detector::{
    BrokerFailureReporter, BrokerOrderedProxiesRetriever, BrokerProxiesRetriever, PingFailureDetector,
};
use undermoon::coordinator::verif_export::migration::{BrokerMigrationCommitter, MigrationStateRespChecker};
use undermoon::coordinator::verif_export::recover::{BrokerProxyFailureRetriever, ReplaceNodeHandler};
use undermoon::coordinator::verif_export::sync::{BrokerMetaRetriever, ProxyMetaRespSender};
use undermoon::protocol::{
    Array, BinSafeStr, BulkStr, OptionalMulti, RedisClient, RedisClientError, RedisClientFactory, Resp,
    RespPacket, RespVec,
};
use undermoon::proxy::backend::{BackendError, ConnFactory, ConnSink, ConnStream, CreateConnResult};
use undermoon::proxy::command::{new_command_pair, Command};
use undermoon::proxy::executor::ForwardHandler;
use undermoon::proxy::manager::{MetaMap, SharedMetaMap};
use undermoon::proxy::service::{ClusterNodesVersion, ServerProxyConfig};
use undermoon::proxy::session::{CmdCtx, CmdCtxHandler};
use undermoon::proxy::slowlog::SlowRequestLogger;
use undermoon::replication::replicator::ReplicatorMeta;

const PAGE_SIZE: usize = 100;

// ---------------------------------------------------------------------------------------------
// canonical text (must match lean/UmModel/Coordinator.lean)
// ---------------------------------------------------------------------------------------------
fn h16(s: &str) -> String {
    format!("{:016x}", fnv(s.as_bytes()))
}

fn render_tag(tag: &SlotRangeTag) -> String {
    let (k, m) = match tag {
        SlotRangeTag::None => return String::new(),
        SlotRangeTag::Migrating(m) => ("M", m),
        SlotRangeTag::Importing(m) => ("I", m),
    };
    format!(
        "!{}({},{},{},{},{})",
        k, m.epoch, m.src_proxy_address, m.src_node_address, m.dst_proxy_address, m.dst_node_address
    )
}

fn render_slot_range(sr: &SlotRange) -> String {
    format!("{}{}", render_ranges(&sr.range_list), render_tag(&sr.tag))
}

fn render_task(t: &MigrationTaskMeta) -> String {
    format!("{}:{}", t.cluster_name, render_slot_range(&t.slot_range))
}

fn render_map(m: &HashMap<String, Vec<SlotRange>>) -> String {
    let mut es: Vec<(&String, &Vec<SlotRange>)> = m.iter().collect();
    es.sort_by(|a, b| a.0.cmp(b.0));
    es.iter()
        .map(|(k, v)| format!("{}{{{}}}", k, v.iter().map(render_slot_range).collect::<Vec<_>>().join(",")))
        .collect::<Vec<_>>()
        .join(";")
}

fn render_cfg(c: &ClusterConfig) -> String {
    render_cfg_json(&serde_json::to_value(c).expect("cfg json"))
}

fn render_cmeta(m: &ProxyClusterMeta) -> String {
    format!(
        "c={}|L={}|P={}|cfg={}",
        m.get_cluster_name(),
        render_map(m.get_local()),
        render_map(m.get_peer()),
        render_cfg(m.get_config())
    )
}

fn render_rmeta(r: &ReplicatorMeta) -> String {
    let mut ms: Vec<String> = r
        .masters
        .iter()
        .map(|x| {
            format!(
                "M:{}/{}[{}]",
                x.cluster_name,
                x.master_node_address,
                x.replicas.iter().map(|p| format!("{}@{}", p.node_address, p.proxy_address)).collect::<Vec<_>>().join(",")
            )
        })
        .collect();
    ms.sort();
    let mut rs: Vec<String> = r
        .replicas
        .iter()
        .map(|x| {
            format!(
                "R:{}/{}[{}]",
                x.cluster_name,
                x.replica_node_address,
                x.masters.iter().map(|p| format!("{}@{}", p.node_address, p.proxy_address)).collect::<Vec<_>>().join(",")
            )
        })
        .collect();
    rs.sort();
    ms.extend(rs);
    ms.join(";")
}

fn to_resp(args: &[Vec<u8>]) -> RespVec {
    Resp::Arr(Array::Arr(args.iter().map(|b| Resp::Bulk(BulkStr::Str(b.clone()))).collect()))
}

fn arr(r: &RespVec) -> Option<&Vec<RespVec>> {
    match r {
        Resp::Arr(Array::Arr(v)) => Some(v),
        _ => None,
    }
}

fn bulk(r: &RespVec) -> Option<String> {
    match r {
        Resp::Bulk(BulkStr::Str(b)) => Some(String::from_utf8_lossy(b).to_string()),
        Resp::Simple(b) => Some(String::from_utf8_lossy(b).to_string()),
        _ => None,
    }
}

/// "n s-e s-e" (`RangeList::to_strings().join(" ")`) -> `render` form
fn ranges_from_info(s: &str) -> String {
    let parts: Vec<&str> = s.split(' ').collect();
    if parts.len() <= 1 {
        return "e".to_string();
    }
    parts[1..].join("+")
}

struct SeenRange {
    text: String,
    tagged: bool,
    /// full task text with the direction derived from the holder (local section only)
    kind: &'static str,
    body: String,
}

/// one slot range as printed by `UMCTL INFO` (`format_slot_ranges`), direction re-derived from the holder
fn seen_range(holder_is_node: bool, holder: &str, sr: &RespVec) -> SeenRange {
    let lines: Vec<String> = arr(sr).map(|v| v.iter().filter_map(bulk).collect()).unwrap_or_default();
    if lines.len() == 6 {
        let strip = |s: &str, p: &str| s.strip_prefix(p).unwrap_or(s).to_string();
        let epoch = lines[0].clone();
        let sp = strip(&lines[1], "src_proxy: ");
        let sn = strip(&lines[2], "src_node: ");
        let dp = strip(&lines[3], "dst_proxy: ");
        let dn = strip(&lines[4], "dst_node: ");
        let (is_src, is_dst) = if holder_is_node { (holder == sn, holder == dn) } else { (holder == sp, holder == dp) };
        let k = if is_src && !is_dst {
            "M"
        } else if is_dst && !is_src {
            "I"
        } else {
            "X"
        };
        let rs = ranges_from_info(&lines[5]);
        let body = format!("({},{},{},{},{})", epoch, sp, sn, dp, dn);
        SeenRange { text: format!("{}!{}{}", rs, k, body), tagged: true, kind: k, body: format!("{}!{}{}", rs, k, body) }
    } else {
        let rs = lines.last().map(|s| ranges_from_info(s)).unwrap_or_else(|| "?".to_string());
        SeenRange { text: rs.clone(), tagged: false, kind: "", body: rs }
    }
}

/// entries `[node, [ranges…]]` of a `local` / `peer` section starting at index `from`
fn seen_map(is_node: bool, section: &RespVec, from: usize) -> (String, Vec<(String, SeenRange)>) {
    let mut entries: Vec<(String, Vec<SeenRange>)> = vec![];
    if let Some(v) = arr(section) {
        for e in v.iter().skip(from) {
            if let Some(pair) = arr(e) {
                let holder = pair.first().and_then(bulk).unwrap_or_default();
                let rs: Vec<SeenRange> =
                    pair.get(1).and_then(arr).map(|x| x.iter().map(|sr| seen_range(is_node, &holder, sr)).collect()).unwrap_or_default();
                entries.push((holder, rs));
            }
        }
    }
    entries.sort_by(|a, b| a.0.cmp(&b.0));
    let text = entries
        .iter()
        .map(|(k, v)| format!("{}{{{}}}", k, v.iter().map(|s| s.text.clone()).collect::<Vec<_>>().join(",")))
        .collect::<Vec<_>>()
        .join(";");
    let flat = entries.into_iter().flat_map(|(k, v)| v.into_iter().map(move |s| (k.clone(), s))).collect();
    (text, flat)
}

/// `get_metadata_report` -> canonical text
fn render_repl_report(r: &RespVec) -> String {
    let mut ms = vec![];
    let mut rs = vec![];
    for item in arr(r).cloned().unwrap_or_default() {
        let lines: Vec<String> = arr(&item).map(|v| v.iter().filter_map(bulk).map(|s| s.trim_end().to_string()).collect()).unwrap_or_default();
        let get = |p: &str| lines.iter().find_map(|l| l.strip_prefix(p).map(|s| s.to_string())).unwrap_or_default();
        let cluster = get("cluster:");
        let role = get("role:");
        let node = get("node_address:");
        let peers: Vec<String> = lines
            .iter()
            .filter_map(|l| l.strip_prefix("replica:").or_else(|| l.strip_prefix("master:")).map(|s| s.to_string()))
            .collect();
        if role == "master" {
            ms.push(format!("M:{}/{}[{}]", cluster, node, peers.join(",")));
        } else {
            rs.push(format!("R:{}/{}[{}]", cluster, node, peers.join(",")));
        }
    }
    ms.sort();
    rs.sort();
    ms.extend(rs);
    ms.join(";")
}

// ---------------------------------------------------------------------------------------------
// one proxy process: the real command handler over fakes
// ---------------------------------------------------------------------------------------------
struct OkConnFactory;

impl ConnFactory for OkConnFactory {
    type Pkt = RespPacket;
    fn create_conn(&self, _addr: SocketAddr) -> Pin<Box<dyn Future<Output = CreateConnResult<Self::Pkt>> + Send>> {
        let (sender, receiver) = mpsc::unbounded();
        let receiver = receiver.map(move |_packet: RespPacket| Ok::<_, ()>(RespPacket::Data(Resp::Simple(b"OK".to_vec()))));
        let sink: ConnSink<RespPacket> = Box::pin(sender.sink_map_err(|_| BackendError::Canceled));
        let stream: ConnStream<RespPacket> = Box::pin(receiver.map_err(|_| BackendError::Canceled));
        Box::pin(async { Ok((sink, stream)) })
    }
}

type Handler = ForwardHandler<PxFactory, OkConnFactory>;

struct ProxyProc {
    addr: String,
    host: String,
    incarnation: u64,
    handler: Handler,
    meta_map: SharedMetaMap<OkConnFactory>,
    _stopped: Mutex<mpsc::UnboundedReceiver<()>>,
}

fn server_config(addr: &str, host: &str) -> ServerProxyConfig {
    ServerProxyConfig {
        address: addr.to_string(),
        announce_address: addr.to_string(),
        announce_host: host.to_string(),
        slowlog_len: NonZeroUsize::new(16).expect("nz"),
        slowlog_log_slower_than: AtomicI64::new(1_000_000_000),
        slowlog_sample_rate: AtomicU64::new(1_000_000),
        thread_number: NonZeroUsize::new(1).expect("nz"),
        backend_conn_num: NonZeroUsize::new(1).expect("nz"),
        active_redirection: false,
        max_redirections: None,
        default_redirection_address: None,
        backend_batch_strategy: BatchStrategy::Fixed,
        backend_flush_size: NonZeroUsize::new(1024).expect("nz"),
        backend_low_flush_interval: Duration::from_nanos(200_000),
        backend_high_flush_interval: Duration::from_nanos(800_000),
        session_timeout: None,
        backend_timeout: Duration::from_secs(3),
        password: None,
        command_cluster_nodes_version: ClusterNodesVersion::V2,
    }
}

impl ProxyProc {
    fn new(ctl: Weak<Ctl>, addr: &str, host: &str, incarnation: u64) -> Self {
        let config = Arc::new(server_config(addr, host));
        let meta_map: SharedMetaMap<OkConnFactory> = Arc::new(ArcSwap::new(Arc::new(MetaMap::empty())));
        let future_registry = Arc::new(TrackedFutureRegistry::default());
        let (tx, rx) = mpsc::unbounded();
        let handler = ForwardHandler::new(
            config.clone(),
            Arc::new(PxFactory { ctl, me: addr.to_string(), incarnation }),
            Arc::new(SlowRequestLogger::new(config)),
            meta_map.clone(),
            Arc::new(OkConnFactory),
            future_registry,
            tx,
        );
        ProxyProc { addr: addr.to_string(), host: host.to_string(), incarnation, handler, meta_map, _stopped: Mutex::new(rx) }
    }

    /// one command through `ForwardHandler::handle_cmd_ctx`
    async fn run(&self, args: &[Vec<u8>]) -> RespVec {
        let cmd = Command::new(Box::new(RespPacket::Data(to_resp(args))));
        let (s, r) = new_command_pair(&cmd);
        let ctx = CmdCtx::new(cmd, s, 1, false);
        let authenticated = AtomicBool::new(false);
        match self.handler.handle_cmd_ctx(ctx, r, &authenticated).await {
            Ok(task_reply) => task_reply.into_resp_vec(),
            Err(e) => Resp::Error(format!("HANDLER-ERROR {:?}", e).into_bytes()),
        }
    }

    async fn umctl(&self, sub: &str) -> RespVec {
        self.run(&[b"UMCTL".to_vec(), sub.as_bytes().to_vec()]).await
    }

    async fn epoch(&self) -> u64 {
        match self.umctl("GETEPOCH").await {
            Resp::Integer(b) => String::from_utf8_lossy(&b).parse().unwrap_or(u64::MAX),
            _ => u64::MAX,
        }
    }

    async fn finished(&self) -> Vec<MigrationTaskMeta> {
        let r = self.umctl("INFOMGR").await;
        let mut out = vec![];
        for e in arr(&r).cloned().unwrap_or_default() {
            if let Some(s) = bulk(&e) {
                let mut it = s.split(' ').map(|x| x.to_string()).collect::<Vec<_>>().into_iter().peekable();
                if let Some(t) = MigrationTaskMeta::from_strings(&mut it) {
                    out.push(t);
                }
            }
        }
        out
    }

    /// (epoch, cluster name, canonical state text, tagged local ranges `(node, range)`)
    async fn observe(&self) -> (u64, String, Vec<(String, SeenRange)>) {
        let epoch = self.epoch().await;
        let info = self.umctl("INFO").await;
        let top = arr(&info).cloned().unwrap_or_default();
        let cluster = top.get(1).cloned().unwrap_or(Resp::Arr(Array::Nil));
        let repl = top.get(3).cloned().unwrap_or(Resp::Arr(Array::Nil));
        let cv = arr(&cluster).cloned().unwrap_or_default();
        let name = cv.first().and_then(bulk).unwrap_or_default();
        let (ltext, lflat) = cv.get(2).map(|s| seen_map(true, s, 3)).unwrap_or_default();
        let (ptext, _) = cv.get(4).map(|s| seen_map(false, s, 1)).unwrap_or_default();
        let cfg = render_cfg(self.meta_map.load().get_cluster_map().get_config());
        let tagged: Vec<(String, SeenRange)> = lflat.into_iter().filter(|(_, s)| s.tagged).collect();
        let ntasks = tagged.iter().map(|(_, s)| s.body.clone()).collect::<BTreeSet<_>>().len();
        let mut fin: Vec<String> = self.finished().await.iter().map(render_task).collect();
        fin.sort();
        let text = format!(
            "{}|e={}|c={}|L={}|P={}|cfg={}|R={}|T={}|F={}",
            self.addr,
            epoch,
            name,
            ltext,
            ptext,
            cfg,
            render_repl_report(&repl),
            ntasks,
            fin.join(";")
        );
        (epoch, text, tagged)
    }
}

// ---------------------------------------------------------------------------------------------
// the fake network + broker adapter state
// ---------------------------------------------------------------------------------------------
#[derive(Clone, Debug, PartialEq)]
enum Fault {
    DropReq,
    DropRep,
    Dup,
    Delay(usize),
    Crash,
}

fn render_fault(f: &Fault) -> String {
    match f {
        Fault::DropReq => "dq".into(),
        Fault::DropRep => "dp".into(),
        Fault::Dup => "dup".into(),
        Fault::Delay(d) => format!("dl{}", d),
        Fault::Crash => "cr".into(),
    }
}

fn parse_fault(s: &str) -> Option<Fault> {
    match s {
        "dq" => Some(Fault::DropReq),
        "dp" => Some(Fault::DropRep),
        "dup" => Some(Fault::Dup),
        "cr" => Some(Fault::Crash),
        _ => s.strip_prefix("dl").and_then(|d| d.parse().ok()).map(Fault::Delay),
    }
}

#[derive(Clone, Debug)]
struct RoundSpec {
    kind: String,
    reporter: String,
    faults: BTreeMap<usize, Fault>,
    nested: BTreeMap<usize, RoundSpec>,
}

fn render_faults(f: &BTreeMap<usize, Fault>) -> String {
    if f.is_empty() {
        return "-".into();
    }
    f.iter().map(|(k, v)| format!("{}.{}", k, render_fault(v))).collect::<Vec<_>>().join(";")
}

fn parse_faults(s: &str) -> BTreeMap<usize, Fault> {
    let mut m = BTreeMap::new();
    if s == "-" || s.is_empty() {
        return m;
    }
    for e in s.split(';') {
        let mut it = e.split('.');
        if let (Some(k), Some(f)) = (it.next(), it.next()) {
            if let (Ok(k), Some(f)) = (k.parse(), parse_fault(f)) {
                m.insert(k, f);
            }
        }
    }
    m
}

fn list_or_dash(v: &[String]) -> String {
    if v.is_empty() {
        "-".into()
    } else {
        v.join(";")
    }
}

#[derive(Clone)]
enum Wire {
    ClusterNames(usize),
    Cluster(String),
    ProxyAddrs(usize),
    FailedProxies,
    GetProxy(String),
    AddFailure(String, String),
    GetFailures,
    ReplaceProxy(String),
    Commit(MigrationTaskMeta),
    Connect(String),
    Cmd(String, Vec<Vec<u8>>),
}

enum WireReply {
    Names(Vec<String>),
    Cluster(Option<Cluster>),
    Proxy(Option<Proxy>),
    Unit,
    Replaced(Option<Proxy>),
    Fail(String),
    Resp(RespVec),
    Connected,
    Refused,
}

struct RoundCtx {
    n: usize,
    faults: BTreeMap<usize, Fault>,
    nested: BTreeMap<usize, RoundSpec>,
    crashed: bool,
    trace: Vec<String>,
    targets: Vec<String>,
    choices: Vec<String>,
    nested_done: Vec<(usize, RoundSpec, Vec<String>, Vec<String>)>,
    issued: Vec<(String, String)>, // (call text, reply text) of the calls this round issued (for the order oracle)
}

enum Proc {
    Up(Arc<ProxyProc>),
    Down(String),
}

#[derive(Default)]
struct Oracle {
    /// per address: (incarnation, epoch, state text) last observed
    last: BTreeMap<String, (u64, u64, String)>,
    commits_ok: BTreeMap<String, usize>,
    /// every distinct commit request the coordinators issued in this case (for `redeliver`)
    commit_log: Vec<MigrationTaskMeta>,
    failures: Vec<(String, String)>, // (what, finding id)
    panics: Vec<String>,
}

struct Inner {
    proxies: BTreeMap<String, Proc>,
    ctx: Vec<RoundCtx>,
    bag: Vec<(usize, Wire)>,
    gates: BTreeSet<String>,
    next_incarnation: u64,
    oracle: Oracle,
}

struct Ctl {
    svc: MemBrokerService,
    compress: bool,
    inner: Mutex<Inner>,
}

fn status_of(e: &MetaStoreError) -> u16 {
    // the adapter's copy of `MetaStoreError::status_code` (private in src/broker/service.rs); the model
    // reads the same table from the source (UmGen/CoordTables.lean), so a slip here shows as a diff
    match e.to_code() {
        "CLUSTER_NOT_FOUND" | "FREE_NODE_NOT_FOUND" | "PROXY_NOT_FOUND" | "MIGRATION_TASK_NOT_FOUND" => 404,
        "INVALID_NODE_NUMBER" | "INVALID_CLUSTER_NAME" | "INVALID_MIGRATION_TASK" | "INVALID_PROXY_ADDRESS"
        | "INVALID_CONFIG" | "SLOTS_ALREADY_EVEN" | "MISSING_SERVER_PROXY_INDEX" => 400,
        "PROXY_NOT_SYNC" | "EXTERNAL" | "EMPTY_EXTERNAL_VERSION" => 500,
        "EXTERNAL_TIMEOUT" => 504,
        _ => 409,
    }
}

fn roundtrip<T: serde::Serialize + serde::de::DeserializeOwned>(t: &T) -> T {
    serde_json::from_str(&serde_json::to_string(t).expect("serialize")).expect("deserialize")
}

fn cmd_strings(cmd: &[Vec<u8>]) -> Vec<String> {
    cmd.iter().map(|b| String::from_utf8_lossy(b).to_string()).collect()
}

fn zeroed_store_text(mut s: MetaStore) -> String {
    for m in s.failures.values_mut() {
        for t in m.values_mut() {
            *t = 0;
        }
    }
    render_store(&s)
}

fn pending_text(s: &MetaStore) -> String {
    let mut v = vec![];
    for c in s.clusters.values() {
        for ch in c.chunks.iter() {
            for part in ch.migrating_slots.iter() {
                for m in part.iter() {
                    if m.is_migrating {
                        v.push(format!("{}:{}@{}", c.name, render_ranges(&m.range_list), m.meta.epoch));
                    }
                }
            }
        }
    }
    v.sort();
    v.join(",")
}

impl Ctl {
    fn lock(&self) -> std::sync::MutexGuard<'_, Inner> {
        self.inner.lock().unwrap_or_else(|e| e.into_inner())
    }

    fn proc_of(&self, a: &str) -> Option<Arc<ProxyProc>> {
        match self.lock().proxies.get(a) {
            Some(Proc::Up(p)) => Some(p.clone()),
            _ => None,
        }
    }

    async fn store(&self) -> MetaStore {
        self.svc.get_all_data().await.expect("get_all_data")
    }

    async fn broker_digest(&self) -> String {
        let s = self.store().await;
        format!("g={} pend={} store={}", s.global_epoch, pending_text(&s), h16(&zeroed_store_text(s.clone())))
    }

    /// per-proxy `(epoch, digest)` + broker; also feeds the "never replaced by an older version" oracle
    async fn digest(&self) -> String {
        let procs: Vec<(String, Option<Arc<ProxyProc>>)> = self
            .lock()
            .proxies
            .iter()
            .map(|(a, p)| (a.clone(), match p { Proc::Up(x) => Some(x.clone()), Proc::Down(_) => None }))
            .collect();
        let mut parts = vec![];
        for (a, p) in procs {
            match p {
                None => parts.push(format!("{}:down", a)),
                Some(p) => {
                    let (epoch, text, _) = p.observe().await;
                    {
                        let mut g = self.lock();
                        let prev = g.oracle.last.get(&a).cloned();
                        if let Some((inc, pe, pt)) = prev {
                            if inc == p.incarnation {
                                // the installed view = everything up to `|R=` (cluster map + config)
                                let view = |t: &str| t.split("|R=").next().unwrap_or("").to_string();
                                if epoch < pe {
                                    g.oracle.failures.push((format!("C07: proxy {} epoch went back {} -> {}", a, pe, epoch), String::new()));
                                } else if epoch == pe && view(&pt) != view(&text) {
                                    g.oracle.failures.push((format!("C07: proxy {} replaced its view without a larger epoch ({})", a, epoch), String::new()));
                                }
                            }
                        }
                        g.oracle.last.insert(a.clone(), (p.incarnation, epoch, text.clone()));
                    }
                    parts.push(format!("{}:{}:{}", a, epoch, h16(&text)));
                }
            }
        }
        format!("{} | {}", parts.join(","), self.broker_digest().await)
    }

    async fn log(&self, line: String) {
        let d = self.digest().await;
        let mut g = self.lock();
        if let Some(ctx) = g.ctx.last_mut() {
            ctx.trace.push(format!("{} || {}", line, d));
        }
    }

    fn render_wire(&self, w: &Wire) -> String {
        match w {
            Wire::ClusterNames(o) => format!("cluster_names {}", o),
            Wire::Cluster(n) => format!("get_cluster {}", n),
            Wire::ProxyAddrs(o) => format!("proxy_addresses {}", o),
            Wire::FailedProxies => "failed_proxies".into(),
            Wire::GetProxy(a) => format!("get_proxy {}", a),
            Wire::AddFailure(a, r) => format!("add_failure {} {}", a, r),
            Wire::GetFailures => "get_failures".into(),
            Wire::ReplaceProxy(a) => format!("replace_proxy {}", a),
            Wire::Commit(t) => format!("commit {}", render_task(t)),
            Wire::Connect(a) => format!("connect {}", a),
            Wire::Cmd(a, cmd) => {
                let s = cmd_strings(cmd);
                let sub = s.get(1).map(|x| x.to_uppercase()).unwrap_or_default();
                if s.first().map(|x| x.to_uppercase()) == Some("PING".into()) {
                    format!("PING {}", a)
                } else if sub == "SETREPL" {
                    match ReplicatorMeta::from_resp(&to_resp(cmd)) {
                        Ok(m) => format!("SETREPL {} {} {}{}", a, m.epoch, h16(&render_rmeta(&m)), if m.flags.force { " FORCE" } else { "" }),
                        Err(_) => format!("SETREPL {} unparsable", a),
                    }
                } else if sub == "SETCLUSTER" {
                    match ProxyClusterMeta::from_resp(&to_resp(cmd)) {
                        Ok((m, _)) => format!("SETCLUSTER {} {} {}{}", a, m.get_epoch(), h16(&render_cmeta(&m)), if m.get_flags().force { " FORCE" } else { "" }),
                        Err(_) => format!("SETCLUSTER {} unparsable", a),
                    }
                } else if sub == "INFOMGR" {
                    format!("INFOMGR {}", a)
                } else {
                    format!("CMD {} {}", a, s.join("_"))
                }
            }
        }
    }

    /// deliver one call to the real broker service / the real proxy handler
    async fn exec_wire(&self, w: &Wire) -> (WireReply, String) {
        match w {
            Wire::ClusterNames(off) => {
                let r = AssertUnwindSafe(self.svc.get_cluster_names(Some(*off), Some(PAGE_SIZE))).catch_unwind().await;
                match r {
                    Ok(Ok(v)) => {
                        let mut names: Vec<String> = roundtrip(&v).iter().map(|n: &ClusterName| n.to_string()).collect();
                        names.sort();
                        let t = format!("[{}]", names.join(","));
                        (WireReply::Names(names), t)
                    }
                    _ => (WireReply::Fail("PANIC".into()), "fail:PANIC".into()),
                }
            }
            Wire::Cluster(name) => match AssertUnwindSafe(self.svc.get_cluster_by_name(name)).catch_unwind().await {
                Ok(Ok(Some(c))) => {
                    let c: Cluster = roundtrip(&c);
                    let j = serde_json::to_value(&c).expect("json");
                    let t = format!("cluster:{}:{}", c.get_epoch(), h16(&render_vcluster(&j)));
                    (WireReply::Cluster(Some(c)), t)
                }
                Ok(Ok(None)) => (WireReply::Cluster(None), "none".into()),
                _ => (WireReply::Fail("PANIC".into()), "fail:PANIC".into()),
            },
            Wire::ProxyAddrs(off) => match AssertUnwindSafe(self.svc.get_proxy_addresses(Some(*off), Some(PAGE_SIZE))).catch_unwind().await {
                Ok(Ok(v)) => {
                    let mut v: Vec<String> = roundtrip(&v);
                    v.sort();
                    let t = format!("[{}]", v.join(","));
                    (WireReply::Names(v), t)
                }
                _ => (WireReply::Fail("PANIC".into()), "fail:PANIC".into()),
            },
            Wire::FailedProxies => match self.svc.get_failed_proxies().await {
                Ok(v) => {
                    let mut v: Vec<String> = roundtrip(&v);
                    v.sort();
                    let t = format!("[{}]", v.join(","));
                    (WireReply::Names(v), t)
                }
                Err(_) => (WireReply::Fail("ERR".into()), "fail:ERR".into()),
            },
            Wire::GetProxy(a) => match AssertUnwindSafe(self.svc.get_proxy_by_address(a)).catch_unwind().await {
                Ok(Ok(Some(p))) => {
                    let p: Proxy = roundtrip(&p);
                    let j = serde_json::to_value(&p).expect("json");
                    let t = format!("proxy:{}:{}", p.get_epoch(), h16(&render_vproxy(&j)));
                    (WireReply::Proxy(Some(p)), t)
                }
                Ok(Ok(None)) => (WireReply::Proxy(None), "none".into()),
                _ => (WireReply::Fail("PANIC".into()), "fail:PANIC".into()),
            },
            Wire::AddFailure(a, r) => match self.svc.add_failure(a.clone(), r.clone()).await {
                Ok(()) => (WireReply::Unit, "ok".into()),
                Err(e) => (WireReply::Fail(e.to_code().to_string()), format!("fail:InvalidReply:{}", e.to_code())),
            },
            Wire::GetFailures => match self.svc.get_failures().await {
                Ok(v) => {
                    let mut v: Vec<String> = roundtrip(&v);
                    v.sort();
                    let t = format!("[{}]", v.join(","));
                    (WireReply::Names(v), t)
                }
                Err(_) => (WireReply::Fail("ERR".into()), "fail:ERR".into()),
            },
            Wire::ReplaceProxy(a) => {
                let r = AssertUnwindSafe(self.svc.replace_failed_proxy(a.clone())).catch_unwind().await;
                let (choice, out) = match r {
                    Ok(Ok(Some(p))) => {
                        let p: Proxy = roundtrip(&p);
                        let addr = p.get_address().to_string();
                        (addr.clone(), (WireReply::Replaced(Some(p)), format!("replaced:{}", addr)))
                    }
                    Ok(Ok(None)) => ("-".to_string(), (WireReply::Replaced(None), "replaced:none".into())),
                    Ok(Err(e)) => {
                        let kind = if status_of(&e) == 409 { "Retry" } else { "InvalidReply" };
                        ("-".to_string(), (WireReply::Fail(kind.into()), format!("fail:{}:{}", kind, e.to_code())))
                    }
                    Err(_) => ("-".to_string(), (WireReply::Fail("PANIC".into()), "fail:PANIC".into())),
                };
                if let Some(ctx) = self.lock().ctx.last_mut() {
                    ctx.choices.push(choice);
                }
                out
            }
            Wire::Commit(t) => {
                let t: MigrationTaskMeta = roundtrip(t);
                let epoch = t.slot_range.tag.get_migration_meta().map(|m| m.epoch).unwrap_or(0);
                let key = render_task(&MigrationTaskMeta {
                    cluster_name: t.cluster_name.clone(),
                    slot_range: SlotRange { range_list: t.slot_range.range_list.clone(), tag: SlotRangeTag::None },
                }) + &format!("@{}", epoch);
                {
                    let mut g = self.lock();
                    if !g.oracle.commit_log.iter().any(|x| render_task(x) == render_task(&t)) {
                        g.oracle.commit_log.push(t.clone());
                    }
                }
                // the property's own reading of "its own descriptor": the request names a migration that is
                // running right now - same cluster, same range list, same epoch (the broker's pending entries)
                let before = self.store().await;
                let running = pending_text(&before).split(',').any(|p| p == format!("{}:{}@{}", t.cluster_name, render_ranges(&t.slot_range.range_list), epoch));
                let before_txt = zeroed_store_text(before);
                let res = AssertUnwindSafe(self.svc.commit_migration(t.clone())).catch_unwind().await;
                let after_txt = zeroed_store_text(self.store().await);
                if !running {
                    let refused = matches!(&res, Ok(Err(e)) if status_of(e) == 404);
                    if !refused || before_txt != after_txt {
                        self.lock().oracle.failures.push((
                            format!(
                                "C07: commit request {} names no running migration (ranges+epoch) but was {} and {} the store",
                                render_task(&t),
                                if refused { "refused" } else { "accepted" },
                                if before_txt != after_txt { "changed" } else { "did not change" }
                            ),
                            String::new(),
                        ));
                    }
                }
                match res {
                    Ok(Ok(())) => {
                        let mut g = self.lock();
                        let n = {
                            let n = g.oracle.commits_ok.entry(key.clone()).or_insert(0);
                            *n += 1;
                            *n
                        };
                        if n > 1 {
                            g.oracle.failures.push((format!("C07: migration task {} committed {} times", key, n), String::new()));
                        }
                        (WireReply::Unit, "ok".into())
                    }
                    Ok(Err(e)) => match status_of(&e) {
                        404 => (WireReply::Unit, format!("ok({})", e.to_code())),
                        409 => (WireReply::Fail("Retry".into()), format!("fail:Retry:{}", e.to_code())),
                        _ => (WireReply::Fail("InvalidReply".into()), format!("fail:InvalidReply:{}", e.to_code())),
                    },
                    Err(_) => (WireReply::Fail("PANIC".into()), "fail:PANIC".into()),
                }
            }
            Wire::Connect(a) => match self.proc_of(a) {
                Some(_) => (WireReply::Connected, "connected".into()),
                None => (WireReply::Refused, "refused".into()),
            },
            Wire::Cmd(a, cmd) => match self.proc_of(a) {
                None => (WireReply::Refused, "refused".into()),
                Some(p) => {
                    let s = cmd_strings(cmd);
                    let r = p.run(cmd).await;
                    let sub = s.get(1).map(|x| x.to_uppercase()).unwrap_or_default();
                    if s.first().map(|x| x.to_uppercase()) == Some("PING".into()) {
                        let t = match &r {
                            Resp::Simple(_) => "PONG".to_string(),
                            other => format!("unexpected:{:?}", other),
                        };
                        (WireReply::Resp(r), t)
                    } else if sub == "INFOMGR" {
                        // canonical order of the listing (the proxy keeps its tasks in a HashMap)
                        let mut items: Vec<(String, RespVec)> = vec![];
                        for e in arr(&r).cloned().unwrap_or_default() {
                            let txt = bulk(&e).unwrap_or_default();
                            let mut it = txt.split(' ').map(|x| x.to_string()).collect::<Vec<_>>().into_iter().peekable();
                            let key = MigrationTaskMeta::from_strings(&mut it).map(|t| render_task(&t)).unwrap_or(txt);
                            items.push((key, e));
                        }
                        items.sort_by(|a, b| a.0.cmp(&b.0));
                        let t = format!("[{}]", items.iter().map(|x| x.0.clone()).collect::<Vec<_>>().join(";"));
                        (WireReply::Resp(Resp::Arr(Array::Arr(items.into_iter().map(|x| x.1).collect()))), t)
                    } else {
                        let t = match &r {
                            Resp::Simple(b) => String::from_utf8_lossy(b).to_string(),
                            Resp::Error(b) => String::from_utf8_lossy(b).to_string(),
                            other => format!("unexpected:{:?}", other),
                        };
                        (WireReply::Resp(r), t)
                    }
                }
            },
        }
    }

    async fn deliver(&self, tag: &str, w: &Wire) -> WireReply {
        let call = self.render_wire(w);
        let (r, txt) = self.exec_wire(w).await;
        self.log(format!("{} {} -> {}", tag, call, txt)).await;
        if !tag.starts_with("late") {
            if let Some(ctx) = self.lock().ctx.last_mut() {
                ctx.issued.push((call, txt));
            }
        }
        r
    }

    async fn tick(&self) {
        let due: Vec<Wire> = {
            let mut g = self.lock();
            let due = g.bag.iter().filter(|e| e.0 == 0).map(|e| e.1.clone()).collect();
            g.bag = g.bag.iter().filter(|e| e.0 != 0).map(|e| (e.0 - 1, e.1.clone())).collect();
            due
        };
        for w in due {
            self.deliver("late", &w).await;
        }
    }

    /// the coordinator issues one call; `None` = it sees an error
    fn call<'a>(self: &'a Arc<Self>, w: Wire) -> BoxFuture<'a, Option<WireReply>> {
        Box::pin(async move {
            let (k, nested) = {
                let mut g = self.lock();
                let ctx = g.ctx.last_mut().expect("round ctx");
                if ctx.crashed {
                    return None;
                }
                let k = ctx.n;
                (k, ctx.nested.remove(&k))
            };
            if let Some(spec) = nested {
                let res = run_round0(self.clone(), spec.clone()).await;
                let mut g = self.lock();
                let ctx = g.ctx.last_mut().expect("round ctx");
                ctx.trace.push(format!("nested-begin {}", k));
                for l in res.trace.iter() {
                    ctx.trace.push(format!("  {}", l));
                }
                ctx.trace.push("nested-end".to_string());
                ctx.nested_done.push((k, spec, res.targets, res.choices));
            }
            let f = {
                let g = self.lock();
                g.ctx.last().expect("ctx").faults.get(&k).cloned()
            };
            if f == Some(Fault::Crash) {
                self.lock().ctx.last_mut().expect("ctx").crashed = true;
                self.log(format!("{} crash", k)).await;
                return None;
            }
            self.tick().await;
            self.lock().ctx.last_mut().expect("ctx").n = k + 1;
            match f {
                None => Some(self.deliver(&format!("{}", k), &w).await),
                Some(Fault::DropReq) => {
                    let call = self.render_wire(&w);
                    self.log(format!("{} {} -> dropped", k, call)).await;
                    None
                }
                Some(Fault::DropRep) => {
                    self.deliver(&format!("{} reply-dropped", k), &w).await;
                    None
                }
                Some(Fault::Dup) => {
                    let r = self.deliver(&format!("{}", k), &w).await;
                    self.deliver(&format!("{} dup", k), &w).await;
                    Some(r)
                }
                Some(Fault::Delay(d)) => {
                    let call = self.render_wire(&w);
                    self.lock().bag.push((d, w));
                    self.log(format!("{} {} -> delayed {}", k, call, d)).await;
                    None
                }
                Some(Fault::Crash) => None,
            }
        })
    }
}

// ---------------------------------------------------------------------------------------------
// the proxies' own outgoing connections (migration handshake to the peer proxy, fake Redis)
// ---------------------------------------------------------------------------------------------
struct PxFactory {
    ctl: Weak<Ctl>,
    me: String,
    incarnation: u64,
}

enum PxClient {
    Redis,
    Proxy { ctl: Weak<Ctl>, me: String, incarnation: u64, to: String },
}

fn fake_redis(cmd: &[Vec<u8>]) -> RespVec {
    let name = cmd.first().map(|b| String::from_utf8_lossy(b).to_uppercase()).unwrap_or_default();
    match name.as_str() {
        "SCAN" => Resp::Arr(Array::Arr(vec![Resp::Bulk(BulkStr::Str(b"0".to_vec())), Resp::Arr(Array::Arr(vec![]))])),
        "EXISTS" => Resp::Integer(b"0".to_vec()),
        "PTTL" => Resp::Integer(b"-2".to_vec()),
        "DUMP" => Resp::Bulk(BulkStr::Nil),
        _ => Resp::Simple(b"OK".to_vec()),
    }
}

/// `cluster:ranges!M(…)` of a `UMCTL PRECHECK|PRESWITCH|FINALSWITCH` command
fn switch_key(cmd: &[Vec<u8>]) -> Option<String> {
    let s = cmd_strings(cmd);
    let mut it = s.into_iter().skip(3).peekable(); // UMCTL <sub> <version>
    MigrationTaskMeta::from_strings(&mut it).map(|t| render_task(&t))
}

impl PxClient {
    async fn one(&mut self, cmd: Vec<BinSafeStr>) -> Result<RespVec, RedisClientError> {
        match self {
            PxClient::Redis => Ok(fake_redis(&cmd)),
            PxClient::Proxy { ctl, me, incarnation, to } => {
                let ctl = ctl.upgrade().ok_or(RedisClientError::Closed)?;
                // a killed process sends nothing
                match ctl.proc_of(me) {
                    Some(p) if p.incarnation == *incarnation => {}
                    _ => return Err(RedisClientError::Closed),
                }
                let s = cmd_strings(&cmd);
                let sub = s.get(1).map(|x| x.to_uppercase()).unwrap_or_default();
                if matches!(sub.as_str(), "PRECHECK" | "PRESWITCH" | "FINALSWITCH") {
                    let open = switch_key(&cmd).map(|k| ctl.lock().gates.contains(&k)).unwrap_or(false);
                    if !open {
                        return Err(RedisClientError::Closed);
                    }
                }
                match ctl.proc_of(to) {
                    Some(p) => Ok(p.run(&cmd).await),
                    None => Err(RedisClientError::Closed),
                }
            }
        }
    }
}

impl RedisClient for PxClient {
    fn execute<'s>(
        &'s mut self,
        command: OptionalMulti<Vec<BinSafeStr>>,
    ) -> Pin<Box<dyn Future<Output = Result<OptionalMulti<RespVec>, RedisClientError>> + Send + 's>> {
        Box::pin(async move {
            match command {
                OptionalMulti::Single(c) => Ok(OptionalMulti::Single(self.one(c).await?)),
                OptionalMulti::Multi(cs) => {
                    let mut out = vec![];
                    for c in cs {
                        out.push(self.one(c).await?);
                    }
                    Ok(OptionalMulti::Multi(out))
                }
            }
        })
    }
}

impl RedisClientFactory for PxFactory {
    type Client = PxClient;
    fn create_client<'s>(
        &'s self,
        address: String,
    ) -> Pin<Box<dyn Future<Output = Result<Self::Client, RedisClientError>> + Send + 's>> {
        Box::pin(async move {
            let ctl = self.ctl.upgrade().ok_or(RedisClientError::Closed)?;
            let known = ctl.lock().proxies.contains_key(&address);
            if known {
                if ctl.proc_of(&address).is_none() {
                    return Err(RedisClientError::Closed);
                }
                Ok(PxClient::Proxy { ctl: self.ctl.clone(), me: self.me.clone(), incarnation: self.incarnation, to: address })
            } else {
                Ok(PxClient::Redis)
            }
        })
    }
}

// ---------------------------------------------------------------------------------------------
// the coordinator's connections to proxies
// ---------------------------------------------------------------------------------------------
struct NetFactory {
    ctl: Arc<Ctl>,
}

struct NetClient {
    ctl: Arc<Ctl>,
    addr: String,
}

impl RedisClient for NetClient {
    fn execute<'s>(
        &'s mut self,
        command: OptionalMulti<Vec<BinSafeStr>>,
    ) -> Pin<Box<dyn Future<Output = Result<OptionalMulti<RespVec>, RedisClientError>> + Send + 's>> {
        Box::pin(async move {
            match command {
                OptionalMulti::Single(c) => match self.ctl.call(Wire::Cmd(self.addr.clone(), c)).await {
                    Some(WireReply::Resp(r)) => Ok(OptionalMulti::Single(r)),
                    _ => Err(RedisClientError::Closed),
                },
                OptionalMulti::Multi(_) => Err(RedisClientError::InvalidState),
            }
        })
    }
}

impl RedisClientFactory for NetFactory {
    type Client = NetClient;
    fn create_client<'s>(
        &'s self,
        address: String,
    ) -> Pin<Box<dyn Future<Output = Result<Self::Client, RedisClientError>> + Send + 's>> {
        Box::pin(async move {
            match self.ctl.call(Wire::Connect(address.clone())).await {
                Some(WireReply::Connected) => Ok(NetClient { ctl: self.ctl.clone(), addr: address }),
                _ => Err(RedisClientError::Closed),
            }
        })
    }
}

// ---------------------------------------------------------------------------------------------
// the broker adapter: `HttpMetaBroker` / `HttpMetaManipulationBroker` with HTTP replaced by direct calls
// ---------------------------------------------------------------------------------------------
struct Adapter {
    ctl: Arc<Ctl>,
}

fn vec_result_to_stream<T: Send + 'static, E: Send + 'static>(
    r: Result<Vec<T>, E>,
) -> Pin<Box<dyn Stream<Item = Result<T, E>> + Send>> {
    match r {
        Ok(v) => Box::pin(stream::iter(v.into_iter().map(Ok))),
        Err(e) => Box::pin(stream::iter(vec![Err(e)])),
    }
}

impl Adapter {
    async fn names_page(&self, w: Wire) -> Result<Vec<String>, MetaDataBrokerError> {
        match self.ctl.call(w).await {
            Some(WireReply::Names(v)) => Ok(v),
            Some(_) => Err(MetaDataBrokerError::InvalidReply),
            None => Err(MetaDataBrokerError::RequestFailed),
        }
    }
}

impl MetaDataBroker for Adapter {
    fn get_cluster_names<'s>(&'s self) -> Pin<Box<dyn Stream<Item = Result<ClusterName, MetaDataBrokerError>> + Send + 's>> {
        let s = stream::iter(0..)
            .then(move |page: usize| async move {
                let v = self.names_page(Wire::ClusterNames(page * PAGE_SIZE)).await?;
                Ok::<_, MetaDataBrokerError>(v.iter().filter_map(|n| ClusterName::try_from(n.as_str()).ok()).collect::<Vec<_>>())
            })
            .take_while(|r| match r {
                Err(_) => futures::future::ready(false),
                Ok(names) => futures::future::ready(!names.is_empty()),
            })
            .map(vec_result_to_stream)
            .flatten();
        Box::pin(s)
    }

    fn get_cluster<'s>(&'s self, name: ClusterName) -> Pin<Box<dyn Future<Output = Result<Option<Cluster>, MetaDataBrokerError>> + Send + 's>> {
        Box::pin(async move {
            match self.ctl.call(Wire::Cluster(name.to_string())).await {
                Some(WireReply::Cluster(c)) => Ok(c),
                Some(_) => Err(MetaDataBrokerError::InvalidReply),
                None => Err(MetaDataBrokerError::RequestFailed),
            }
        })
    }

    fn get_proxy_addresses<'s>(&'s self) -> Pin<Box<dyn Stream<Item = Result<String, MetaDataBrokerError>> + Send + 's>> {
        let s = stream::iter(0..)
            .then(move |page: usize| self.names_page(Wire::ProxyAddrs(page * PAGE_SIZE)))
            .take_while(|r| match r {
                Err(_) => futures::future::ready(false),
                Ok(names) => futures::future::ready(!names.is_empty()),
            })
            .map(vec_result_to_stream)
            .flatten();
        Box::pin(s)
    }

    fn get_proxy<'s>(&'s self, address: String) -> Pin<Box<dyn Future<Output = Result<Option<Proxy>, MetaDataBrokerError>> + Send + 's>> {
        Box::pin(async move {
            match self.ctl.call(Wire::GetProxy(address)).await {
                Some(WireReply::Proxy(p)) => Ok(p),
                Some(_) => Err(MetaDataBrokerError::InvalidReply),
                None => Err(MetaDataBrokerError::RequestFailed),
            }
        })
    }

    fn add_failure<'s>(&'s self, address: String, reporter_id: String) -> Pin<Box<dyn Future<Output = Result<(), MetaDataBrokerError>> + Send + 's>> {
        Box::pin(async move {
            match self.ctl.call(Wire::AddFailure(address, reporter_id)).await {
                Some(WireReply::Unit) => Ok(()),
                Some(_) => Err(MetaDataBrokerError::InvalidReply),
                None => Err(MetaDataBrokerError::RequestFailed),
            }
        })
    }

    fn get_failures<'s>(&'s self) -> Pin<Box<dyn Stream<Item = Result<String, MetaDataBrokerError>> + Send + 's>> {
        Box::pin(self.names_page(Wire::GetFailures).map(vec_result_to_stream).flatten_stream())
    }

    fn get_failed_proxies<'s>(&'s self) -> Pin<Box<dyn Stream<Item = Result<String, MetaDataBrokerError>> + Send + 's>> {
        Box::pin(self.names_page(Wire::FailedProxies).map(vec_result_to_stream).flatten_stream())
    }
}

impl MetaManipulationBroker for Adapter {
    fn replace_proxy<'s>(
        &'s self,
        failed_proxy_address: String,
    ) -> Pin<Box<dyn Future<Output = Result<Option<Proxy>, MetaManipulationBrokerError>> + Send + 's>> {
        Box::pin(async move {
            match self.ctl.call(Wire::ReplaceProxy(failed_proxy_address)).await {
                Some(WireReply::Replaced(p)) => Ok(p),
                Some(WireReply::Fail(k)) if k == "Retry" => Err(MetaManipulationBrokerError::Retry),
                Some(_) => Err(MetaManipulationBrokerError::InvalidReply),
                None => Err(MetaManipulationBrokerError::RequestFailed),
            }
        })
    }

    fn commit_migration<'s>(
        &'s self,
        meta: MigrationTaskMeta,
    ) -> Pin<Box<dyn Future<Output = Result<(), MetaManipulationBrokerError>> + Send + 's>> {
        Box::pin(async move {
            match self.ctl.call(Wire::Commit(meta)).await {
                Some(WireReply::Unit) => Ok(()),
                Some(WireReply::Fail(k)) if k == "Retry" => Err(MetaManipulationBrokerError::Retry),
                Some(_) => Err(MetaManipulationBrokerError::InvalidReply),
                None => Err(MetaManipulationBrokerError::RequestFailed),
            }
        })
    }
}

/// records what the wrapped retriever yields (the order is an input of the model)
struct RecordingRetriever<R: ProxiesRetriever> {
    inner: R,
    ctl: Arc<Ctl>,
}

impl<R: ProxiesRetriever> ProxiesRetriever for RecordingRetriever<R> {
    fn retrieve_proxies<'s>(&'s self) -> Pin<Box<dyn Stream<Item = Result<String, CoordinateError>> + Send + 's>> {
        Box::pin(
            async move {
                let v: Vec<Result<String, CoordinateError>> = self.inner.retrieve_proxies().collect().await;
                let oks: Vec<String> = v.iter().filter_map(|r| r.as_ref().ok().cloned()).collect();
                if let Some(ctx) = self.ctl.lock().ctx.last_mut() {
                    ctx.targets = oks;
                }
                stream::iter(v)
            }
            .flatten_stream(),
        )
    }
}

struct RoundResult {
    trace: Vec<String>,
    targets: Vec<String>,
    choices: Vec<String>,
    nested_done: Vec<(usize, RoundSpec, Vec<String>, Vec<String>)>,
    issued: Vec<(String, String)>,
}

/// one round of the real coordinator components under the fault plan of `spec`
fn run_round0(ctl: Arc<Ctl>, spec: RoundSpec) -> BoxFuture<'static, RoundResult> {
    Box::pin(async move {
        ctl.lock().ctx.push(RoundCtx {
            n: 0,
            faults: spec.faults.clone(),
            nested: spec.nested.clone(),
            crashed: false,
            trace: vec![],
            targets: vec![],
            choices: vec![],
            nested_done: vec![],
            issued: vec![],
        });
        let db = Arc::new(Adapter { ctl: ctl.clone() });
        let fac = Arc::new(NetFactory { ctl: ctl.clone() });
        let compress = ctl.compress;
        let kind = spec.kind.clone();
        let reporter = spec.reporter.clone();
        let ctl2 = ctl.clone();
        let fut = async move {
            match kind.as_str() {
                "sync" => {
                    let retr = RecordingRetriever { inner: BrokerOrderedProxiesRetriever::new(db.clone()), ctl: ctl2.clone() };
                    let sync = ProxyMetaRespSynchronizer::new(retr, BrokerMetaRetriever::new(db.clone()), ProxyMetaRespSender::new(fac.clone(), compress));
                    let mut s = sync.run();
                    while let Some(_r) = s.next().await {}
                }
                "mig" => {
                    let sync = ParMigrationStateSynchronizer::new(
                        BrokerProxiesRetriever::new(db.clone()),
                        MigrationStateRespChecker::new(fac.clone()),
                        BrokerMigrationCommitter::new(db.clone()),
                        BrokerMetaRetriever::new(db.clone()),
                        ProxyMetaRespSender::new(fac.clone(), compress),
                    );
                    let mut s = sync.run();
                    while let Some(_r) = s.next().await {}
                }
                "detect" => {
                    let det = ParFailureDetector::new(
                        BrokerProxiesRetriever::new(db.clone()),
                        PingFailureDetector::new(fac.clone()),
                        BrokerFailureReporter::new(reporter, db.clone()),
                    );
                    let _ = det.run().await;
                }
                _ => {
                    let h = ParFailureHandler::new(BrokerProxyFailureRetriever::new(db.clone()), ReplaceNodeHandler::new(db.clone()));
                    let mut s = h.run();
                    while let Some(_r) = s.next().await {}
                }
            }
        };
        if AssertUnwindSafe(fut).catch_unwind().await.is_err() {
            let mut g = ctl.lock();
            g.oracle.panics.push(format!("coordinator component panicked in a {} round", spec.kind));
            if let Some(ctx) = g.ctx.last_mut() {
                ctx.trace.push("PANIC".to_string());
            }
        }
        let ctx = ctl.lock().ctx.pop().expect("ctx");
        RoundResult { trace: ctx.trace, targets: ctx.targets, choices: ctx.choices, nested_done: ctx.nested_done, issued: ctx.issued }
    })
}

// ---------------------------------------------------------------------------------------------
// the property's oracles (on the implementation's observables only)
// ---------------------------------------------------------------------------------------------
/// `sync_migration_state`: after `commit`, the destination is served before the source
fn check_dst_before_src(issued: &[(String, String)]) -> Option<String> {
    let mut i = 0;
    while i < issued.len() {
        let (call, reply) = &issued[i];
        if let Some(task) = call.strip_prefix("commit ") {
            if reply.starts_with("ok") {
                // cluster:ranges!K(epoch,sp,sn,dp,dn)
                let inner = task.rsplit('(').next().unwrap_or("").trim_end_matches(')');
                let f: Vec<&str> = inner.split(',').collect();
                if f.len() == 5 {
                    let (sp, dp) = (f[1], f[3]);
                    let mut dst_done = sp == dp;
                    let mut j = i + 1;
                    while j < issued.len() && !issued[j].0.starts_with("commit ") && !issued[j].0.starts_with("INFOMGR ") {
                        let (c, r) = &issued[j];
                        if c == &format!("get_proxy {}", dp) && r == "none" {
                            dst_done = true;
                        }
                        if c.starts_with(&format!("SETCLUSTER {} ", dp)) && (r == "OK" || r == "OLD_EPOCH") {
                            dst_done = true;
                        }
                        if !dst_done && sp != dp && (c == &format!("get_proxy {}", sp) || c.starts_with(&format!("SETCLUSTER {} ", sp)) || c.starts_with(&format!("SETREPL {} ", sp))) {
                            return Some(format!("source {} was served before destination {} after commit {}", sp, dp, task));
                        }
                        j += 1;
                    }
                }
            }
        }
        i += 1;
    }
    None
}

fn seen_of_slot_range(holder_is_node: bool, holder: &str, sr: &SlotRange) -> String {
    match sr.tag.get_migration_meta() {
        None => render_ranges(&sr.range_list),
        Some(m) => {
            let (is_src, is_dst) = if holder_is_node {
                (holder == m.src_node_address, holder == m.dst_node_address)
            } else {
                (holder == m.src_proxy_address, holder == m.dst_proxy_address)
            };
            let k = if is_src && !is_dst { "M" } else if is_dst && !is_src { "I" } else { "X" };
            format!(
                "{}!{}({},{},{},{},{})",
                render_ranges(&sr.range_list), k, m.epoch, m.src_proxy_address, m.src_node_address, m.dst_proxy_address, m.dst_node_address
            )
        }
    }
}

/// what a proxy holding exactly the broker's current view `p` must show (the property's own reading of
/// "same epoch, routing and replication roles"); everything before `|T=` of `ProxyProc::observe`
fn expected_state(p: &Proxy) -> String {
    use undermoon::common::cluster::Role;
    let mut local: BTreeMap<String, Vec<String>> = BTreeMap::new();
    for n in p.get_nodes() {
        if n.get_role() == Role::Master && !n.get_slots().is_empty() {
            local.insert(
                n.get_address().to_string(),
                n.get_slots().iter().map(|sr| seen_of_slot_range(true, n.get_address(), sr)).collect(),
            );
        }
    }
    let mut peers: BTreeMap<String, Vec<String>> = BTreeMap::new();
    for pp in p.get_peers() {
        if !pp.slots.is_empty() {
            peers.insert(pp.proxy_address.clone(), pp.slots.iter().map(|sr| seen_of_slot_range(false, &pp.proxy_address, sr)).collect());
        }
    }
    let fmt = |m: &BTreeMap<String, Vec<String>>| m.iter().map(|(k, v)| format!("{}{{{}}}", k, v.join(","))).collect::<Vec<_>>().join(";");
    let mut ms = vec![];
    let mut rs = vec![];
    for a in p.get_free_nodes() {
        ms.push(format!("M:/{}[]", a));
    }
    if let Some(c) = p.get_cluster_name() {
        for n in p.get_nodes() {
            let peers = n.get_repl_meta().get_peers().iter().map(|x| format!("{}@{}", x.node_address, x.proxy_address)).collect::<Vec<_>>().join(",");
            if n.get_role() == Role::Master {
                ms.push(format!("M:{}/{}[{}]", c, n.get_address(), peers));
            } else {
                rs.push(format!("R:{}/{}[{}]", c, n.get_address(), peers));
            }
        }
    }
    ms.sort();
    rs.sort();
    ms.extend(rs);
    format!(
        "{}|e={}|c={}|L={}|P={}|cfg={}|R={}",
        p.get_address(),
        p.get_epoch(),
        p.get_cluster_name().map(|c| c.to_string()).unwrap_or_default(),
        fmt(&local),
        fmt(&peers),
        render_cfg(&p.get_cluster_config_or_default()),
        ms.join(";")
    )
}

// ---------------------------------------------------------------------------------------------
// case driver
// ---------------------------------------------------------------------------------------------
struct NoRepl;
impl MetaReplicator for NoRepl {
    fn sync_meta<'s>(&'s self, _store: Arc<MetaStore>) -> Pin<Box<dyn Future<Output = Result<(), MetaSyncError>> + Send + 's>> {
        Box::pin(async { Ok(()) })
    }
}

fn new_service(limit: u64, quorum: u64) -> MemBrokerService {
    let config = MemBrokerConfig {
        address: "127.0.0.1:7799".to_string(),
        failure_ttl: 1_000_000,
        failure_quorum: quorum,
        migration_limit: limit,
        recover_from_meta_file: false,
        meta_filename: "/nonexistent/umh_coordinator.json".to_string(),
        auto_update_meta_file: false,
        update_meta_file_interval: None,
        replica_addresses: Arc::new(ArcSwap::new(Arc::new(vec![]))),
        sync_meta_interval: None,
        enable_ordered_proxy: false,
        storage: StorageConfig::Memory,
        debug: false,
    };
    MemBrokerService::new(
        config,
        ClusterConfig::default(),
        Arc::new(JsonFileStorage::new("/nonexistent/umh_coordinator.json".to_string())),
        Arc::new(NoRepl),
        None,
    )
    .expect("MemBrokerService::new")
}

struct World {
    s: Streams,
    rt: tokio::runtime::Runtime,
    ctl: Arc<Ctl>,
    case: u64,
    ops: Vec<String>,
    had_fault_effect: bool,
    had_commit: bool,
}

fn new_rt() -> tokio::runtime::Runtime {
    tokio::runtime::Builder::new_current_thread().enable_time().start_paused(true).build().expect("runtime")
}

fn new_ctl(limit: u64, quorum: u64, compress: bool) -> Arc<Ctl> {
    Arc::new(Ctl {
        svc: new_service(limit, quorum),
        compress,
        inner: Mutex::new(Inner {
            proxies: BTreeMap::new(),
            ctx: vec![],
            bag: vec![],
            gates: BTreeSet::new(),
            next_incarnation: 1,
            oracle: Oracle::default(),
        }),
    })
}

fn cluster_proxy_set(store: &MetaStore, name: &str) -> BTreeSet<String> {
    let cn = match ClusterName::try_from(name) {
        Ok(c) => c,
        Err(_) => return BTreeSet::new(),
    };
    store.clusters.get(&cn).map(|c| c.chunks.iter().flat_map(|ch| ch.proxy_addresses.iter().cloned()).collect()).unwrap_or_default()
}

fn new_chunks_choice(before: &BTreeSet<String>, store: &MetaStore, name: &str) -> String {
    let cn = match ClusterName::try_from(name) {
        Ok(c) => c,
        Err(_) => return "-".into(),
    };
    match store.clusters.get(&cn) {
        None => "-".into(),
        Some(c) => {
            let v: Vec<String> = c
                .chunks
                .iter()
                .filter(|ch| !before.contains(&ch.proxy_addresses[0]) && !before.contains(&ch.proxy_addresses[1]))
                .map(|ch| format!("{},{}", ch.proxy_addresses[0], ch.proxy_addresses[1]))
                .collect();
            if v.is_empty() { "-".into() } else { v.join(";") }
        }
    }
}

impl World {
    fn new(s: Streams) -> Self {
        World { s, rt: new_rt(), ctl: new_ctl(1, 1, false), case: 0, ops: vec![], had_fault_effect: false, had_commit: false }
    }

    fn emit(&mut self, op: String, obs: String) {
        self.ops.push(op.clone());
        self.s.op(&op, &obs);
    }

    fn new_case(&mut self, limit: u64, quorum: u64, compress: bool) {
        self.finish_case();
        // break the Arc cycles of the previous case and drop its background tasks
        self.ctl.lock().proxies.clear();
        self.rt = new_rt();
        self.ctl = new_ctl(limit, quorum, compress);
        self.case = self.s.case();
        self.ops.clear();
        self.had_fault_effect = false;
        self.had_commit = false;
        self.emit(format!("init {} {} {}", limit, quorum, if compress { 1 } else { 0 }), "ok".into());
        self.s.stats.count(&format!("gen.limit={}", limit));
        self.s.stats.count(&format!("gen.compress={}", compress));
    }

    fn finish_case(&mut self) {
        if self.case == 0 {
            return;
        }
        self.collect_oracle();
        if self.had_fault_effect && self.had_commit {
            let txt = self.ops.join("\n");
            self.s.stats.nontrivial_case(&txt);
        }
    }

    fn collect_oracle(&mut self) {
        let (fails, panics) = {
            let mut g = self.ctl.lock();
            (std::mem::take(&mut g.oracle.failures), std::mem::take(&mut g.oracle.panics))
        };
        for (what, finding) in fails {
            let c = self.case;
            let r = self.ops.clone();
            self.s.stats.count("oracle.failure");
            self.s.stats.oracle_failure(c, &what, &finding, r);
        }
        for p in panics {
            let c = self.case;
            let r = self.ops.clone();
            self.s.stats.count("oracle.panic");
            self.s.stats.oracle_failure(c, &format!("C07: {} (DESIGN §7 F6?)", p), "", r);
        }
    }

    fn fail(&mut self, what: String) {
        let c = self.case;
        let r = self.ops.clone();
        self.s.stats.count("oracle.failure");
        self.s.stats.oracle_failure(c, &what, "", r);
    }

    // ---- admin (through the real service) -----------------------------------------------------
    fn admin(&mut self, toks: &[&str]) {
        let ctl = self.ctl.clone();
        let toks_owned: Vec<String> = toks.iter().map(|s| s.to_string()).collect();
        let (op, obs) = self.rt.block_on(async move {
            let t: Vec<&str> = toks_owned.iter().map(|s| s.as_str()).collect();
            let svc = &ctl.svc;
            let before = ctl.store().await;
            let fin = |r: Result<String, MetaStoreError>, g: u64| match r {
                Ok(extra) => format!("OK{} g={}", extra, g),
                Err(e) => format!("ERR {} g={}", e.to_code(), g),
            };
            let (line, r): (String, Result<String, MetaStoreError>) = match t.as_slice() {
                ["add_proxy", a, n0, n1, h] => {
                    let host = if *h == "-" { Value::Null } else { json!(h) };
                    let payload = serde_json::from_value(json!({"proxy_address": a, "nodes": [n0, n1], "host": host, "index": null})).expect("payload");
                    (t.join(" "), svc.add_proxy(payload).await.map(|_| String::new()))
                }
                ["remove_proxy", a] => (t.join(" "), svc.remove_proxy(a.to_string()).await.map(|_| String::new())),
                ["add_cluster", n, k, _] => {
                    let existed = !cluster_proxy_set(&before, n).is_empty();
                    let r = svc.add_cluster(n.to_string(), k.parse().unwrap_or(0)).await;
                    let after = ctl.store().await;
                    let choice = if r.is_ok() && !existed { new_chunks_choice(&BTreeSet::new(), &after, n) } else { "-".into() };
                    (format!("add_cluster {} {} {}", n, k, choice), r.map(|_| String::new()))
                }
                ["remove_cluster", n] => (t.join(" "), svc.remove_cluster(n.to_string()).await.map(|_| String::new())),
                ["add_nodes", n, k, _] => {
                    let old = cluster_proxy_set(&before, n);
                    let r = svc.auto_add_nodes(n.to_string(), k.parse().unwrap_or(0)).await;
                    let after = ctl.store().await;
                    let choice = if r.is_ok() { new_chunks_choice(&old, &after, n) } else { "-".into() };
                    (format!("add_nodes {} {} {}", n, k, choice), r.map(|_| String::new()))
                }
                ["migrate", n] => (t.join(" "), svc.migrate_slots(n.to_string()).await.map(|_| String::new())),
                ["scale_down", n, k] => (t.join(" "), svc.migrate_slots_to_scale_down(n.to_string(), k.parse().unwrap_or(0)).await.map(|_| String::new())),
                ["del_free", n] => (t.join(" "), svc.auto_delete_free_nodes(n.to_string()).await.map(|_| String::new())),
                ["balance", n] => (t.join(" "), svc.balance_masters(n.to_string()).await.map(|_| String::new())),
                ["config", n, kv] => {
                    let mut m = HashMap::new();
                    if *kv != "-" {
                        for p in kv.split(',') {
                            let mut it = p.split('=');
                            if let (Some(k), Some(v)) = (it.next(), it.next()) {
                                m.insert(k.to_string(), v.to_string());
                            }
                        }
                    }
                    (t.join(" "), svc.change_config(n.to_string(), m).await.map(|_| String::new()))
                }
                _ => (t.join(" "), Ok(" bad-op".to_string())),
            };
            let g = svc.get_epoch().await.unwrap_or(0);
            (format!("admin {}", line), fin(r, g))
        });
        self.s.stats.count(&format!("op.admin.{}", toks[0]));
        self.emit(op, obs);
    }

    // ---- processes ----------------------------------------------------------------------------
    fn spawn(&mut self, addr: &str, host: &str, op: &str) {
        let ctl = self.ctl.clone();
        let (a, h) = (addr.to_string(), host.to_string());
        self.rt.block_on(async move {
            let inc = {
                let mut g = ctl.lock();
                g.next_incarnation += 1;
                g.next_incarnation
            };
            // dropping the old handler stops its background tasks
            let p = Arc::new(ProxyProc::new(Arc::downgrade(&ctl), &a, &h, inc));
            ctl.lock().proxies.insert(a.clone(), Proc::Up(p));
            tokio::task::yield_now().await;
        });
        self.s.stats.count(&format!("op.{}", op));
        if op == "spawn" {
            self.emit(format!("spawn {} {}", addr, host), "ok".into());
        } else {
            self.emit(format!("restart {}", addr), "ok".into());
        }
    }

    fn host_of(&self, addr: &str) -> Option<String> {
        match self.ctl.lock().proxies.get(addr) {
            Some(Proc::Up(p)) => Some(p.host.clone()),
            Some(Proc::Down(h)) => Some(h.clone()),
            None => None,
        }
    }

    fn restart(&mut self, addr: &str) {
        match self.host_of(addr) {
            Some(h) => self.spawn(addr, &h, "restart"),
            None => self.emit(format!("restart {}", addr), "ok".into()),
        }
    }

    fn kill(&mut self, addr: &str) {
        if let Some(h) = self.host_of(addr) {
            let ctl = self.ctl.clone();
            let a = addr.to_string();
            self.rt.block_on(async move {
                ctl.lock().proxies.insert(a, Proc::Down(h));
                tokio::task::yield_now().await;
            });
        }
        self.s.stats.count("op.kill");
        self.emit(format!("kill {}", addr), "ok".into());
    }

    fn up_addrs(&self) -> Vec<String> {
        self.ctl.lock().proxies.iter().filter(|(_, p)| matches!(p, Proc::Up(_))).map(|(a, _)| a.clone()).collect()
    }

    fn down_addrs(&self) -> Vec<String> {
        self.ctl.lock().proxies.iter().filter(|(_, p)| matches!(p, Proc::Down(_))).map(|(a, _)| a.clone()).collect()
    }

    /// unfinished migrating tasks of an up proxy, sorted by task text: (task text, destination proxy)
    fn unfinished_migrating(&self, addr: &str) -> Vec<(String, String)> {
        let ctl = self.ctl.clone();
        let a = addr.to_string();
        self.rt.block_on(async move {
            let p = match ctl.proc_of(&a) {
                Some(p) => p,
                None => return vec![],
            };
            let (_, text, tagged) = p.observe().await;
            let cluster = text.split("|c=").nth(1).and_then(|x| x.split('|').next()).unwrap_or("").to_string();
            let fin: BTreeSet<String> = p.finished().await.iter().map(render_task).collect();
            let mut v: Vec<(String, String)> = tagged
                .iter()
                .filter(|(_, s)| s.kind == "M")
                .map(|(_, s)| {
                    let t = format!("{}:{}", cluster, s.body);
                    let dp = s.body.rsplit('(').next().unwrap_or("").split(',').nth(3).unwrap_or("").to_string();
                    (t, dp)
                })
                .filter(|(t, _)| !fin.contains(t))
                .collect();
            v.sort();
            v.dedup();
            v
        })
    }

    fn finish(&mut self, src: &str, k: usize) -> bool {
        let tasks = self.unfinished_migrating(src);
        let op = format!("finish {} {}", src, k);
        self.s.stats.count("op.finish");
        let (task, dst) = match tasks.get(k) {
            Some(x) => x.clone(),
            None => {
                self.emit(op, "no-task".into());
                return false;
            }
        };
        let ctl = self.ctl.clone();
        let (src_s, task_s, dst_s) = (src.to_string(), task.clone(), dst.clone());
        let done = self.rt.block_on(async move {
            ctl.lock().gates.insert(task_s.clone());
            let twin = task_s.replacen("!M(", "!I(", 1);
            let mut done = false;
            for _ in 0..80 {
                tokio::time::sleep(Duration::from_millis(5)).await;
                let s_ok = match ctl.proc_of(&src_s) {
                    Some(p) => p.finished().await.iter().any(|t| render_task(t) == task_s),
                    None => false,
                };
                let d_ok = match ctl.proc_of(&dst_s) {
                    Some(p) => p.finished().await.iter().any(|t| render_task(t) == twin),
                    None => false,
                };
                if s_ok && d_ok {
                    done = true;
                    break;
                }
            }
            ctl.lock().gates.remove(&task_s);
            done
        });
        self.s.stats.count(if done { "out.finish.finished" } else { "out.finish.not-enabled" });
        self.emit(op, if done { format!("finished {}", task) } else { format!("not-enabled {}", task) });
        done
    }

    fn observe_all(&mut self) {
        let ctl = self.ctl.clone();
        let (ptxt, btxt) = self.rt.block_on(async move {
            let procs: Vec<(String, Option<Arc<ProxyProc>>)> = ctl
                .lock()
                .proxies
                .iter()
                .map(|(a, p)| (a.clone(), match p { Proc::Up(x) => Some(x.clone()), Proc::Down(_) => None }))
                .collect();
            let mut parts = vec![];
            for (a, p) in procs {
                match p {
                    Some(p) => parts.push(p.observe().await.1),
                    None => parts.push(format!("{}|down", a)),
                }
            }
            let s = ctl.store().await;
            (parts.join(" ## "), format!("{} {}", ctl.broker_digest().await, zeroed_store_text(s)))
        });
        self.emit("proxies".into(), ptxt);
        self.emit("broker".into(), btxt);
    }

    fn round(&mut self, spec: RoundSpec) {
        let ctl = self.ctl.clone();
        let spec2 = spec.clone();
        let commits_before: usize = self.ctl.lock().oracle.commits_ok.values().sum();
        let res = self.rt.block_on(async move { run_round0(ctl, spec2).await });
        let commits_after: usize = self.ctl.lock().oracle.commits_ok.values().sum();
        if commits_after > commits_before {
            self.had_commit = true;
        }
        let nested = if res.nested_done.is_empty() {
            "-".to_string()
        } else {
            res.nested_done
                .iter()
                .map(|(k, s, t, c)| format!("{}~{}~{}~{}~{}~{}", k, s.kind, s.reporter, render_faults(&s.faults), list_or_dash(t), list_or_dash(c)))
                .collect::<Vec<_>>()
                .join("|")
        };
        let op = format!(
            "round {} {} faults={} targets={} choices={} nested={}",
            spec.kind,
            spec.reporter,
            render_faults(&spec.faults),
            list_or_dash(&res.targets),
            list_or_dash(&res.choices),
            nested
        );
        self.s.stats.count(&format!("op.round.{}", spec.kind));
        self.emit(op, format!("calls {}", res.trace.len()));
        for (i, l) in res.trace.iter().enumerate() {
            for (pat, key) in [
                ("-> dropped", "fault.dropReq"), ("reply-dropped", "fault.dropRep"), (" dup ", "fault.dup"), ("-> delayed", "fault.delay"),
                (" crash ||", "fault.crash"), ("late ", "fault.late-delivery"), ("nested-begin", "fault.nested"),
                ("-> OLD_EPOCH", "out.OLD_EPOCH"), ("-> ok(MIGRATION_TASK_NOT_FOUND)", "out.commit.not-found-as-ok"),
                ("-> ERR_NOT_MY_META", "out.NOT_MY_META"), ("-> refused", "out.refused"), ("-> replaced:", "out.replaced"),
            ] {
                if l.contains(pat) {
                    self.s.stats.count(key);
                    if key.starts_with("fault.") {
                        self.had_fault_effect = true;
                    }
                }
            }
            if l.trim_start().split(' ').nth(1) == Some("commit") && l.contains("-> ok ||") {
                self.s.stats.count("out.commit.ok");
            }
            self.emit(format!("t {}", i), l.clone());
        }
        self.s.stats.add("calls", res.trace.len() as u64);
        if spec.kind == "mig" {
            if let Some(why) = check_dst_before_src(&res.issued) {
                self.fail(format!("C07: {}", why));
            }
        }
        self.observe_all();
        self.collect_oracle();
    }

    /// op tokens of a commit descriptor: `<cluster> <M|I> <epoch> <sp> <sn> <dp> <dn> <ranges>`
    fn task_tokens(t: &MigrationTaskMeta) -> String {
        let (k, m) = match &t.slot_range.tag {
            SlotRangeTag::Migrating(m) => ("M", m.clone()),
            SlotRangeTag::Importing(m) => ("I", m.clone()),
            SlotRangeTag::None => ("N", undermoon::common::cluster::MigrationMeta {
                epoch: 0, src_proxy_address: "-".into(), src_node_address: "-".into(), dst_proxy_address: "-".into(), dst_node_address: "-".into(),
            }),
        };
        format!(
            "{} {} {} {} {} {} {} {}",
            t.cluster_name, k, m.epoch, m.src_proxy_address, m.src_node_address, m.dst_proxy_address, m.dst_node_address,
            render_ranges(&t.slot_range.range_list)
        )
    }

    fn commit_log(&self) -> Vec<MigrationTaskMeta> {
        self.ctl.lock().oracle.commit_log.clone()
    }

    /// an earlier commit request of a coordinator reaches the broker (again) now: a retried HTTP request or a
    /// stalled second coordinator
    fn redeliver(&mut self, t: MigrationTaskMeta) {
        let ctl = self.ctl.clone();
        let t2 = t.clone();
        let res = self.rt.block_on(async move {
            ctl.lock().ctx.push(RoundCtx {
                n: 0, faults: BTreeMap::new(), nested: BTreeMap::new(), crashed: false, trace: vec![], targets: vec![], choices: vec![],
                nested_done: vec![], issued: vec![],
            });
            ctl.deliver("late", &Wire::Commit(t2)).await;
            ctl.lock().ctx.pop().expect("ctx")
        });
        self.s.stats.count("op.redeliver");
        let line = res.trace.first().cloned().unwrap_or_default();
        if line.contains("-> ok(") {
            self.s.stats.count("out.redeliver.refused");
        } else if line.contains("-> ok ||") {
            self.s.stats.count("out.redeliver.committed");
            self.had_commit = true;
        }
        self.had_fault_effect = true;
        self.emit(format!("redeliver {}", Self::task_tokens(&t)), line);
        self.observe_all();
        self.collect_oracle();
    }

    fn flush(&mut self) {
        let ctl = self.ctl.clone();
        let res = self.rt.block_on(async move {
            ctl.lock().ctx.push(RoundCtx {
                n: 0, faults: BTreeMap::new(), nested: BTreeMap::new(), crashed: false, trace: vec![], targets: vec![], choices: vec![],
                nested_done: vec![], issued: vec![],
            });
            {
                let mut g = ctl.lock();
                for e in g.bag.iter_mut() {
                    e.0 = 0;
                }
            }
            ctl.tick().await;
            ctl.lock().ctx.pop().expect("ctx")
        });
        self.s.stats.count("op.flush");
        self.emit(format!("flush choices={}", list_or_dash(&res.choices)), format!("calls {}", res.trace.len()));
        for (i, l) in res.trace.iter().enumerate() {
            self.emit(format!("t {}", i), l.clone());
        }
        self.observe_all();
        self.collect_oracle();
    }

    /// every registered, non-failed, running proxy holds exactly the broker's view and reports no
    /// finished task that the broker still has pending; `None` = converged
    fn converged(&self) -> Option<String> {
        let ctl = self.ctl.clone();
        self.rt.block_on(async move {
            let store = ctl.store().await;
            let pending = pending_text(&store);
            let pend: BTreeSet<&str> = pending.split(',').collect();
            let mut addrs: Vec<String> = store.all_proxies.keys().cloned().collect();
            addrs.sort();
            for a in addrs {
                if store.failed_proxies.contains(&a) {
                    continue;
                }
                let p = match ctl.proc_of(&a) {
                    Some(p) => p,
                    None => continue,
                };
                let want = match ctl.svc.get_proxy_by_address(&a).await {
                    Ok(Some(w)) => w,
                    _ => continue,
                };
                // a process whose announce host is not the host of its registered nodes refuses its own
                // metadata (NOT_MY_META): outside the property's premise
                if !a.starts_with(&format!("{}:", p.host)) {
                    continue;
                }
                let (_, text, _) = p.observe().await;
                // entries without slots are routing-irrelevant (they survive only under compression)
                let strip_empty = |t: &str| {
                    t.split('|')
                        .map(|f| {
                            if f.starts_with("L=") || f.starts_with("P=") {
                                let (k, v) = f.split_at(2);
                                format!("{}{}", k, v.split(';').filter(|e| !e.ends_with("{}")).collect::<Vec<_>>().join(";"))
                            } else {
                                f.to_string()
                            }
                        })
                        .collect::<Vec<_>>()
                        .join("|")
                };
                let got = strip_empty(text.split("|T=").next().unwrap_or(""));
                let exp = strip_empty(&expected_state(&want));
                if got != exp {
                    return Some(format!("proxy {} does not hold the broker's view: has [{}] wants [{}]", a, got, exp));
                }
                for t in p.finished().await {
                    let key = format!(
                        "{}:{}@{}",
                        t.cluster_name,
                        render_ranges(&t.slot_range.range_list),
                        t.slot_range.tag.get_migration_meta().map(|m| m.epoch).unwrap_or(0)
                    );
                    if pend.contains(key.as_str()) {
                        return Some(format!("proxy {} reports finished task {} that is still pending", a, key));
                    }
                }
            }
            None
        })
    }

    fn ff(kind: &str) -> RoundSpec {
        RoundSpec { kind: kind.to_string(), reporter: "c1".into(), faults: BTreeMap::new(), nested: BTreeMap::new() }
    }

    /// faults stop: processes come back, delayed calls arrive, then K fault-free rounds
    fn suffix(&mut self) {
        for a in self.down_addrs() {
            self.restart(&a);
        }
        self.flush();
        self.round(Self::ff("mig"));
        self.round(Self::ff("sync"));
        match self.converged() {
            None => self.s.stats.count("suffix.converged.K=2"),
            Some(why) => {
                let mut k = 2;
                let mut last = why.clone();
                while k < 8 {
                    self.round(Self::ff("mig"));
                    self.round(Self::ff("sync"));
                    k += 2;
                    match self.converged() {
                        None => break,
                        Some(w) => last = w,
                    }
                }
                self.s.stats.count(&format!("suffix.late.K={}", k));
                self.fail(format!("C07: not converged after the fault-free rounds (mig, sync): {} (took/stopped at K={}; last: {})", why, k, last));
            }
        }
    }
}

// ---------------------------------------------------------------------------------------------
// generators
// ---------------------------------------------------------------------------------------------
fn paddr(i: usize) -> String {
    format!("10.0.0.{}:7000", i)
}

fn gen_fault(rng: &mut Rng) -> Fault {
    match rng.below(10) {
        0 | 1 => Fault::DropReq,
        2 | 3 => Fault::DropRep,
        4 | 5 => Fault::Dup,
        6 => Fault::Delay(0),
        7 => Fault::Delay(rng.range(1, 12) as usize),
        _ => Fault::Crash,
    }
}

fn gen_plan(rng: &mut Rng, kind: &str, allow_nested: bool) -> RoundSpec {
    let span = match kind {
        "sync" => 40,
        "mig" => 36,
        "detect" => 30,
        _ => 4,
    };
    let mut faults = BTreeMap::new();
    let nf = match rng.below(10) {
        0 | 1 => 0,
        2..=5 => 1,
        6..=8 => 2,
        _ => 4,
    };
    for _ in 0..nf {
        faults.insert(rng.below(span) as usize, gen_fault(rng));
    }
    let mut nested = BTreeMap::new();
    if allow_nested && rng.chance(1, 4) {
        let k = rng.below(span) as usize;
        let nk = *rng.pick(&["sync", "mig", "mig", "sync", "detect", "failover"]);
        let mut n = gen_plan(rng, nk, false);
        n.reporter = "c2".into();
        nested.insert(k, n);
    }
    RoundSpec { kind: kind.to_string(), reporter: "c1".into(), faults, nested }
}

impl World {
    fn setup(&mut self, nproxies: usize, chunks: usize, bad_host: Option<usize>) {
        for i in 1..=nproxies {
            let a = paddr(i);
            let (n0, n1) = (format!("10.0.0.{}:6001", i), format!("10.0.0.{}:6002", i));
            self.admin(&["add_proxy", &a, &n0, &n1, "-"]);
            let host = if bad_host == Some(i) { format!("10.9.9.{}", i) } else { format!("10.0.0.{}", i) };
            self.spawn(&a, &host, "spawn");
        }
        let nodes = format!("{}", chunks * 4);
        self.admin(&["add_cluster", "c1", &nodes, "-"]);
    }

    fn cluster_members(&self) -> Vec<String> {
        let ctl = self.ctl.clone();
        let s = self.rt.block_on(async move { ctl.store().await });
        let mut v: Vec<String> = cluster_proxy_set(&s, "c1").into_iter().collect();
        v.sort();
        v
    }

    fn finish_some(&mut self, rng: &mut Rng, all: bool) {
        for a in self.up_addrs() {
            let n = self.unfinished_migrating(&a).len();
            for _ in 0..n {
                if all || rng.chance(2, 3) {
                    self.finish(&a, 0);
                }
            }
        }
    }

    fn pending_now(&self) -> usize {
        let ctl = self.ctl.clone();
        let s = self.rt.block_on(async move { ctl.store().await });
        let p = pending_text(&s);
        if p.is_empty() { 0 } else { p.split(',').count() }
    }

    /// run (finish, mig, sync) until nothing is pending any more (at most `max` times)
    fn drain_migration(&mut self, rng: &mut Rng, max: usize, faulty: bool) {
        for _ in 0..max {
            if self.pending_now() == 0 {
                break;
            }
            self.finish_some(rng, true);
            let plan = if faulty {
                // duplicated / long-delayed commit calls: they come back after later rounds
                let mut p = World::ff("mig");
                for _ in 0..3 {
                    let f = if rng.chance(1, 2) { Fault::Dup } else { Fault::Delay(rng.range(30, 400) as usize) };
                    p.faults.insert(rng.below(30) as usize, f);
                }
                p
            } else {
                World::ff("mig")
            };
            self.round(plan);
            self.round(World::ff("sync"));
        }
    }

    /// the same slot ranges migrate again later (scale out, commit, scale back, ...) while earlier commit
    /// requests are re-delivered: a stale descriptor must never commit the later migration
    fn reverse_history(&mut self, rng: &mut Rng) {
        let limit = *rng.pick(&[0u64, 2, 3, 4]);
        self.new_case(limit, 1, rng.chance(1, 3));
        self.s.stats.count("gen.class.reverse-migration");
        self.setup(rng.range(5, 7) as usize, 1, None);
        self.round(World::ff("sync"));
        let legs = rng.range(2, 3);
        let mut scaled_out = false;
        for leg in 0..legs {
            if !scaled_out {
                if leg > 0 {
                    self.admin(&["del_free", "c1"]);
                }
                self.admin(&["add_nodes", "c1", "4", "-"]);
                self.admin(&["migrate", "c1"]);
            } else {
                self.admin(&["scale_down", "c1", "4"]);
            }
            scaled_out = !scaled_out;
            self.round(World::ff("sync"));
            // stale requests of the earlier legs arrive while this leg's migrations are running
            let log = self.commit_log();
            for t in log.iter() {
                if rng.chance(2, 3) {
                    self.redeliver(t.clone());
                }
            }
            if rng.chance(1, 2) {
                self.flush();
            }
            if leg + 1 < legs || rng.chance(1, 2) {
                let faulty = rng.chance(1, 2);
                self.drain_migration(rng, 5, faulty);
            } else if rng.chance(1, 2) {
                self.finish_some(rng, false);
                self.round(gen_plan(rng, "mig", true));
            }
        }
        let log = self.commit_log();
        for t in log.iter() {
            if rng.chance(1, 3) {
                self.redeliver(t.clone());
            }
        }
        self.suffix();
    }

    fn random_case(&mut self, rng: &mut Rng) {
        if rng.chance(1, 6) {
            return self.reverse_history(rng);
        }
        let limit = *rng.pick(&[1u64, 2, 2, 3]);
        let quorum = *rng.pick(&[1u64, 1, 2]);
        self.new_case(limit, quorum, rng.chance(1, 3));
        let class = *rng.pick(&["steady", "scale-out", "scale-out", "failover", "scale-down", "restart", "mixed", "mixed"]);
        self.s.stats.count(&format!("gen.class.{}", class));
        let nprox = rng.range(6, 9) as usize;
        let chunks = if class == "scale-down" { 3 } else { 2 };
        let bad = if rng.chance(1, 12) { Some(rng.range(1, nprox as i64) as usize) } else { None };
        if bad.is_some() {
            self.s.stats.count("gen.misconfigured-host");
        }
        self.setup(nprox, chunks, bad);
        self.round(if rng.chance(1, 2) { World::ff("sync") } else { gen_plan(rng, "sync", true) });
        let mut rounds = 1;
        let mut migrating = false;
        if rng.chance(2, 3) {
            if matches!(class, "scale-out" | "mixed") {
                self.admin(&["add_nodes", "c1", "4", "-"]);
                self.admin(&["migrate", "c1"]);
                migrating = true;
            } else if class == "scale-down" {
                self.admin(&["scale_down", "c1", "8"]);
                migrating = true;
            }
        }
        let max_rounds = 4;
        let mut steps = 0;
        while rounds < max_rounds && steps < 14 {
            steps += 1;
            match rng.below(12) {
                0 | 1 if !migrating && matches!(class, "scale-out" | "mixed") => {
                    self.admin(&["add_nodes", "c1", "4", "-"]);
                    self.admin(&["migrate", "c1"]);
                    migrating = true;
                }
                0 | 1 if !migrating && class == "scale-down" => {
                    self.admin(&["scale_down", "c1", "8"]);
                    migrating = true;
                }
                2 if matches!(class, "failover" | "mixed" | "restart") => {
                    let ups = self.up_addrs();
                    if !ups.is_empty() {
                        let a = rng.pick(&ups).clone();
                        if class == "restart" || rng.chance(1, 2) { self.restart(&a) } else { self.kill(&a) }
                    }
                }
                3 if class == "failover" => {
                    let m = self.cluster_members();
                    if !m.is_empty() {
                        let a = rng.pick(&m).clone();
                        self.kill(&a);
                    }
                }
                4 | 5 => self.finish_some(rng, false),
                7 if !self.commit_log().is_empty() => {
                    let log = self.commit_log();
                    let t = rng.pick(&log).clone();
                    self.redeliver(t);
                }
                6 if rng.chance(1, 3) => {
                    let d = self.down_addrs();
                    if !d.is_empty() {
                        let a = rng.pick(&d).clone();
                        self.restart(&a);
                    }
                }
                _ => {
                    let kind = match class {
                        "failover" => *rng.pick(&["detect", "failover", "sync", "detect", "failover", "mig"]),
                        "steady" | "restart" => *rng.pick(&["sync", "sync", "mig", "detect"]),
                        _ => *rng.pick(&["sync", "mig", "mig", "sync", "detect", "failover"]),
                    };
                    self.round(gen_plan(rng, kind, true));
                    rounds += 1;
                    if migrating && rng.chance(2, 3) {
                        let all = rng.chance(1, 2);
                        self.finish_some(rng, all);
                    }
                }
            }
        }
        if migrating && rng.chance(1, 2) {
            self.finish_some(rng, true);
        }
        self.suffix();
    }

    /// the scale-out history of the thorough tier with one (or two) faults at fixed positions;
    /// `which` = index of the faulted round among the history's rounds; returns the call counts
    fn scaleout_history(&mut self, limit: u64, plans: &BTreeMap<usize, RoundSpec>, long: bool) -> Vec<usize> {
        self.new_case(limit, 1, false);
        self.s.stats.count("gen.class.enumerated-scale-out");
        self.setup(7, 2, None);
        let mut idx = 0;
        let mut counts = vec![];
        let mut do_round = |w: &mut World, kind: &str| {
            let spec = plans.get(&idx).cloned().unwrap_or_else(|| World::ff(kind));
            let before = w.s.stats.counters.get("calls").cloned().unwrap_or(0);
            w.round(RoundSpec { kind: kind.to_string(), ..spec });
            counts.push((w.s.stats.counters.get("calls").cloned().unwrap_or(0) - before) as usize);
            idx += 1;
        };
        do_round(self, "sync");
        self.admin(&["add_nodes", "c1", "4", "-"]);
        self.admin(&["migrate", "c1"]);
        do_round(self, "sync");
        let mut rng = Rng::new(1);
        self.finish_some(&mut rng, true);
        do_round(self, "mig");
        do_round(self, "sync");
        if long {
            self.finish_some(&mut rng, true);
            do_round(self, "mig");
            do_round(self, "sync");
        }
        self.suffix();
        counts
    }

    fn failover_history(&mut self, plans: &BTreeMap<usize, RoundSpec>) -> Vec<usize> {
        self.new_case(2, 1, false);
        self.s.stats.count("gen.class.enumerated-failover");
        self.setup(7, 2, None);
        let mut idx = 0;
        let mut counts = vec![];
        let mut do_round = |w: &mut World, kind: &str| {
            let spec = plans.get(&idx).cloned().unwrap_or_else(|| World::ff(kind));
            let before = w.s.stats.counters.get("calls").cloned().unwrap_or(0);
            w.round(RoundSpec { kind: kind.to_string(), ..spec });
            counts.push((w.s.stats.counters.get("calls").cloned().unwrap_or(0) - before) as usize);
            idx += 1;
        };
        do_round(self, "sync");
        let m = self.cluster_members();
        if let Some(a) = m.first() {
            let a = a.clone();
            self.kill(&a);
        }
        do_round(self, "detect");
        do_round(self, "failover");
        do_round(self, "sync");
        self.suffix();
        counts
    }
}

fn single(kind: &str, k: usize, f: Fault) -> RoundSpec {
    let mut faults = BTreeMap::new();
    faults.insert(k, f);
    RoundSpec { kind: kind.to_string(), reporter: "c1".into(), faults, nested: BTreeMap::new() }
}

fn nested_at(kind: &str, k: usize, inner: RoundSpec) -> RoundSpec {
    let mut nested = BTreeMap::new();
    nested.insert(k, inner);
    RoundSpec { kind: kind.to_string(), reporter: "c1".into(), faults: BTreeMap::new(), nested }
}

fn thorough(w: &mut World, rng: &mut Rng) {
    // every single fault and every crash point of the 2-chunk -> 3-chunk scale-out history
    let base = w.scaleout_history(2, &BTreeMap::new(), true);
    let kinds = ["sync", "sync", "mig", "sync", "mig", "sync"];
    for (ri, n) in base.iter().enumerate() {
        if ri == 0 {
            continue;
        }
        let long = ri >= 4;
        for k in 0..(*n + 1) {
            if long && k % 3 != 0 {
                continue;
            }
            let faults: Vec<Fault> = if long {
                vec![Fault::DropRep, Fault::Crash]
            } else {
                vec![Fault::DropReq, Fault::DropRep, Fault::Dup, Fault::Delay(3), Fault::Crash]
            };
            for f in faults {
                let mut plans = BTreeMap::new();
                plans.insert(ri, single(kinds[ri], k, f));
                w.scaleout_history(2, &plans, long);
            }
            if !long && k % 4 == 0 {
                let mut plans = BTreeMap::new();
                let inner = World::ff(if kinds[ri] == "sync" { "mig" } else { "sync" });
                plans.insert(ri, nested_at(kinds[ri], k, RoundSpec { reporter: "c2".into(), ..inner }));
                w.scaleout_history(2, &plans, false);
            }
        }
    }
    // sampled pairs of faults (two rounds, or the same round)
    for _ in 0..150 {
        let mut plans = BTreeMap::new();
        for _ in 0..2 {
            let ri = rng.range(1, 3) as usize;
            let k = rng.below(base[ri] as u64 + 1) as usize;
            let e = plans.entry(ri).or_insert_with(|| World::ff(kinds[ri]));
            e.faults.insert(k, gen_fault(rng));
        }
        let limit = *rng.pick(&[1u64, 2, 3]);
        w.scaleout_history(limit, &plans, rng.chance(1, 4));
    }
    // every single fault of the detect / failover rounds of a failover history
    let base = w.failover_history(&BTreeMap::new());
    let kinds = ["sync", "detect", "failover", "sync"];
    for (ri, n) in base.iter().enumerate() {
        if ri == 0 {
            continue;
        }
        for k in 0..(*n + 1) {
            for f in [Fault::DropReq, Fault::DropRep, Fault::Dup, Fault::Delay(2), Fault::Crash] {
                let mut plans = BTreeMap::new();
                plans.insert(ri, single(kinds[ri], k, f));
                w.failover_history(&plans);
            }
        }
    }
    for _ in 0..80 {
        w.reverse_history(rng);
    }
    for _ in 0..300 {
        w.random_case(rng);
    }
}

// ---------------------------------------------------------------------------------------------
// replay
// ---------------------------------------------------------------------------------------------
fn strip<'a>(key: &str, s: &'a str) -> &'a str {
    s.strip_prefix(&format!("{}=", key)).unwrap_or("-")
}

fn parse_nested(s: &str) -> BTreeMap<usize, RoundSpec> {
    let mut m = BTreeMap::new();
    if s == "-" || s.is_empty() {
        return m;
    }
    for e in s.split('|') {
        let f: Vec<&str> = e.split('~').collect();
        if f.len() == 6 {
            if let Ok(k) = f[0].parse() {
                m.insert(k, RoundSpec { kind: f[1].into(), reporter: f[2].into(), faults: parse_faults(f[3]), nested: BTreeMap::new() });
            }
        }
    }
    m
}

fn replay(w: &mut World, lines: &[String]) {
    for l in lines {
        if l.starts_with('#') {
            continue;
        }
        let t: Vec<&str> = l.split(' ').collect();
        match t.as_slice() {
            ["case", _] => {}
            ["init", a, b, c] => w.new_case(a.parse().unwrap_or(1), b.parse().unwrap_or(1), *c == "1"),
            ["admin", rest @ ..] => w.admin(rest),
            ["spawn", a, h] => w.spawn(a, h, "spawn"),
            ["kill", a] => w.kill(a),
            ["restart", a] => w.restart(a),
            ["finish", a, k] => {
                w.finish(a, k.parse().unwrap_or(0));
            }
            ["round", kind, rep, fs, _ts, _cs, ns] => w.round(RoundSpec {
                kind: kind.to_string(),
                reporter: rep.to_string(),
                faults: parse_faults(strip("faults", fs)),
                nested: parse_nested(strip("nested", ns)),
            }),
            ["flush", ..] => w.flush(),
            ["redeliver", cluster, k, epoch, sp, sn, dp, dn, ranges] => {
                let meta = undermoon::common::cluster::MigrationMeta {
                    epoch: epoch.parse().unwrap_or(0),
                    src_proxy_address: sp.to_string(),
                    src_node_address: sn.to_string(),
                    dst_proxy_address: dp.to_string(),
                    dst_node_address: dn.to_string(),
                };
                let tag = match *k {
                    "M" => SlotRangeTag::Migrating(meta),
                    "I" => SlotRangeTag::Importing(meta),
                    _ => SlotRangeTag::None,
                };
                let rl: Vec<undermoon::common::cluster::Range> = if *ranges == "e" {
                    vec![]
                } else {
                    ranges
                        .split('+')
                        .filter_map(|r| {
                            let mut it = r.split('-');
                            Some(undermoon::common::cluster::Range(it.next()?.parse().ok()?, it.next()?.parse().ok()?))
                        })
                        .collect()
                };
                if let Ok(cn) = ClusterName::try_from(*cluster) {
                    w.redeliver(MigrationTaskMeta {
                        cluster_name: cn,
                        slot_range: SlotRange { range_list: undermoon::common::cluster::RangeList::new(rl), tag },
                    });
                }
            }
            ["converged"] => {
                if let Some(why) = w.converged() {
                    w.fail(format!("C07: not converged: {}", why));
                }
            }
            _ => {} // observation lines (`t i`, `proxies`, `broker`) are regenerated
        }
    }
}

fn main() {
    let args = parse_args();
    let mut rng = Rng::new(args.seed);
    let s = Streams::new(&args);
    let mut w = World::new(s);
    if let Some(p) = &args.replay {
        let lines = read_lines(p);
        replay(&mut w, &lines);
    } else if args.thorough {
        thorough(&mut w, &mut rng);
    } else {
        for _ in 0..150 {
            w.random_case(&mut rng);
        }
    }
    w.finish_case();
    w.ctl.lock().proxies.clear();
    let World { s, .. } = w;
    s.finish(
        "umh_coordinator",
        "a case in which an injected fault took effect (a dropped/duplicated/delayed call, a crash or a nested round) and a migration task was committed",
    );
}
