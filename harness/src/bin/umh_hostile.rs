//! C16: hostile client input against the real code.
//!
//!   umh_hostile --mode inproc ...   drives the real `parse_resp`, `RespCodec::decode`,
//!       `SlowRequestLogger::add`, `Command::new`, `ClusterName::try_from`, `str::parse::<usize>`
//!       in this process inside `catch_unwind`, with a counting global allocator that measures the
//!       bytes really requested by `parse_resp` (only inputs whose declared lengths are < 10^6:
//!       an allocation failure aborts and cannot be caught);
//!   umh_hostile --mode child ...    builds and spawns the real `server_proxy` binary of /repo's
//!       working tree (address space limited with `ulimit -v`), sends every hostile input on a
//!       fresh loopback connection, before and after `UMCTL SETCLUSTER`, and records exit status,
//!       peak RSS, wall time per request and whether other connections are still served.
//!
//! Op lines (see lean/UmDriver/Hostile.lean):
//!   cfg es=<n> ar=<0|1> rlimit=<bytes> spin=<iters> stack=<levels>
//!   phase pre|post|slow
//!   parse <hex> | decode <hex> | slowlog <arg>.. | name <hex> | clustername <hex> | usize <hex> | utf8 <hex>
//!   conn <hex> [k:tail]        tail = d(rained) | p(ending) | i(nvalid); the hint is only needed for
//!                              inputs that cannot be segmented in-process (declared lengths >= 10^6)
//!
//! All findings of this property (F4, F5, F16a–F16e) are fixed in /repo; their inputs stay in the generators
//! and in corpus/C16 as regression cases and any failure is a plain violation.
//!
//! Oracle (the property on the implementation's observables, independent of the Lean model): the
//! child must not exit, every connection must be answered, closed, or be waiting for the rest of a
//! truncated packet within 5 s, no session task may panic (child stderr), peak RSS must stay below
//! `base + 64·bytes_sent + 64 MiB`; in-process: no panic, and the bytes requested by one
//! `parse_resp` call must stay below `4128·(len + 1)` (= `size_of::<RespIndex>() · (MAX_NESTING + 1)` per byte).
use bytes::BytesMut;
use serde_json::json;
use std::alloc::{GlobalAlloc, Layout, System};
use std::cell::Cell;
use std::collections::HashMap;
use std::convert::TryFrom;
use std::io::{Read, Write};
use std::net::{TcpListener, TcpStream};
use std::num::NonZeroUsize;
use std::panic::{catch_unwind, AssertUnwindSafe};
use std::process::{Child, Command as Proc, Stdio};
use std::sync::atomic::{AtomicI64, AtomicU64};
use std::sync::Arc;
use std::time::{Duration, Instant};
use tokio_util::codec::Decoder;
use umharness::util::*;
use undermoon::common::batch::BatchStrategy;
use undermoon::common::cluster::{ClusterName, MigrationMeta, Range, RangeList, RangeMap, SlotRange, SlotRangeTag};
use undermoon::common::config::ClusterConfig;
use undermoon::common::proto::{ClusterMapFlags, ProxyClusterMeta};
use undermoon::common::utils::{generate_lock_slot, generate_slot, get_hash_tag, SLOT_NUM};
use undermoon::protocol::verif_export::stateless::{parse_resp, ParseError};
use undermoon::protocol::{
    new_simple_packet_codec, Array, BulkStr, Functor, Resp, RespCodec, RespIndex, RespPacket,
};
use undermoon::migration::task::parse_switch_command;
use undermoon::proxy::command::Command;
use undermoon::replication::replicator::ReplicatorMeta;
use undermoon::proxy::service::{ClusterNodesVersion, ServerProxyConfig};
use undermoon::proxy::slowlog::{SlowRequestLogger, Slowlog};

// ------------------------------------------------------------------------------------------
// counting allocator: bytes requested on this thread while a measurement is active
// ------------------------------------------------------------------------------------------

thread_local! {
    static COUNTING: Cell<bool> = const { Cell::new(false) };
    static REQUESTED: Cell<u64> = const { Cell::new(0) };
}

struct CountingAlloc;

fn note(n: usize) {
    let _ = COUNTING.try_with(|c| {
        if c.get() {
            let _ = REQUESTED.try_with(|r| r.set(r.get() + n as u64));
        }
    });
}

unsafe impl GlobalAlloc for CountingAlloc {
    unsafe fn alloc(&self, l: Layout) -> *mut u8 {
        note(l.size());
        System.alloc(l)
    }
    unsafe fn alloc_zeroed(&self, l: Layout) -> *mut u8 {
        note(l.size());
        System.alloc_zeroed(l)
    }
    unsafe fn dealloc(&self, p: *mut u8, l: Layout) {
        System.dealloc(p, l)
    }
    unsafe fn realloc(&self, p: *mut u8, l: Layout, new_size: usize) -> *mut u8 {
        if new_size > l.size() {
            note(new_size - l.size());
        }
        System.realloc(p, l, new_size)
    }
}

#[global_allocator]
static ALLOC: CountingAlloc = CountingAlloc;

fn measured<T>(f: impl FnOnce() -> T) -> (T, u64) {
    REQUESTED.with(|r| r.set(0));
    COUNTING.with(|c| c.set(true));
    let t = f();
    COUNTING.with(|c| c.set(false));
    (t, REQUESTED.with(|r| r.get()))
}

// ------------------------------------------------------------------------------------------
// small helpers
// ------------------------------------------------------------------------------------------

/// All findings of C16 (F4, F5, F16a–F16e) are fixed in /repo: no oracle failure is tagged with a known
/// finding any more.  `regression_of` is the id of the fixed finding whose predicate the input matches (or
/// ""): it only goes into the text, the failure is a plain violation.  `Stats` keeps the first 50 oracle
/// failures: repeats of the same regression are counted after the fifth so that they cannot crowd out others.
fn report_failure(stats: &mut Stats, case: u64, what: &str, regression_of: &str, replay: Vec<String>) {
    if regression_of.is_empty() {
        stats.count("oracle-failures.other");
        stats.oracle_failure(case, what, "", replay);
        return;
    }
    let key = format!("oracle-failures.regression-{}", regression_of);
    stats.count(&key);
    if stats.counters.get(&key).copied().unwrap_or(0) > 5 {
        return;
    }
    stats.oracle_failure(case, &format!("{} (regression of fixed finding {})", what, regression_of), "", replay);
}

const SPIN: u64 = 100_000_000_000;
const STACK_LEVELS: u64 = 11_000;
/// in-process allocation oracle: `size_of::<RespIndex>() · (MAX_NESTING + 1)` bytes per input byte, the
/// constant of theorem `C16_alloc` (MAX_NESTING = 128)
const ALLOC_PER_BYTE: u64 = 32 * 129;
const RLIMIT_BYTES: u64 = 2 << 30;

fn fnv_str(h: u64, s: &str) -> u64 {
    let mut h = h;
    for b in s.as_bytes() {
        h ^= *b as u64;
        h = h.wrapping_mul(0x100000001b3);
    }
    h
}

/// pre-order token hash of the index tree (mirrors `hashIdx` of the Lean driver)
fn shape_hash(h: u64, v: &RespIndex, nodes: &mut u64) -> u64 {
    *nodes += 1;
    match v {
        Resp::Error(d) => fnv_str(h, &format!("E{},{};", d.0, d.1)),
        Resp::Simple(d) => fnv_str(h, &format!("S{},{};", d.0, d.1)),
        Resp::Bulk(BulkStr::Str(d)) => fnv_str(h, &format!("B{},{};", d.0, d.1)),
        Resp::Bulk(BulkStr::Nil) => fnv_str(h, "N;"),
        Resp::Integer(d) => fnv_str(h, &format!("I{},{};", d.0, d.1)),
        Resp::Arr(Array::Nil) => fnv_str(h, "Z;"),
        Resp::Arr(Array::Arr(l)) => {
            let mut h = fnv_str(h, &format!("A{};", l.len()));
            for e in l {
                h = shape_hash(h, e, nodes);
            }
            h
        }
    }
}

fn cmd_bytes(args: &[Vec<u8>]) -> Vec<u8> {
    let mut o = format!("*{}\r\n", args.len()).into_bytes();
    for a in args {
        o.extend_from_slice(format!("${}\r\n", a.len()).as_bytes());
        o.extend_from_slice(a);
        o.extend_from_slice(b"\r\n");
    }
    o
}

fn s(x: &str) -> Vec<u8> {
    x.as_bytes().to_vec()
}

/// number of `*` bytes: a cheap upper bound of the nesting depth
fn star_count(b: &[u8]) -> usize {
    b.iter().filter(|x| **x == b'*').count()
}

/// may the real parser run on these bytes inside this process?  No array header (anything that
/// looks like one) declares more than 10^6 elements and the nesting stays far from the stack limit.
fn inproc_safe(b: &[u8]) -> bool {
    inproc_safe_for_packets(b)
}

// ------------------------------------------------------------------------------------------
// in-process operations on the real code
// ------------------------------------------------------------------------------------------

fn op_parse(b: &[u8]) -> (String, u64) {
    let (r, alloc) = measured(|| catch_unwind(AssertUnwindSafe(|| parse_resp(b))));
    match r {
        Err(_) => ("PANIC".to_string(), alloc),
        Ok(Ok((v, n))) => {
            let mut nodes = 0;
            let h = shape_hash(0xcbf29ce484222325, &v, &mut nodes);
            (format!("ok {} alloc={} nodes={} h={:016x}", n, alloc, nodes, h), alloc)
        }
        Ok(Err(ParseError::NotEnoughData)) => (format!("incomplete alloc={}", alloc), alloc),
        Ok(Err(_)) => (format!("invalid alloc={}", alloc), alloc),
    }
}

/// (items, end, rest): `RespCodec::decode` until it stops
fn segment(b: &[u8]) -> (usize, &'static str, usize) {
    let (enc, dec) = new_simple_packet_codec::<Box<RespPacket>, Box<RespPacket>>();
    let mut codec = RespCodec::new(enc, dec);
    let mut buf = BytesMut::from(b);
    let mut items = 0;
    loop {
        let r = catch_unwind(AssertUnwindSafe(|| codec.decode(&mut buf)));
        match r {
            Err(_) => return (items, "PANIC", buf.len()),
            Ok(Ok(Some(_))) => items += 1,
            Ok(Ok(None)) => return (items, if buf.is_empty() { "drained" } else { "pending" }, buf.len()),
            Ok(Err(_)) => return (items, "closed", buf.len()),
        }
    }
}

fn slowlog_config() -> ServerProxyConfig {
    ServerProxyConfig {
        address: "127.0.0.1:5299".to_string(),
        announce_address: "127.0.0.1:5299".to_string(),
        announce_host: "127.0.0.1".to_string(),
        slowlog_len: NonZeroUsize::new(8).expect("nz"),
        slowlog_log_slower_than: AtomicI64::new(-1),
        slowlog_sample_rate: AtomicU64::new(1),
        thread_number: NonZeroUsize::new(1).expect("nz"),
        backend_conn_num: NonZeroUsize::new(1).expect("nz"),
        active_redirection: false,
        max_redirections: None,
        default_redirection_address: None,
        backend_batch_strategy: BatchStrategy::Disabled,
        backend_flush_size: NonZeroUsize::new(1024).expect("nz"),
        backend_low_flush_interval: Duration::from_nanos(200_000),
        backend_high_flush_interval: Duration::from_nanos(800_000),
        session_timeout: None,
        backend_timeout: Duration::from_secs(3),
        password: None,
        command_cluster_nodes_version: ClusterNodesVersion::V2,
    }
}

fn packet_of(args: &[Option<Vec<u8>>]) -> Vec<u8> {
    let mut o = format!("*{}\r\n", args.len()).into_bytes();
    for a in args {
        match a {
            Some(a) => {
                o.extend_from_slice(format!("${}\r\n", a.len()).as_bytes());
                o.extend_from_slice(a);
                o.extend_from_slice(b"\r\n");
            }
            None => o.extend_from_slice(b"$-1\r\n"),
        }
    }
    o
}

fn decode_one(b: &[u8]) -> Option<Box<RespPacket>> {
    let (enc, dec) = new_simple_packet_codec::<Box<RespPacket>, Box<RespPacket>>();
    let mut codec = RespCodec::new(enc, dec);
    let mut buf = BytesMut::from(b);
    codec.decode(&mut buf).ok().flatten()
}

/// `SlowRequestLogger::add` on the request as the session holds it (an indexed packet)
fn op_slowlog(args: &[Option<Vec<u8>>]) -> &'static str {
    let pkt = match decode_one(&packet_of(args)) {
        Some(p) => p,
        None => return "bad-op",
    };
    let logger = SlowRequestLogger::new(Arc::new(slowlog_config()));
    let r = catch_unwind(AssertUnwindSafe(|| logger.add(pkt, Slowlog::new(1, true))));
    if r.is_ok() { "ok" } else { "PANIC" }
}

fn op_name(name: &[u8]) -> String {
    let pkt = match decode_one(&cmd_bytes(&[name.to_vec()])) {
        Some(p) => p,
        None => return "bad-op".to_string(),
    };
    let r = catch_unwind(AssertUnwindSafe(|| {
        let c = Command::new(pkt);
        format!("{:?} {:?}", c.get_type(), c.get_data_cmd_type())
    }));
    r.unwrap_or_else(|_| "PANIC".to_string())
}

/// the first packet of `b` through `Command::new` (type tables, routing key, slot), as the session does for every request
fn op_command(b: &[u8]) -> String {
    let pkt = match catch_unwind(AssertUnwindSafe(|| decode_one(b))) { Ok(Some(p)) => p, Ok(None) => return "none".to_string(), Err(_) => return "PANIC".to_string() };
    let r = catch_unwind(AssertUnwindSafe(|| {
        let c = Command::new(pkt);
        format!("{:?} {:?} slot={}", c.get_type(), c.get_data_cmd_type(), c.get_slot().map(|x| x.to_string()).unwrap_or_else(|| "-".to_string()))
    }));
    r.unwrap_or_else(|_| "PANIC".to_string())
}

fn op_clustername(b: &[u8]) -> &'static str {
    match std::str::from_utf8(b) {
        Err(_) => "nonutf8",
        Ok(t) => match catch_unwind(|| ClusterName::try_from(t).is_ok()) {
            Ok(true) => "ok",
            Ok(false) => "err",
            Err(_) => "PANIC",
        },
    }
}

fn op_usize(b: &[u8]) -> String {
    match std::str::from_utf8(b) {
        Err(_) => "nonutf8".to_string(),
        // what handle_umforward does with the redirection count
        Ok(t) => match t.to_uppercase().as_str().parse::<usize>() {
            Ok(n) => format!("some {}", n),
            Err(_) => "none".to_string(),
        },
    }
}

fn op_hashtag(k: &[u8]) -> String {
    match catch_unwind(|| (get_hash_tag(k).to_vec(), generate_slot(k), generate_lock_slot(k))) {
        Ok((t, sl, lk)) => format!("tag={} slot={} lock={}", hex(&t), sl, lk),
        Err(_) => "PANIC".to_string(),
    }
}

/// the arms of `ServerProxyConfig::set_value`, read from the source so that a new field is picked up
fn config_fields() -> Vec<String> {
    let t = std::fs::read_to_string("/repo/src/proxy/service.rs").unwrap_or_default();
    let body = t.split("pub fn set_value").nth(1).unwrap_or("");
    let body = body.split("\n    }\n").next().unwrap_or("");
    let mut out = vec![];
    for l in body.lines() {
        let l = l.trim();
        if l.starts_with('"') { if let Some(name) = l[1..].split('"').next() { out.push(name.to_string()); } }
    }
    out
}

/// `CONFIG SET field value` as the executor does it, then the rate limiter as the next requests consult it
fn op_cfgset(field: &[u8], value: &[u8]) -> String {
    let (f, v) = match (std::str::from_utf8(field), std::str::from_utf8(value)) { (Ok(f), Ok(v)) => (f, v), _ => return "nonutf8".to_string() };
    let cfg = Arc::new(slowlog_config());
    cfg.set_slowlog_sample_rate(1000);
    let set = match catch_unwind(AssertUnwindSafe(|| cfg.set_value(f, v).is_ok())) { Ok(true) => "ok", Ok(false) => "err", Err(_) => "PANIC" };
    let logger = SlowRequestLogger::new(cfg.clone());
    let lim = catch_unwind(AssertUnwindSafe(|| { for _ in 0..3 { let _ = logger.limit_rate(cfg.get_slowlog_sample_rate()); } }));
    format!("set={} limiter={}", set, if lim.is_ok() { "ok" } else { "PANIC" })
}

fn cfg_values() -> Vec<Vec<u8>> {
    ["0", "1", "2", "1000", "1e3", "18446744073709551615", "18446744073709551616", "-9223372036854775808", "-9223372036854775809", "9223372036854775807",
     "-1", "-0", "+0", "00", "", "x", " 0", "0 ", "99999999999999999999999999999999999999999999", "０"].iter().map(|x| x.as_bytes().to_vec()).collect()
}

fn resp_of(head: &[&str], args: &[Option<Vec<u8>>]) -> Resp<Vec<u8>> {
    let mut l: Vec<Resp<Vec<u8>>> = head.iter().map(|h| Resp::Bulk(BulkStr::Str(h.as_bytes().to_vec()))).collect();
    for a in args {
        l.push(match a { Some(a) => Resp::Bulk(BulkStr::Str(a.clone())), None => Resp::Bulk(BulkStr::Nil) });
    }
    Resp::Arr(Array::Arr(l))
}

/// the control-plane parsers on hostile arguments: they must return (Ok or Err) without panicking and
/// without asking for memory beyond a constant multiple of the argument bytes
fn op_ctl_parser(which: &str, args: &[Option<Vec<u8>>]) -> (String, u64, u64) {
    let bytes: u64 = args.iter().flatten().map(|a| a.len() as u64 + 16).sum::<u64>() + 64;
    let (r, alloc) = measured(|| catch_unwind(AssertUnwindSafe(|| {
        if which == "setrepl" {
            let _ = ReplicatorMeta::from_resp(&resp_of(&["UMCTL", "SETREPL"], args));
        } else {
            let resp = resp_of(&["UMCTL", "SETCLUSTER"], args);
            let _ = ProxyClusterMeta::from_resp(&resp);
            // the same arguments read as a migration switch command
            let sl = resp.as_ref().map(|a| a.as_slice());
            let _ = parse_switch_command(&sl);
        }
    })));
    match r {
        Err(_) => ("PANIC".to_string(), alloc, bytes),
        Ok(()) => (format!("done big={}", if alloc > 64 * bytes + (256 << 10) { 1 } else { 0 }), alloc, bytes),
    }
}

fn parse_ranges(toks: &[&str]) -> Option<Vec<(usize, usize)>> {
    toks.iter().map(|t| { let mut it = t.split('-'); let a = it.next()?.parse::<usize>().ok()?; let b = it.next()?.parse::<usize>().ok()?; if it.next().is_some() { None } else { Some((a, b)) } }).collect()
}

/// a `RangeList` holding exactly these ranges (no compaction: what the serde form delivers)
fn raw_range_list(rs: &[(usize, usize)]) -> RangeList {
    let mut l = RangeList::from_single_range(Range(0, 0));
    *l.get_mut_ranges() = rs.iter().map(|(a, b)| Range(*a, *b)).collect();
    l
}

/// numbers walked by the fill loop of the unpatched `RangeMap::from`
fn range_walk(rs: &[(usize, usize)]) -> u128 {
    rs.iter().map(|(a, b)| if a <= b { (*b - *a) as u128 + 1 } else { 0 }).sum()
}

fn op_rangemap(rs: &[(usize, usize)]) -> String {
    if range_walk(rs) > 5_000_000 { return "skipped-unsafe".to_string(); }
    let l = raw_range_list(rs);
    match catch_unwind(AssertUnwindSafe(|| { let m = RangeMap::from(&l); (0..SLOT_NUM).filter(|s| m.contains_slot(*s)).count() })) {
        Ok(n) => format!("ok contains={}", n),
        Err(_) => "PANIC".to_string(),
    }
}

/// F16d: the first start of the list lies above its last end (both below SLOT_NUM)
fn pred_f16d(rs: &[(usize, usize)]) -> bool {
    match (rs.first(), rs.last()) {
        (Some(f), Some(l)) => f.0 < SLOT_NUM && l.1 < SLOT_NUM && f.0 > l.1,
        _ => false,
    }
}
/// F16e: some range reaches beyond 2^32
fn pred_f16e(rs: &[(usize, usize)]) -> bool {
    rs.iter().any(|(a, b)| a <= b && (*b - *a) as u128 >= (1u128 << 32)) || rs.iter().any(|(a, b)| a > b && (*a - *b) as u128 >= (1u128 << 32))
}

// ------------------------------------------------------------------------------------------
// the child process
// ------------------------------------------------------------------------------------------

struct Backend {
    port: u16,
}

/// a fake Redis: answers every complete array-of-bulk-strings request with a nil bulk string
fn spawn_backend() -> Backend {
    let l = TcpListener::bind("127.0.0.1:0").expect("bind backend");
    let port = l.local_addr().expect("addr").port();
    std::thread::spawn(move || {
        for c in l.incoming() {
            let mut c = match c {
                Ok(c) => c,
                Err(_) => continue,
            };
            std::thread::spawn(move || {
                let mut buf: Vec<u8> = vec![];
                let mut tmp = [0u8; 65536];
                loop {
                    let n = match c.read(&mut tmp) {
                        Ok(0) | Err(_) => return,
                        Ok(n) => n,
                    };
                    buf.extend_from_slice(&tmp[..n]);
                    loop {
                        match parse_resp(&buf) {
                            Ok((_, used)) => {
                                buf.drain(..used);
                                if c.write_all(b"$-1\r\n").is_err() {
                                    return;
                                }
                            }
                            Err(ParseError::NotEnoughData) => break,
                            Err(_) => return,
                        }
                    }
                }
            });
        }
    });
    Backend { port }
}

struct Proxy {
    child: Child,
    port: u16,
    base_rss: u64,
    bytes_sent: u64,
    stderr_path: std::path::PathBuf,
    stderr_seen: usize,
}

impl Drop for Proxy {
    fn drop(&mut self) {
        let _ = self.child.kill();
        let _ = self.child.wait();
        let _ = std::fs::remove_file(&self.stderr_path);
    }
}

fn proc_status_kb(pid: u32, key: &str) -> u64 {
    std::fs::read_to_string(format!("/proc/{}/status", pid))
        .ok()
        .and_then(|t| {
            t.lines()
                .find(|l| l.starts_with(key))
                .and_then(|l| l.split_whitespace().nth(1).and_then(|x| x.parse::<u64>().ok()))
        })
        .unwrap_or(0)
}

fn free_port() -> u16 {
    let l = TcpListener::bind("127.0.0.1:0").expect("bind");
    l.local_addr().expect("addr").port()
}

/// FNV over the sources the binary is built from: cargo decides by mtime, so a source file that was
/// changed and restored with its old mtime (or the other way round) would leave a stale binary behind
fn repo_source_hash() -> u64 {
    fn walk(dir: &std::path::Path, acc: &mut Vec<std::path::PathBuf>) {
        if let Ok(rd) = std::fs::read_dir(dir) {
            for e in rd.flatten() {
                let p = e.path();
                if p.is_dir() { walk(&p, acc) } else if p.extension().map(|x| x == "rs").unwrap_or(false) { acc.push(p) }
            }
        }
    }
    let mut files = vec![std::path::PathBuf::from("/repo/Cargo.toml"), std::path::PathBuf::from("/repo/Cargo.lock")];
    walk(std::path::Path::new("/repo/src"), &mut files);
    files.sort();
    let mut h = 0xcbf29ce484222325u64;
    for f in files {
        h = fnv_str(h, &f.to_string_lossy());
        for b in std::fs::read(&f).unwrap_or_default() { h ^= b as u64; h = h.wrapping_mul(0x100000001b3); }
    }
    h
}

/// Build `server_proxy` from /repo's working tree and return a *private copy* of the binary.
/// Clean + build + copy run under one `flock`: another C16 run (or a change of /repo) may clean and rebuild
/// the shared target directory at any time, and a run in progress must keep the binary it started with.
fn build_proxy_bin(out_dir: &std::path::Path) -> Result<String, String> {
    let target = "/verif/.build/target-repo";
    let _ = std::fs::create_dir_all(target);
    let stamp = format!("{}/server_proxy.srchash", target);
    let want = format!("{:016x}", repo_source_hash());
    let dest = out_dir.join(format!("server_proxy.{}", std::process::id()));
    let script = format!(
        "set -e; cd /verif/harness; \
         if [ \"$(cat {stamp} 2>/dev/null)\" != \"{want}\" ]; then rm -f {stamp}; \
           cargo clean --release --offline --manifest-path /repo/Cargo.toml -p undermoon --target-dir {target} >/dev/null 2>&1 || true; fi; \
         cargo build --release --offline --manifest-path /repo/Cargo.toml --bin server_proxy --target-dir {target}; \
         echo {want} > {stamp}; cp -f {target}/release/server_proxy {dest}",
        stamp = stamp, want = want, target = target, dest = dest.display());
    let out = Proc::new("flock")
        .arg(format!("{}.lock", target))
        .arg("sh").arg("-c").arg(&script)
        .env("RUSTFLAGS", "--cfg undermoon_verif --check-cfg cfg(undermoon_verif) -Awarnings")
        .env("CARGO_PROFILE_RELEASE_LTO", "false")
        .env("CARGO_PROFILE_RELEASE_DEBUG", "false")
        .env("CARGO_PROFILE_RELEASE_CODEGEN_UNITS", "16")
        .env("CARGO_PROFILE_RELEASE_OPT_LEVEL", "2")
        .env("CARGO_NET_OFFLINE", "true")
        .output()
        .map_err(|e| format!("flock/cargo: {}", e))?;
    if !out.status.success() || !dest.exists() {
        let e = String::from_utf8_lossy(&out.stderr);
        return Err(format!("building server_proxy failed: {}", &e[e.len().saturating_sub(600)..]));
    }
    Ok(dest.to_string_lossy().to_string())
}

/// The children must not outlive this process even if it is killed (vcheck kills a harness that
/// exceeds its time budget): every child gets a per-run (empty) config file as its first argument,
/// and a detached watchdog shell kills whatever carries that argument once this process is gone.
fn tag_file() -> std::path::PathBuf {
    std::env::temp_dir().join(format!("umh-hostile-{}.toml", std::process::id()))
}

fn start_watchdog() {
    let tag = tag_file();
    let _ = std::fs::write(&tag, b"");
    let me = std::process::id();
    let script = format!(
        // files first: the `pkill` pattern also matches this shell's own command line
        "while kill -0 {me} 2>/dev/null; do sleep 1; done; rm -f {tag} {tmp}/proxy-{me}-*.stderr; pkill -9 -f 'umh-hostile-{me}[.]toml'",
        me = me, tag = tag.display(), tmp = std::env::temp_dir().display());
    // own session: a kill of this process' group must not take the watchdog along
    let r = Proc::new("setsid").arg("sh").arg("-c").arg(&script).stdin(Stdio::null()).stdout(Stdio::null()).stderr(Stdio::null()).spawn();
    if r.is_err() {
        let _ = Proc::new("sh").arg("-c").arg(&script).stdin(Stdio::null()).stdout(Stdio::null()).stderr(Stdio::null()).spawn();
    }
}

fn spawn_proxy(bin: &str, tmp: &std::path::Path, ar: bool) -> Proxy {
    for attempt in 0..5 {
        let port = free_port();
        let stderr_path = tmp.join(format!("proxy-{}-{}.stderr", std::process::id(), port));
        let errf = std::fs::File::create(&stderr_path).expect("stderr file");
        let mut child = Proc::new("sh")
            .arg("-c")
            .arg(format!("ulimit -c 0; ulimit -v {}; exec {} {}", RLIMIT_BYTES / 1024, bin, tag_file().display()))
            .env("UNDERMOON_ADDRESS", format!("127.0.0.1:{}", port))
            .env("UNDERMOON_ANNOUNCE_ADDRESS", format!("127.0.0.1:{}", port))
            .env("UNDERMOON_ACTIVE_REDIRECTION", if ar { "true" } else { "false" })
            .env("UNDERMOON_THREAD_NUMBER", "2")
            .env("RUST_BACKTRACE", "0")
            .env("RUST_LOG", "off")
            .env_remove("RUST_MIN_STACK")
            .stdin(Stdio::null())
            .stdout(Stdio::null())
            .stderr(Stdio::from(errf))
            .spawn()
            .expect("spawn server_proxy");
        let t0 = Instant::now();
        let mut up = false;
        while t0.elapsed() < Duration::from_secs(10) {
            if let Ok(Some(_)) = child.try_wait() {
                break;
            }
            if TcpStream::connect(("127.0.0.1", port)).is_ok() {
                up = true;
                break;
            }
            std::thread::sleep(Duration::from_millis(15));
        }
        if up {
            std::thread::sleep(Duration::from_millis(30));
            let base_rss = proc_status_kb(child.id(), "VmHWM:") * 1024;
            return Proxy { child, port, base_rss, bytes_sent: 0, stderr_path, stderr_seen: 0 };
        }
        let _ = child.kill();
        let status = child.wait().map(|s| format!("{:?}", s)).unwrap_or_default();
        let why = std::fs::read_to_string(&stderr_path).unwrap_or_default();
        let _ = std::fs::remove_file(&stderr_path);
        eprintln!("server_proxy did not come up (attempt {}, binary {} exists: {}, status {}): {}", attempt, bin,
            std::path::Path::new(bin).exists(), status, why.chars().take(300).collect::<String>());
        std::thread::sleep(Duration::from_millis(500 * (attempt as u64 + 1)));
    }
    // not a finding about the proxy: the harness cannot do its work
    eprintln!("umh_hostile: cannot start server_proxy; giving up (harness environment problem, not an observation)");
    std::process::exit(4);
}

impl Proxy {
    fn dead(&mut self) -> Option<String> {
        match self.child.try_wait() {
            Ok(Some(st)) => {
                use std::os::unix::process::ExitStatusExt;
                Some(match st.signal() {
                    Some(sig) => format!("signal {}", sig),
                    None => format!("exit {}", st.code().unwrap_or(-1)),
                })
            }
            _ => None,
        }
    }
    /// wait a little for the process to die (an abort closes the sockets before `wait` reports it)
    fn dead_within(&mut self, ms: u64) -> Option<String> {
        let t0 = Instant::now();
        loop {
            if let Some(d) = self.dead() {
                return Some(d);
            }
            if t0.elapsed() >= Duration::from_millis(ms) {
                return None;
            }
            std::thread::sleep(Duration::from_millis(10));
        }
    }
    /// new `panicked at` lines on the child's stderr since the last call
    fn new_panics(&mut self) -> Vec<String> {
        let t = std::fs::read_to_string(&self.stderr_path).unwrap_or_default();
        let fresh: Vec<String> = t
            .lines()
            .skip(self.stderr_seen)
            .filter(|l| l.contains("panicked at") || l.contains("overflowed its stack") || l.contains("allocation of"))
            .map(|l| l.chars().take(160).collect())
            .collect();
        self.stderr_seen = t.lines().count();
        fresh
    }
    /// is there an unread panic line on the child's stderr? (does not consume it)
    fn panic_pending(&self) -> bool {
        let t = std::fs::read_to_string(&self.stderr_path).unwrap_or_default();
        t.lines().skip(self.stderr_seen).any(|l| l.contains("panicked at"))
    }
    fn request(&self, data: &[u8], wait_ms: u64) -> Option<Vec<u8>> {
        let mut c = TcpStream::connect(("127.0.0.1", self.port)).ok()?;
        c.set_read_timeout(Some(Duration::from_millis(wait_ms))).ok()?;
        c.write_all(data).ok()?;
        let mut buf = vec![0u8; 65536];
        let n = c.read(&mut buf).ok()?;
        buf.truncate(n);
        Some(buf)
    }
    fn served(&self) -> bool {
        matches!(self.request(&cmd_bytes(&[s("PING")]), 1000), Some(r) if r.starts_with(b"+OK"))
    }
}

#[derive(Clone, Copy, PartialEq, Debug)]
enum Tail {
    Drained,
    Pending,
    Invalid,
    Unknown,
}

/// split a reply stream into complete replies (the proxy's replies are well formed)
fn count_replies(buf: &[u8]) -> (Vec<(usize, usize)>, usize) {
    let mut out = vec![];
    let mut off = 0;
    while off < buf.len() {
        match parse_resp(&buf[off..]) {
            Ok((_, used)) => {
                out.push((off, off + used));
                off += used;
            }
            Err(_) => break,
        }
    }
    (out, off)
}

struct ConnObs {
    line: String,
    wall_ms: u128,
}

/// one hostile input on a fresh client connection
fn run_conn(p: &mut Proxy, input: &[u8], k: usize, tail: Tail, nonce: u64, quiet_ms: u64) -> ConnObs {
    let t0 = Instant::now();
    let done = |line: String| ConnObs { line, wall_ms: t0.elapsed().as_millis() };
    let mut c = match TcpStream::connect(("127.0.0.1", p.port)) {
        Ok(c) => c,
        Err(_) => {
            return done(if p.dead_within(500).is_some() { "aborted".into() } else { "refused".into() });
        }
    };
    let _ = c.set_nodelay(true);
    let nonce_arg = format!("nonce-{:016x}", nonce).into_bytes();
    let nonce_reply = { let mut r = format!("${}\r\n", nonce_arg.len()).into_bytes(); r.extend_from_slice(&nonce_arg); r.extend_from_slice(b"\r\n"); r };
    let mut payload = input.to_vec();
    if tail == Tail::Drained || tail == Tail::Unknown {
        payload.extend_from_slice(&cmd_bytes(&[s("ECHO"), nonce_arg.clone()]));
    }
    p.bytes_sent += payload.len() as u64;
    // write from a second thread: the proxy may stop reading (abort, close) while we still send
    let mut wc = c.try_clone().expect("clone");
    let writer = std::thread::spawn(move || { let _ = wc.write_all(&payload); });
    let deadline = t0 + Duration::from_secs(5);
    let mut rbuf: Vec<u8> = vec![];
    let mut tmp = vec![0u8; 65536];
    let mut eof = false;
    let mut replies = 0usize;
    let mut got_nonce = false;
    let mut quiet_until: Option<Instant> = None;
    let mut panic_seen = false;
    loop {
        // evaluate what we have
        let (rs, _) = count_replies(&rbuf);
        replies = rs.len();
        if let Some(i) = rs.iter().position(|(a, b)| rbuf[*a..*b] == nonce_reply[..]) {
            got_nonce = true;
            replies = i;
        }
        if got_nonce || eof {
            break;
        }
        if tail == Tail::Pending && replies >= k && quiet_until.is_none() && !panic_seen {
            quiet_until = Some(Instant::now() + Duration::from_millis(quiet_ms));
        }
        let now = Instant::now();
        let limit = match quiet_until { Some(q) => q.min(deadline), None => deadline };
        if now >= limit {
            // a session task that is panicking closes the socket a little later: wait for that
            if quiet_until.is_some() && now < deadline && p.panic_pending() {
                quiet_until = None;
                panic_seen = true;
                continue;
            }
            break;
        }
        let _ = c.set_read_timeout(Some((limit - now).max(Duration::from_millis(1))));
        match c.read(&mut tmp) {
            Ok(0) => eof = true,
            Ok(n) => rbuf.extend_from_slice(&tmp[..n]),
            Err(e) if e.kind() == std::io::ErrorKind::WouldBlock || e.kind() == std::io::ErrorKind::TimedOut => {}
            Err(_) => eof = true,
        }
    }
    let _ = c.shutdown(std::net::Shutdown::Both);
    let _ = writer.join();
    if eof {
        if p.dead_within(120).is_some() {
            return done("aborted".into());
        }
        return done("closed".into());
    }
    if got_nonce {
        return done(format!("alive {}", replies));
    }
    if p.dead_within(50).is_some() {
        return done("aborted".into());
    }
    if tail == Tail::Pending && quiet_until.is_some() && !panic_seen && replies == k {
        return done(format!("pending {}", replies));
    }
    if tail == Tail::Pending && replies > k {
        return done(format!("extra {}", replies));
    }
    done("stalled".into())
}

// ------------------------------------------------------------------------------------------
// finding predicates (on the input bytes)
// ------------------------------------------------------------------------------------------

fn declared_array_lens(b: &[u8]) -> Vec<u128> {
    let mut out = vec![];
    let mut i = 0;
    while i < b.len() {
        if b[i] == b'*' {
            let mut j = i + 1;
            if j < b.len() && b[j] == b'+' { j += 1; }
            let st = j;
            while j < b.len() && b[j].is_ascii_digit() && j - st < 30 { j += 1; }
            if j > st {
                if let Ok(n) = std::str::from_utf8(&b[st..j]).unwrap_or("0").parse::<u128>() { out.push(n); }
            }
            i = j;
        } else {
            i += 1;
        }
    }
    out
}

/// F4: some array header declares more elements than bytes follow it, and 32·len >= 64 MiB
fn pred_f4(b: &[u8]) -> bool {
    declared_array_lens(b).iter().any(|n| *n > b.len() as u128 && n.saturating_mul(32) >= (64 << 20))
}

/// F16b: more than 2500 array headers (nesting deep enough to matter)
fn pred_f16b(b: &[u8]) -> bool {
    star_count(b) > 2500
}

fn upper(b: &[u8]) -> Vec<u8> { b.iter().map(|x| x.to_ascii_uppercase()).collect() }

fn packets_of(b: &[u8]) -> Vec<Vec<Option<Vec<u8>>>> {
    // top-level arrays of bulk strings / nil bulk strings / integers (what the generators produce)
    let mut out = vec![];
    let mut off = 0;
    while off < b.len() {
        match parse_resp(&b[off..]) {
            Ok((Resp::Arr(Array::Arr(l)), used)) => {
                out.push(l.iter().map(|e| match e {
                    Resp::Bulk(BulkStr::Str(d)) => Some(b[off + d.0..off + d.1].to_vec()),
                    _ => None,
                }).collect());
                off += used;
            }
            Ok((_, used)) => off += used,
            Err(_) => break,
        }
    }
    out
}

fn strip_forward(c: &[Option<Vec<u8>>]) -> &[Option<Vec<u8>>] {
    match c.first() {
        Some(Some(n)) if upper(n) == b"UMFORWARD" && c.len() > 2 => &c[2..],
        _ => c,
    }
}

/// F5: EVAL/EVALSHA whose numkeys parses as an integer greater than the argument count
fn pred_f5(b: &[u8]) -> bool {
    if !inproc_safe_for_packets(b) { return false; }
    packets_of(b).iter().any(|c| {
        let c = strip_forward(c);
        match (c.first(), c.get(2)) {
            (Some(Some(n)), Some(Some(k))) if upper(n) == b"EVAL" || upper(n) == b"EVALSHA" =>
                btoi::btoi::<usize>(k).map(|k| k > c.len()).unwrap_or(false),
            _ => false,
        }
    })
}

/// F16a: BLPOP/BRPOP/BZPOPMIN/BZPOPMAX whose first key argument is not a bulk string
fn pred_f16a(b: &[u8]) -> bool {
    if !inproc_safe_for_packets(b) { return false; }
    packets_of(b).iter().any(|c| {
        let c = strip_forward(c);
        match (c.first(), c.get(1)) {
            (Some(Some(n)), Some(None)) => {
                let u = upper(n);
                c.len() > 2 && (u == b"BLPOP" || u == b"BRPOP" || u == b"BZPOPMIN" || u == b"BZPOPMAX")
            }
            _ => false,
        }
    })
}

/// a blocking command with a bulk first key and a valid timeout of 0 or more than 3 s: with the
/// fake backend answering nil it blocks because the client asked for it (not a violation)
fn pred_legit_block(b: &[u8]) -> bool {
    if !inproc_safe_for_packets(b) { return false; }
    packets_of(b).iter().any(|c| {
        let c = strip_forward(c);
        let u = c.first().and_then(|x| x.clone()).map(|x| upper(&x)).unwrap_or_default();
        // only the list pops take the fake backend's nil bulk string as "nothing there yet"
        let blocking = [&b"BLPOP"[..], b"BRPOP", b"BRPOPLPUSH"].contains(&u.as_slice());
        let arity = if u == b"BRPOPLPUSH" { c.len() == 4 } else { c.len() > 2 };
        let first_bulk = matches!(c.get(1), Some(Some(_)));
        let t = c.last().and_then(|x| x.clone()).and_then(|x| btoi::btou::<u64>(&x).ok());
        blocking && arity && first_bulk && matches!(t, Some(t) if t == 0 || t > 3)
    })
}

/// F16c: a valid UTF-8 argument longer than 100 bytes whose byte 100 is a continuation byte
fn pred_f16c_args(args: &[Option<Vec<u8>>]) -> bool {
    args.iter().take(5).flatten().any(|a| {
        a.len() > 100 && std::str::from_utf8(a).is_ok() && (a[100] & 0xC0) == 0x80
    })
}
fn pred_f16c(b: &[u8]) -> bool {
    inproc_safe_for_packets(b) && packets_of(b).iter().any(|c| pred_f16c_args(c))
}

/// `packets_of` runs the real parser: only on inputs that cannot make it allocate much
fn inproc_safe_for_packets(b: &[u8]) -> bool {
    declared_array_lens(b).iter().all(|n| *n <= 1_000_000) && star_count(b) <= 3000
}

// ------------------------------------------------------------------------------------------
// generators
// ------------------------------------------------------------------------------------------

/// routing keys with every order and multiplicity of `{` and `}`, at the first / last byte, with non-UTF-8 bytes
/// between them, empty, NUL / 0xff bytes, very long
fn key_shapes() -> Vec<Vec<u8>> {
    let mut v: Vec<Vec<u8>> = ["}{", "a}b{c", "{}", "{", "}", "{{}}", "}}{{", "{a}{b}", "user}1{x}", "{user1000}.following", "foo{}{bar}",
        "foo{{bar}}", "{}xxxxx", "x{", "x}", "}x{y}", "{}}{", "}{}", "{{{{{{{{", "}}}}}}}}", "{}{}{}{}", "a{b}c}d{e", "}{a}", "{a", "a}", ""]
        .iter().map(|x| x.as_bytes().to_vec()).collect();
    v.push(vec![b'}', 0xff, 0xfe, b'{']);
    v.push(vec![b'{', 0xff, 0x00, b'}']);
    v.push(vec![0x00]);
    v.push(vec![0xff; 3]);
    v.push(vec![b'{', 0xc3, b'}', 0xa9]);
    let mut long = vec![b'}'; 1]; long.extend(vec![b'a'; 6000]); long.push(b'{'); v.push(long);
    let mut long = vec![b'{'; 1]; long.extend(vec![b'}'; 3000]); v.push(long);
    let mut long = vec![b'x'; 70000]; long[35000] = b'}'; long[69999] = b'{'; v.push(long);
    v
}

/// a random word over the alphabet that matters to `get_hash_tag`
fn brace_key(rng: &mut Rng) -> Vec<u8> {
    if rng.chance(1, 3) { let sh = key_shapes(); return rng.pick(&sh).clone(); }
    let n = rng.range(0, 9) as usize;
    (0..n).map(|_| *rng.pick(&[b'{', b'}', b'{', b'}', b'a', b'b', 0x00, 0xff, 0xc3])).collect()
}

fn key(rng: &mut Rng) -> Vec<u8> {
    if rng.chance(1, 3) { return brace_key(rng); }
    match rng.below(6) {
        0 => s("k"),
        1 => format!("key{}", rng.below(50)).into_bytes(),
        2 => format!("{{t{}}}x{}", rng.below(3), rng.below(9)).into_bytes(),
        3 => { let n = rng.range(1, 12) as usize; rng.bytes(n) }
        4 => vec![0xff, 0xfe, b'k'],
        _ => { let n = rng.range(1, 90) as usize; vec![b'a'; n] }
    }
}

fn extreme_uint(rng: &mut Rng) -> Vec<u8> {
    let opts: [&str; 22] = ["0", "1", "2", "3", "7", "-0", "+1", "-1", "00001", "18446744073709551615", "18446744073709551614",
        "18446744073709551613", "18446744073709551616", "9223372036854775807", "9223372036854775808", "4294967296",
        "99999999999999999999999999", "", "1a", "1.5", " 1", "0x10"];
    s(*rng.pick(&opts))
}

fn valid_cmd(rng: &mut Rng) -> Vec<Vec<u8>> {
    match rng.below(12) {
        0 => vec![s("PING")],
        1 => vec![s("ECHO"), key(rng)],
        2 => vec![s("GET"), key(rng)],
        3 => vec![s("SET"), key(rng), key(rng)],
        4 => vec![s("MGET"), key(rng), key(rng)],
        5 => vec![s("DEL"), key(rng)],
        6 => vec![s("INFO")],
        7 => vec![s("CLUSTER"), s("KEYSLOT"), key(rng)],
        8 => vec![s("SELECT"), s("0")],
        9 => vec![s("AUTH"), key(rng)],
        10 => vec![s("UMCTL"), s("GETEPOCH")],
        _ => vec![s("EXISTS"), key(rng), key(rng)],
    }
}

fn elems_to_packet(elems: &[Vec<u8>], raw: &[(usize, Vec<u8>)]) -> Vec<u8> {
    // `raw`: positions whose element is replaced by these raw bytes (nil bulk, integer, nested array ...)
    let mut o = format!("*{}\r\n", elems.len()).into_bytes();
    for (i, a) in elems.iter().enumerate() {
        if let Some((_, r)) = raw.iter().find(|(p, _)| *p == i) {
            o.extend_from_slice(r);
        } else {
            o.extend_from_slice(format!("${}\r\n", a.len()).as_bytes());
            o.extend_from_slice(a);
            o.extend_from_slice(b"\r\n");
        }
    }
    o
}

/// boundary values for a numeric field of a control-plane command; `inproc`: no count between 10^6 and 2^59
/// (a parser that reserved by such a count would abort this process instead of failing a test)
fn ctl_num(rng: &mut Rng, inproc: bool) -> Vec<u8> {
    let all: [&str; 14] = ["0", "1", "2", "2147483648", "4294967296", "100000000000000", "9223372036854775807",
        "18446744073709551615", "18446744073709551616", "-1", "x", "", "+1", "1000000"];
    let safe: [&str; 11] = ["0", "1", "2", "100000", "1000000", "9223372036854775807", "18446744073709551615",
        "18446744073709551616", "-1", "x", ""];
    if inproc { s(*rng.pick(&safe)) } else { s(*rng.pick(&all)) }
}

/// boundary strings for a name field: lengths around 31, multi-byte characters straddling bytes 23/24, 30/31
/// and 100, spaces, non-UTF-8
fn ctl_name(rng: &mut Rng) -> Vec<u8> {
    let mb = *rng.pick(&["é", "ß", "中", "é", "Ａ", "€", "😀"]);
    let pad = |n: usize, tail: &str| { let mut v = vec![b'a'; n]; v.extend_from_slice(tail.as_bytes()); v };
    match rng.below(14) {
        0 => vec![],
        1 => vec![b'n'; 31],
        2 => vec![b'n'; 32],
        3 => pad(23, mb),                 // straddles byte 24
        4 => pad(22, mb),
        5 => pad(24, mb),
        6 => pad(29, mb),                 // reaches bytes 30/31
        7 => pad(30, mb),
        8 => pad(99, mb),                 // straddles byte 100
        9 => s("my db"),
        10 => vec![0xff, 0xfe, b'a'],
        11 => { let mut v = pad(23, mb); v.extend_from_slice(b"zz"); v }
        12 => s("mydb"),
        _ => pad(rng.range(0, 30) as usize, mb),
    }
}

fn ctl_addr(rng: &mut Rng, local: &str) -> Vec<u8> {
    match rng.below(12) {
        0 => vec![],
        1 => s("127.0.0.1:"),
        2 => s(":1"),
        3 => s("127.0.0.1:99999"),
        4 => s("127.0.0.1"),
        5 => s("127.0.0.1:7:8"),
        6 => s("10.0.0.1:7001"),
        7 => { let mut v = s("127.0.0.1:"); v.extend(vec![b'9'; 300]); v }
        8 => "127.0.0.1:７００１".as_bytes().to_vec(),
        9 => vec![b'1', 0xff, b':', b'1'],
        _ => s(local),
    }
}

fn ctl_range(rng: &mut Rng) -> Vec<u8> {
    s(*rng.pick(&["0-16383", "0-0", "16383-0", "0-16384", "5-18446744073709551615", "0-99999999999999999999", "1-", "-", "3", "0-1-2",
        "100-200", "0-8000"]))
}

#[derive(Clone, Copy, PartialEq)]
enum FK { Fixed, Num, Name, Addr, Range }

/// well-formed control-plane commands with the kind of each field
fn ctl_templates(local: &str, me: &str) -> Vec<(Vec<(Vec<u8>, FK)>, &'static str)> {
    let f = |x: &str| (s(x), FK::Fixed);
    let n = |x: &str| (s(x), FK::Num);
    let a = |x: &str| (s(x), FK::Addr);
    let mig = |v: &mut Vec<(Vec<u8>, FK)>| {
        v.extend(vec![f("MIGRATING"), n("1"), (s("0-8000"), FK::Range), n("5"), a(me), a(local), a("127.0.0.1:1"), a("127.0.0.1:2")]);
    };
    let mut out = vec![];
    out.push((vec![f("UMCTL"), f("SETCLUSTER"), f("v2"), n("5"), f("FORCE"), (s("mydb"), FK::Name), a(local), n("1"), (s("0-16383"), FK::Range),
        f("PEER"), a("127.0.0.1:9"), n("1"), (s("100-200"), FK::Range), f("CONFIG"), f("migration_scan_count"), n("16")], "ctl.setcluster"));
    let mut t = vec![f("UMCTL"), f("SETCLUSTER"), f("v2"), n("5"), f("FORCE"), (s("mydb"), FK::Name), a(local)];
    mig(&mut t);
    out.push((t, "ctl.setcluster-tagged"));
    out.push((vec![f("UMCTL"), f("SETREPL"), n("5"), f("FORCE"), f("master"), (s("mydb"), FK::Name), a(local), n("1"), a("127.0.0.1:7"), a("127.0.0.1:8"),
        f("replica"), (s("mydb"), FK::Name), a(local), n("0")], "ctl.setrepl"));
    for sw in ["PRECHECK", "PRESWITCH", "FINALSWITCH"] {
        let mut t = vec![f("UMCTL"), f(sw), f("v2"), (s("mydb"), FK::Name)];
        mig(&mut t);
        out.push((t, "ctl.switch"));
    }
    out
}

fn ctl_mutate(rng: &mut Rng, t: &[(Vec<u8>, FK)], inproc: bool, local: &str, kinds: &[FK]) -> Vec<Vec<u8>> {
    let idx: Vec<usize> = t.iter().enumerate().filter(|(_, (_, k))| kinds.contains(k)).map(|(i, _)| i).collect();
    let mut c: Vec<Vec<u8>> = t.iter().map(|(v, _)| v.clone()).collect();
    let k = if rng.chance(1, 4) { 2 } else { 1 };
    for _ in 0..k {
        if idx.is_empty() { break; }
        let i = *rng.pick(&idx);
        c[i] = match t[i].1 { FK::Num => ctl_num(rng, inproc), FK::Name => ctl_name(rng), FK::Addr => ctl_addr(rng, local), FK::Range => ctl_range(rng), FK::Fixed => c[i].clone() };
    }
    c
}

/// the deterministic part of the control-plane family: every name shape in every name field, every boundary number
/// in every count field of the well-formed templates (one field at a time)
fn ctl_sweep(local: &str, me: &str, full: bool) -> Vec<(Vec<Vec<u8>>, &'static str)> {
    let mut names: Vec<Vec<u8>> = vec![vec![], vec![b'n'; 31], vec![b'n'; 32], s("my db"), vec![0xff, b'a']];
    let pads: &[usize] = if full { &[22, 23, 24, 29, 30] } else { &[22, 23, 29] };
    let chars: &[&str] = if full { &["é", "中", "€", "Ａ"] } else { &["é", "中"] };
    for pad in pads {
        for ch in chars { let mut v = vec![b'a'; *pad]; v.extend_from_slice(ch.as_bytes()); names.push(v); }
    }
    let nums = ["0", "2", "2147483648", "4294967296", "100000000000000", "9223372036854775807", "18446744073709551615", "-1", "x"];
    let mut out = vec![];
    for (t, class) in ctl_templates(local, me) {
        if class == "ctl.switch" && t[1].0 != b"PRESWITCH" { continue; }
        if !full && (class == "ctl.switch" || class == "ctl.setcluster-tagged") { continue; }
        for (i, (_, k)) in t.iter().enumerate() {
            let vals: Vec<Vec<u8>> = match k {
                FK::Name => names.clone(),
                FK::Num if class != "ctl.switch" => nums.iter().map(|x| s(x)).collect(),
                _ => vec![],
            };
            for v in vals { let mut c: Vec<Vec<u8>> = t.iter().map(|(x, _)| x.clone()).collect(); c[i] = v; out.push((c, class)); }
        }
    }
    out
}

/// one hostile control-plane command (argument vector); every UMCTL sub-command a connection may send, CONFIG,
/// CLUSTER, UMFORWARD, UMSYNC, COMMAND; `local` = an address on the proxy's announce host, `me` = the proxy
fn gen_ctl(rng: &mut Rng, inproc: bool, local: &str, me: &str) -> (Vec<Vec<u8>>, &'static str) {
    let num = |rng: &mut Rng| ctl_num(rng, inproc);
    let tagged = |rng: &mut Rng, c: &mut Vec<Vec<u8>>| {
        c.push(s(*rng.pick(&["MIGRATING", "IMPORTING", "migrating", "MOVING"])));
        let n = if rng.chance(1, 2) { s("1") } else { ctl_num(rng, inproc) };
        c.push(n);
        c.push(ctl_range(rng));
        c.push(if rng.chance(1, 2) { s("7") } else { ctl_num(rng, inproc) });
        for i in 0..4 { c.push(if rng.chance(1, 5) { ctl_addr(rng, local) } else if i == 0 { s(me) } else if i == 1 { s(local) } else { s("127.0.0.1:1") }); }
    };
    if rng.chance(1, 2) {
        // a well-formed command with one (sometimes two) hostile fields
        let ts = ctl_templates(local, me);
        let (t, class) = rng.pick(&ts).clone();
        return (ctl_mutate(rng, &t, inproc, local, &[FK::Num, FK::Name, FK::Addr, FK::Range]), class);
    }
    match rng.below(16) {
        0 | 1 | 2 => {
            // textual SETCLUSTER
            let mut c = vec![s("UMCTL"), s("SETCLUSTER"), if rng.chance(1, 8) { s("v1") } else { s("v2") },
                if rng.chance(1, 2) { s("5") } else { num(rng) }, s(*rng.pick(&["FORCE", "NOFLAG", "force", "FORCE,COMPRESS,x", ""])),
                if rng.chance(1, 3) { s("mydb") } else { ctl_name(rng) }];
            for _ in 0..rng.range(0, 2) {
                c.push(if rng.chance(1, 3) { ctl_addr(rng, local) } else { s(local) });
                if rng.chance(1, 3) { tagged(rng, &mut c); } else {
                    c.push(if rng.chance(1, 2) { s("1") } else { num(rng) });
                    c.push(ctl_range(rng));
                }
            }
            if rng.chance(1, 3) { c.push(s("PEER")); c.push(ctl_addr(rng, "127.0.0.1:9")); c.push(num(rng)); c.push(ctl_range(rng)); }
            if rng.chance(1, 3) { c.push(s("CONFIG")); c.push(s(*rng.pick(&["compression_strategy", "migration_max_migration_time", "migration_scan_count", "x"]))); c.push(num(rng)); }
            (c, "ctl.setcluster")
        }
        3 => {
            // compressed SETCLUSTER: a real blob with boundary fields, or a damaged one
            let name = ClusterName::try_from(std::str::from_utf8(&ctl_name(rng)).unwrap_or("x")).unwrap_or_else(|_| ClusterName::try_from("mydb").expect("name"));
            let mut local_map = HashMap::new();
            let meta = MigrationMeta { epoch: 3, src_proxy_address: me.to_string(), src_node_address: local.to_string(),
                dst_proxy_address: String::from_utf8_lossy(&ctl_addr(rng, "127.0.0.1:1")).to_string(), dst_node_address: "127.0.0.1:2".to_string() };
            let rl = raw_range_list(&[(*rng.pick(&[0usize, 300, 16383, 70000]), *rng.pick(&[0usize, 100, 16383, 16384, usize::MAX]))]);
            local_map.insert(String::from_utf8_lossy(&ctl_addr(rng, local)).to_string(),
                vec![SlotRange { range_list: rl, tag: if rng.chance(1, 2) { SlotRangeTag::Migrating(meta) } else { SlotRangeTag::None } }]);
            let m = ProxyClusterMeta::new(9, ClusterMapFlags { force: true, compress: true }, name, local_map, HashMap::new(), ClusterConfig::default());
            let mut args = m.to_compressed_args().unwrap_or_default();
            if let Some(blob) = args.last_mut() {
                match rng.below(4) { 0 => { blob.truncate(blob.len() / 2); } 1 => { *blob = "!!!not-base64".to_string(); } 2 => { *blob = String::new(); } _ => {} }
            }
            if rng.chance(1, 4) && args.len() > 1 { args[1] = String::from_utf8_lossy(&num(rng)).to_string(); }
            let mut c = vec![s("UMCTL"), s("SETCLUSTER")];
            c.extend(args.into_iter().map(|a| a.into_bytes()));
            (c, "ctl.setcluster-compressed")
        }
        4 | 5 | 6 => {
            let mut c = vec![s("UMCTL"), s("SETREPL"), if rng.chance(1, 2) { s("5") } else { num(rng) }, s(*rng.pick(&["NOFLAG", "FORCE", ""]))];
            for _ in 0..rng.range(0, 2) {
                c.push(s(*rng.pick(&["master", "replica", "MASTER", "x", ""])));
                c.push(if rng.chance(1, 2) { s("mydb") } else { ctl_name(rng) });
                c.push(if rng.chance(1, 2) { s(local) } else { ctl_addr(rng, local) });
                let declared = if rng.chance(1, 3) { s("1") } else { num(rng) };
                c.push(declared);
                for _ in 0..rng.range(0, 2) { c.push(ctl_addr(rng, "127.0.0.1:7")); c.push(ctl_addr(rng, "127.0.0.1:8")); }
            }
            (c, "ctl.setrepl")
        }
        7 | 8 => {
            let mut c = vec![s("UMCTL"), s(*rng.pick(&["PRECHECK", "PRESWITCH", "FINALSWITCH", "TMPSWITCH", "preswitch"])), s(*rng.pick(&["v2", "v1", ""])),
                if rng.chance(1, 2) { s("mydb") } else { ctl_name(rng) }];
            tagged(rng, &mut c);
            if rng.chance(1, 4) { c.truncate(rng.range(2, c.len() as i64) as usize); }
            (c, "ctl.switch")
        }
        9 => (vec![s("UMCTL"), s("SLOWLOG"), s(*rng.pick(&["GET", "get", "RESET", "x"])), num(rng)], "ctl.slowlog"),
        10 => (vec![s("UMCTL"), s(*rng.pick(&["INFOMGR", "INFOREPL", "INFO", "GETEPOCH", "READY", "STATS", "LISTCLUSTER", "DEBUG", "infomgr"])), s("FUTURE"), num(rng)], "ctl.info"),
        11 => {
            let field = s(*rng.pick(&["slowlog_sample_rate", "slowlog_log_slower_than", "slowlog_len", "password", "address", "SLOWLOG_SAMPLE_RATE", "", "x"]));
            if rng.chance(1, 2) { (vec![s("CONFIG"), s("SET"), field, num(rng)], "ctl.config-set") } else { (vec![s("CONFIG"), s(*rng.pick(&["GET", "get", "x"])), if rng.chance(1, 3) { ctl_name(rng) } else { field }], "ctl.config-get") }
        }
        12 => (vec![s("UMFORWARD"), num(rng), s(*rng.pick(&["GET", "CLUSTER", "UMCTL", "UMFORWARD", "EVAL", "BLPOP"])), ctl_name(rng), num(rng), s("k"), s("1")], "ctl.umforward"),
        13 => { let mut c = vec![s("UMSYNC")]; for _ in 0..rng.range(0, 4) { c.push(if rng.chance(1, 2) { num(rng) } else { ctl_name(rng) }); } (c, "ctl.umsync") }
        14 => (vec![s("CLUSTER"), s(*rng.pick(&["KEYSLOT", "NODES", "SLOTS", "keyslot", "INFO", ""])), ctl_name(rng), num(rng)], "ctl.cluster"),
        _ => (vec![s("COMMAND"), num(rng)], "ctl.command"),
    }
}

struct Gen {
    bytes: Vec<u8>,
    class: &'static str,
    /// for inputs that cannot be segmented in-process
    hint: Option<(usize, Tail)>,
    /// run only in this phase ("" = any)
    only_phase: &'static str,
}

fn g(bytes: Vec<u8>, class: &'static str) -> Gen {
    Gen { bytes, class, hint: None, only_phase: "" }
}

fn non_bulk(rng: &mut Rng) -> Vec<u8> {
    match rng.below(4) {
        0 => s("$-1\r\n"),
        1 => s(":5\r\n"),
        2 => s("*1\r\n$1\r\nk\r\n"),
        _ => s("+k\r\n"),
    }
}

fn gen_eval(rng: &mut Rng) -> Gen {
    let name = if rng.chance(1, 3) { "EVALSHA" } else if rng.chance(1, 4) { "eval" } else { "EVAL" };
    let nk: Vec<u8> = match rng.below(10) {
        0 => s("0"),
        1 => s("1"),
        2 => s("2"),
        3 => rng.range(3, 40).to_string().into_bytes(),
        4 => rng.range(1000, 999_999).to_string().into_bytes(),          // walked to its end, fast
        5 => s(*rng.pick(&["18446744073709551615", "18446744073709551614", "18446744073709551613"])), // wraps
        // never a value between 10^7 and 10^12: seconds of spinning, neither clearly fast nor clearly stalled
        _ => s(*rng.pick(&["", "1a", "-0", "+1", "-1", "00001", "18446744073709551616", "99999999999999999999999999", " 1", "1.5", "+0", "0x10"])),
    };
    let nkeys = rng.range(0, 4) as usize;
    let mut c = vec![s(name), s("return 1"), nk];
    for _ in 0..nkeys { c.push(key(rng)); }
    let c = if rng.chance(1, 6) { let mut w = vec![s("UMFORWARD"), s("2")]; w.extend(c); w } else { c };
    g(cmd_bytes(&c), "eval")
}

fn gen_eval_spin(rng: &mut Rng) -> Gen {
    let nk = *rng.pick(&["999999999999999999", "9223372036854775808", "1000000000000", "18446744073709551000"]);
    let mut c = vec![s(if rng.chance(1, 2) { "EVAL" } else { "EVALSHA" }), s("s"), s(nk), s("k")];
    if rng.chance(1, 3) { let mut w = vec![s("umforward"), s("1")]; w.extend(c); c = w; }
    g(cmd_bytes(&c), "eval-spin")
}

fn gen_blocking(rng: &mut Rng, post: bool) -> Gen {
    let name = *rng.pick(&["BLPOP", "BRPOP", "BZPOPMIN", "BZPOPMAX", "BRPOPLPUSH", "blpop"]);
    let nkeys = if name == "BRPOPLPUSH" { 2 } else { rng.range(0, 3) as usize };
    let mut c = vec![s(name)];
    for _ in 0..nkeys { c.push(s("{t}k")); }
    let timeout = if post {
        // the fake backend answers nil: a valid timeout is really waited for
        match rng.below(4) { 0 => s("1"), 1 => s("-1"), 2 => s("1.5"), _ => s("99999999999999999999999") }
    } else {
        match rng.below(6) { 0 => s("0"), 1 => s("1"), 2 => s("18446744073709551615"), 3 => s("18446744073709551616"), 4 => s("-1"), _ => extreme_uint(rng) }
    };
    c.push(timeout);
    let mut raw = vec![];
    // a later key that is not a bulk string is harmless (the loop breaks there)
    if nkeys >= 2 && rng.chance(1, 3) { raw.push((2usize, non_bulk(rng))); }
    // a last element (timeout) that is not a bulk string: wrong number of arguments
    if rng.chance(1, 8) { raw.push((c.len() - 1, non_bulk(rng))); }
    g(elems_to_packet(&c, &raw), "blocking")
}

fn gen_blocking_wedge(rng: &mut Rng) -> Gen {
    let name = *rng.pick(&["BLPOP", "BRPOP", "BZPOPMIN", "BZPOPMAX"]);
    // first key not a bulk string, a second key present (so that the slot guard passes)
    let c = vec![s(name), s("x"), s("k"), s("1")];
    g(elems_to_packet(&c, &[(1, non_bulk(rng))]), "blocking-wedge")
}

fn gen_umforward(rng: &mut Rng) -> Gen {
    let times: Vec<u8> = match rng.below(5) { 0 => s("0"), 1 => s("4"), 2 => vec![0xff, b'1'], 3 => "１".as_bytes().to_vec(), _ => extreme_uint(rng) };
    let mut c = vec![s(if rng.chance(1, 2) { "UMFORWARD" } else { "umForward" }), times];
    if rng.chance(4, 5) { c.extend(valid_cmd(rng)); }
    let mut raw = vec![];
    if rng.chance(1, 6) { raw.push((1usize, non_bulk(rng))); }
    g(elems_to_packet(&c, &raw), "umforward")
}

fn gen_umctl(rng: &mut Rng) -> Gen {
    let c: Vec<Vec<u8>> = match rng.below(9) {
        0 => vec![s("UMCTL"), s("SLOWLOG"), s("GET"), extreme_uint(rng)],
        1 => vec![s("UMCTL"), s("SLOWLOG"), s("GET")],
        2 => vec![s("UMCTL"), s("SLOWLOG"), s(*rng.pick(&["RESET", "nope", ""]))],
        3 => vec![s("UMCTL"), s("SETCLUSTER"), s("v2"), extreme_uint(rng), s("NOFLAGS"), vec![b'x'; rng.range(32, 300) as usize]],
        4 => vec![s("UMCTL"), s("SETCLUSTER"), s("v2"), s("1"), s("NOFLAGS"), "clüster".as_bytes().to_vec(), s("127.0.0.1:1"), s("1"), s("0-99999999999999999999")],
        5 => vec![s("UMCTL"), s("SETREPL"), extreme_uint(rng), s("NOFLAGS"), s("master"), vec![0xff; 3]],
        6 => vec![s("UMCTL"), rng.bytes(5)],
        7 => vec![s("UMCTL"), s(*rng.pick(&["PRESWITCH", "PRECHECK", "FINALSWITCH"])), s("v2"), extreme_uint(rng), s("x")],
        _ => vec![s("UMCTL"), s(*rng.pick(&["INFO", "INFOREPL", "INFOMGR", "LISTCLUSTER", "READY", "STATS", "DEBUG", "debug"])), s("FUTURE")],
    };
    g(cmd_bytes(&c), "umctl")
}

fn gen_multikey(rng: &mut Rng) -> Gen {
    let name = *rng.pick(&["MSET", "MSETNX", "MGET", "DEL", "EXISTS", "mset"]);
    let n = rng.range(0, 7) as usize;
    let mut c = vec![s(name)];
    for _ in 0..n { c.push(if rng.chance(1, 3) { brace_key(rng) } else { s("{t}k") }); }
    let mut raw = vec![];
    if n >= 1 && rng.chance(1, 3) { raw.push((rng.range(1, n as i64) as usize, non_bulk(rng))); }
    g(elems_to_packet(&c, &raw), "multikey")
}

fn gen_name(rng: &mut Rng) -> Gen {
    let len = *rng.pick(&[0usize, 1, 63, 64, 65, 66, 200, 5000]);
    let mut name: Vec<u8> = match rng.below(3) { 0 => vec![b'g'; len], 1 => rng.bytes(len), _ => { let mut v = s("PING"); v.resize(len.max(4), b'x'); v } };
    if rng.chance(1, 4) { name = s(*rng.pick(&["pInG", "GeT", "QUIT", "hello", "ASKING", "command-x"])); }
    let mut c = vec![name];
    if rng.chance(1, 2) { c.push(key(rng)); }
    g(cmd_bytes(&c), "name")
}

/// negative bulk / array lengths other than -1 (all of them are nil) at every position: command name, key, value, nested
fn gen_negative_len(rng: &mut Rng) -> Gen {
    let neg = |rng: &mut Rng, arr: bool| -> Vec<u8> {
        let n = *rng.pick(&["-2", "-9", "-9223372036854775808", "-1", "-0", "-00", "-9223372036854775809", "-2147483649"]);
        let mut v = format!("{}{}\r\n", if arr { '*' } else { '$' }, n).into_bytes();
        if n == "-0" || n == "-00" { if !arr { v.extend_from_slice(b"\r\n"); } }
        v
    };
    let mut c = valid_cmd(rng);
    while c.len() < 3 { c.push(key(rng)); }
    let pos = rng.below(c.len() as u64) as usize;
    let arr = rng.chance(1, 3);
    let raw = neg(rng, arr);
    let mut b = match rng.below(5) {
        0 => neg(rng, true),                                               // the whole request is a nil array of length -n
        1 => { let mut v = s("*2\r\n"); v.extend(neg(rng, false)); v.extend(neg(rng, true)); v }
        2 => { let mut v = s("*2\r\n$3\r\nGET\r\n*2\r\n"); v.extend(neg(rng, false)); v.extend(neg(rng, true)); v }   // nested
        _ => elems_to_packet(&c, &[(pos, raw)]),
    };
    if rng.chance(1, 2) { b.extend(cmd_bytes(&[s("PING")])); }
    g(b, "negative-length")
}

/// every negative length at every position of a small request, deterministically
fn negative_len_sweep() -> Vec<Vec<u8>> {
    let mut out = vec![];
    for n in ["-2", "-9", "-9223372036854775808", "-0", "-2147483649"] {
        for arr in [false, true] {
            let mut raw = format!("{}{}\r\n", if arr { '*' } else { '$' }, n).into_bytes();
            if n == "-0" && !arr { raw.extend_from_slice(b"\r\n"); }
            let c = vec![s("SET"), s("k"), s("v")];
            for pos in 0..3 { out.push(elems_to_packet(&c, &[(pos, raw.clone())])); }
            let mut nested = s("*2\r\n$3\r\nGET\r\n*2\r\n$1\r\na\r\n"); nested.extend_from_slice(&raw); out.push(nested);
            let mut whole = raw.clone(); whole.extend(cmd_bytes(&[s("PING")])); out.push(whole);
        }
    }
    out
}

fn gen_nonarray(rng: &mut Rng) -> Gen {
    let b = match rng.below(7) {
        0 => s("+OK\r\n"),
        1 => s(":123\r\n"),
        2 => s("$4\r\nPING\r\n"),
        3 => s("*-1\r\n"),
        4 => s("*0\r\n"),
        5 => s("$-1\r\n"),
        _ => s("-ERR x\r\n"),
    };
    g(b, "non-array")
}

fn gen_invalid(rng: &mut Rng) -> Gen {
    let b = match rng.below(8) {
        0 => s("PING\r\n"),
        1 => s("\r\n"),
        2 => { let n = rng.range(1, 40) as usize; let mut v = rng.bytes(n); v.push(b'\n'); v.insert(0, b'?'); v }
        3 => s("*x\r\n"),
        4 => s("$abc\r\nabc\r\n"),
        5 => s("*1\r\n$9223372036854775808\r\n"),
        6 => s("*2\r\n$3\r\nGET\r\n!1\r\n"),
        _ => { let mut v = cmd_bytes(&[s("PING")]); v.extend_from_slice(b"\n"); v }
    };
    g(b, "invalid")
}

fn gen_truncated(rng: &mut Rng) -> Gen {
    let mut b = vec![];
    for _ in 0..rng.range(0, 3) { b.extend_from_slice(&cmd_bytes(&valid_cmd(rng))); }
    let last = cmd_bytes(&valid_cmd(rng));
    let cut = rng.range(1, last.len() as i64 - 1) as usize;
    b.extend_from_slice(&last[..cut]);
    g(b, "truncated")
}

fn gen_bulk_len(rng: &mut Rng) -> Gen {
    let n = *rng.pick(&["9223372036854775807", "9223372036854775806", "4611686018427387904", "99999999999", "2147483648", "1000000", "+5", "-5", "-9223372036854775808"]);
    let mut b = format!("*2\r\n$4\r\nECHO\r\n${}\r\n", n).into_bytes();
    b.extend_from_slice(b"abc");
    let neg = n.starts_with('-');
    let mut x = g(b, "bulk-length");
    // a huge bulk length only waits for data (no allocation); a negative one is a nil bulk followed by garbage
    x.hint = Some(if neg { (1, Tail::Invalid) } else { (0, Tail::Pending) });
    x
}

fn gen_array_len_small(rng: &mut Rng) -> Gen {
    let n = *rng.pick(&[2u64, 5, 100, 9999, 65536, 1 << 20]);
    let mut b = format!("*{}\r\n", n).into_bytes();
    for _ in 0..rng.range(0, 1) { b.extend_from_slice(b"$1\r\na\r\n"); }
    let mut x = g(b, "array-length-small");
    x.hint = Some((0, Tail::Pending));
    x
}

fn gen_array_len_huge(rng: &mut Rng) -> Gen {
    // 32·n far above the address-space limit of the child, below isize::MAX
    let n = *rng.pick(&["99999999999", "134217728", "4294967296", "281474976710656", "288230376151711743"]);
    let mut b = vec![];
    if rng.chance(1, 2) { b.extend_from_slice(&cmd_bytes(&[s("PING")])); }
    let pre = if b.is_empty() { 0 } else { 1 };
    b.extend_from_slice(format!("*{}\r\n", n).as_bytes());
    if rng.chance(1, 2) { b.extend_from_slice(b"$3\r\nGET\r\n"); }
    let mut x = g(b, "array-length-huge");
    x.hint = Some((pre, Tail::Pending));
    x
}

fn gen_array_len_overflow(rng: &mut Rng) -> Gen {
    // 32·n > isize::MAX: `capacity overflow` panic
    let n = *rng.pick(&["9223372036854775807", "288230376151711744", "4611686018427387904"]);
    let mut x = g(format!("*{}\r\n", n).into_bytes(), "array-length-overflow");
    x.hint = Some((0, Tail::Pending));
    x
}

fn nest_bytes(depth: usize, leaf: &[u8]) -> Vec<u8> {
    let mut b = Vec::with_capacity(depth * 4 + leaf.len());
    for _ in 0..depth { b.extend_from_slice(b"*1\r\n"); }
    b.extend_from_slice(leaf);
    b
}

fn gen_nest_shallow(rng: &mut Rng) -> Gen {
    let d = *rng.pick(&[2usize, 10, 100, 127, 128, 129, 500, 2000]);
    let leaf: &[u8] = if rng.chance(1, 2) { b"*0\r\n" } else { b"$1\r\nx\r\n" };
    let mut b = nest_bytes(d, leaf);
    if rng.chance(1, 4) { b.truncate(b.len() - 2); }
    g(b, "nesting-shallow")
}

fn gen_nest_deep(_rng: &mut Rng) -> Gen {
    let mut x = g(nest_bytes(14000, b"*0\r\n"), "nesting-deep");
    x.hint = Some((1, Tail::Drained));
    x
}

fn gen_nonutf8(rng: &mut Rng) -> Gen {
    let bad = vec![0xc3, 0x28, 0xff, 0x00, 0x80];
    let c: Vec<Vec<u8>> = match rng.below(7) {
        0 => vec![s("AUTH"), bad],
        1 => vec![s("CLUSTER"), bad],
        2 => vec![s("CONFIG"), s("GET"), bad],
        3 => vec![s("CONFIG"), bad],
        4 => vec![s("UMCTL"), bad],
        5 => vec![s("ECHO"), { let mut v = vec![b'a'; 99]; v.extend_from_slice("é".as_bytes()); v.push(b'a'); v }],
        _ => vec![s("GET"), { let n = rng.range(100, 300) as usize; rng.bytes(n) }],
    };
    g(cmd_bytes(&c), "non-utf8")
}

fn gen_slow_boundary(rng: &mut Rng) -> Gen {
    // a valid UTF-8 argument whose byte 100 is inside a multi-byte character (or not)
    let pad = *rng.pick(&[97usize, 98, 99, 100]);
    let mut v = vec![b'a'; pad];
    v.extend_from_slice((*rng.pick(&["é", "€", "😀"])).as_bytes());
    v.extend_from_slice(b"zz");
    let mut x = g(cmd_bytes(&[s("ECHO"), v]), "slowlog-boundary");
    x.only_phase = "slow";
    x
}

fn mutate(rng: &mut Rng, base: &[u8]) -> Vec<u8> {
    let mut b = base.to_vec();
    for _ in 0..rng.range(1, 3) {
        if b.is_empty() { break; }
        let i = rng.below(b.len() as u64) as usize;
        match rng.below(6) {
            0 => b[i] = rng.next_u64() as u8,
            1 => { b.remove(i); }
            2 => b.insert(i, *rng.pick(&[b'\r', b'\n', b'*', b'$', b'-', b'1', b'0', b':', b'+'])),
            3 => { let j = (i + rng.range(1, 8) as usize).min(b.len()); let chunk = b[i..j].to_vec(); for (o, x) in chunk.into_iter().enumerate() { b.insert(j + o, x); } }
            4 => b.truncate(i),
            _ => if b[i].is_ascii_digit() { b[i] = b'0' + rng.below(10) as u8 } else { b[i] ^= 0x20 },
        }
    }
    b
}

fn gen_mutation(rng: &mut Rng) -> Gen {
    let base = match rng.below(5) {
        0 => gen_eval(rng).bytes,
        1 => gen_blocking(rng, false).bytes,
        2 => gen_multikey(rng).bytes,
        3 => gen_umforward(rng).bytes,
        _ => { let mut b = vec![]; for _ in 0..rng.range(1, 3) { b.extend_from_slice(&cmd_bytes(&valid_cmd(rng))); } b }
    };
    let mut b = mutate(rng, &base);
    // keep the mutant parseable in this process (segmentation uses the real decoder)
    if !inproc_safe(&b) { b = base; }
    g(b, "mutation")
}

fn gen_pipeline(rng: &mut Rng) -> Gen {
    let mut b = vec![];
    for _ in 0..rng.range(1, 6) { b.extend_from_slice(&cmd_bytes(&valid_cmd(rng))); }
    g(b, "valid-pipeline")
}

/// a command that would change the configuration of the proxy under test or stop it: never sent
fn dangerous(b: &[u8]) -> bool {
    dangerous_in(b, false)
}

/// `ctl`: the control-plane family runs on a child that is restarted afterwards: only SHUTDOWN stays excluded
fn dangerous_in(b: &[u8], ctl: bool) -> bool {
    if !inproc_safe_for_packets(b) { return false; }
    packets_of(b).iter().any(|c| {
        let c = strip_forward(c);
        let n0 = c.first().and_then(|x| x.clone()).map(|x| upper(&x)).unwrap_or_default();
        let n1 = c.get(1).and_then(|x| x.clone()).map(|x| upper(&x)).unwrap_or_default();
        (n0 == b"UMCTL" && (n1 == b"SHUTDOWN"))
            || (!ctl && ((n0 == b"CONFIG" && n1 == b"SET") || n0 == b"COMMAND" || n0 == b"UMSYNC"))
    })
}

// ------------------------------------------------------------------------------------------
// streams
// ------------------------------------------------------------------------------------------

fn cfg_line(es: usize, ar: bool) -> String {
    format!("cfg es={} ar={} rlimit={} spin={} stack={}", es, if ar { 1 } else { 0 }, RLIMIT_BYTES, SPIN, STACK_LEVELS)
}

fn run_inproc_op(toks: &[&str], st: &mut Streams, op: &str) {
    let out = match toks {
        ["cfg", ..] | ["phase", _] => "ok".to_string(),
        ["parse", h] => match unhex(h) {
            Some(b) if inproc_safe(&b) => {
                let (line, alloc) = op_parse(&b);
                st.stats.count(&format!("out.parse.{}", line.split(' ').next().unwrap_or("?")));
                let c = st.cases;
                if line == "PANIC" {
                    report_failure(&mut st.stats, c, "parse_resp panicked", if pred_f4(&b) { "F4" } else { "" }, vec![op.to_string()]);
                } else if alloc > ALLOC_PER_BYTE * (b.len() as u64 + 1) {
                    let known = declared_array_lens(&b).iter().any(|n| *n > b.len() as u128);
                    report_failure(&mut st.stats, c, &format!("parse_resp requested {} bytes for {} input bytes", alloc, b.len()),
                        if known { "F4" } else { "" }, vec![op.to_string()]);
                }
                let e = st.stats.extra.entry("max_alloc_per_input_byte".to_string()).or_insert(json!(0.0));
                let ratio = alloc as f64 / (b.len().max(1)) as f64;
                if ratio > e.as_f64().unwrap_or(0.0) { *e = json!(ratio); }
                line
            }
            Some(_) => "skipped-unsafe".to_string(),
            None => "bad-op".to_string(),
        },
        ["decode", h] => match unhex(h) {
            Some(b) if inproc_safe(&b) => {
                let (items, end, rest) = segment(&b);
                st.stats.count(&format!("out.decode.{}", end));
                if items > 0 { st.stats.nontrivial_case(op); }
                if end == "PANIC" {
                    let c = st.cases;
                    report_failure(&mut st.stats, c, "RespCodec::decode panicked", if pred_f4(&b) { "F4" } else { "" }, vec![op.to_string()]);
                }
                format!("items={} end={} rest={}", items, end, rest)
            }
            Some(_) => "skipped-unsafe".to_string(),
            None => "bad-op".to_string(),
        },
        ["slowlog", args @ ..] => {
            let a: Option<Vec<Option<Vec<u8>>>> = args.iter().map(|t| if *t == "~" { Some(None) } else { unhex(t).map(Some) }).collect();
            match a {
                Some(a) => {
                    let r = op_slowlog(&a);
                    st.stats.count(&format!("out.slowlog.{}", r));
                    if r == "PANIC" {
                        let c = st.cases;
                        report_failure(&mut st.stats, c, "SlowRequestLogger::add panicked (String::truncate off a char boundary)",
                            if pred_f16c_args(&a) { "F16c" } else { "" }, vec![op.to_string()]);
                    }
                    r.to_string()
                }
                None => "bad-op".to_string(),
            }
        }
        ["name", h] => unhex(h).map(|b| op_name(&b)).unwrap_or_else(|| "bad-op".into()),
        ["clustername", h] => unhex(h).map(|b| op_clustername(&b).to_string()).unwrap_or_else(|| "bad-op".into()),
        ["usize", h] => unhex(h).map(|b| op_usize(&b)).unwrap_or_else(|| "bad-op".into()),
        [which @ ("setrepl" | "setmeta"), rest @ ..] => {
            let a: Option<Vec<Option<Vec<u8>>>> = rest.iter().map(|t| if *t == "~" { Some(None) } else { unhex(t).map(Some) }).collect();
            match a {
                Some(a) => {
                    let (line, alloc, bytes) = op_ctl_parser(which, &a);
                    st.stats.count(&format!("out.{}.{}", which, line.replace(' ', "_")));
                    if line != "done big=0" {
                        let c = st.cases;
                        report_failure(&mut st.stats, c, &format!("UMCTL {} parser: {} ({} bytes requested for {} argument bytes)",
                            if *which == "setrepl" { "SETREPL" } else { "SETCLUSTER / switch" }, line, alloc, bytes), "", vec![op.to_string()]);
                    }
                    line
                }
                None => "bad-op".to_string(),
            }
        }
        ["rangemap", rest @ ..] => match parse_ranges(rest) {
            Some(rs) => {
                let r = op_rangemap(&rs);
                st.stats.count(&format!("out.rangemap.{}", r.split(' ').next().unwrap_or("?")));
                if r == "PANIC" {
                    let c = st.cases;
                    report_failure(&mut st.stats, c, "RangeMap::from panicked on a range list a client can send (compressed UMCTL SETCLUSTER)",
                        if pred_f16d(&rs) { "F16d" } else { "" }, vec![op.to_string()]);
                }
                r
            }
            None => "bad-op".to_string(),
        },
        ["command", h] => match unhex(h) {
            Some(b) if inproc_safe(&b) => {
                let r = op_command(&b);
                st.stats.count(if r == "PANIC" { "out.command.PANIC" } else { "out.command.ok" });
                if r == "PANIC" {
                    let c = st.cases;
                    report_failure(&mut st.stats, c, "decoding a request and building its Command panicked (what handle_session does for every packet)", "", vec![op.to_string()]);
                }
                r
            }
            Some(_) => "skipped-unsafe".to_string(),
            None => "bad-op".to_string(),
        },
        ["hashtag", h] => match unhex(h) {
            Some(k) => {
                let r = op_hashtag(&k);
                st.stats.count(if r == "PANIC" { "out.hashtag.PANIC" } else { "out.hashtag.ok" });
                if r == "PANIC" {
                    let c = st.cases;
                    report_failure(&mut st.stats, c, "get_hash_tag / generate_slot panicked on a routing key (Command::new runs it for every request)", "", vec![op.to_string()]);
                }
                r
            }
            None => "bad-op".to_string(),
        },
        ["cfgset", f, v] => match (unhex(f), unhex(v)) {
            (Some(f), Some(v)) => {
                let r = op_cfgset(&f, &v);
                st.stats.count(&format!("out.cfgset.{}", r.replace(' ', "_")));
                if r.contains("PANIC") {
                    let c = st.cases;
                    report_failure(&mut st.stats, c, &format!("CONFIG SET {} {}: {} (every later request of every session consults the rate limiter)",
                        String::from_utf8_lossy(&f), String::from_utf8_lossy(&v), r), "", vec![op.to_string()]);
                }
                r
            }
            _ => "bad-op".to_string(),
        },
        ["utf8", h] => unhex(h).map(|b| if std::str::from_utf8(&b).is_ok() { "valid".to_string() } else { "invalid".to_string() }).unwrap_or_else(|| "bad-op".into()),
        _ => "bad-op".to_string(),
    };
    if out == "PANIC" && !op.starts_with("parse") && !op.starts_with("decode") && !op.starts_with("slowlog") && !op.starts_with("rangemap")
        && !op.starts_with("setrepl") && !op.starts_with("setmeta") && !op.starts_with("hashtag") && !op.starts_with("cfgset") && !op.starts_with("command") {
        let c = st.cases;
        report_failure(&mut st.stats, c, "in-process operation panicked", "", vec![op.to_string()]);
    }
    st.op(op, &out);
}

fn resp_gen(rng: &mut Rng, depth: usize) -> Vec<u8> {
    match rng.below(if depth > 3 { 5 } else { 8 }) {
        0 => { let mut v = s("+"); v.extend(key(rng).into_iter().filter(|b| *b != b'\n' && *b != b'\r')); v.extend_from_slice(b"\r\n"); v }
        1 => format!(":{}\r\n", rng.range(-5, 100000)).into_bytes(),
        2 => { let k = key(rng); let mut v = format!("${}\r\n", k.len()).into_bytes(); v.extend(k); v.extend_from_slice(b"\r\n"); v }
        3 => s("$-1\r\n"),
        4 => s("-ERR\r\n"),
        5 => s("*-1\r\n"),
        _ => { let n = rng.range(0, 4) as usize; let mut v = format!("*{}\r\n", n).into_bytes(); for _ in 0..n { v.extend(resp_gen(rng, depth + 1)); } v }
    }
}

fn inproc_stream(args: &Args, rng: &mut Rng) {
    let mut st = Streams::new(args);
    // silence the panic messages of the probes
    std::panic::set_hook(Box::new(|_| {}));
    let es = std::mem::size_of::<RespIndex>();
    if let Some(p) = &args.replay {
        st.case();
        for l in read_lines(p) {
            if l.starts_with('#') || l.starts_with("case ") { continue; }
            // lines of the child-process stream are not this stream's business
            if l.starts_with("conn ") || l.starts_with("setcluster ") || l.starts_with("phase ") { continue; }
            let toks: Vec<&str> = l.split(' ').collect();
            run_inproc_op(&toks, &mut st, &l);
        }
        st.finish("hostile-inproc", RULE_INPROC);
        return;
    }
    // deterministic part: every key shape, every CONFIG SET field x boundary value
    st.case();
    let l = cfg_line(es, false);
    st.op(&l, "ok");
    for k in key_shapes() {
        st.stats.count("gen.hashtag.shape");
        let op = format!("hashtag {}", hex(&k));
        let toks: Vec<&str> = op.split(' ').collect();
        run_inproc_op(&toks, &mut st, &op);
    }
    for b in negative_len_sweep() {
        st.stats.count("gen.command.negative-length.sweep");
        let op = format!("command {}", hex(&b));
        let toks: Vec<&str> = op.split(' ').collect();
        run_inproc_op(&toks, &mut st, &op);
    }
    let mut fields = config_fields();
    fields.extend(["SLOWLOG_SAMPLE_RATE", "Slowlog_Log_Slower_Than", "nope", ""].iter().map(|x| x.to_string()));
    for f in &fields {
        for v in cfg_values() {
            st.stats.count("gen.cfgset.sweep");
            let op = format!("cfgset {} {}", hex(f.as_bytes()), hex(&v));
            let toks: Vec<&str> = op.split(' ').collect();
            run_inproc_op(&toks, &mut st, &op);
        }
    }
    let n = if args.thorough { 60_000 } else { 3_000 };
    let per_case = 500;
    for i in 0..n {
        if i % per_case == 0 {
            st.case();
            let l = cfg_line(es, false);
            st.op(&l, "ok");
        }
        let (op, class): (String, &str) = match rng.below(29) {
            26 => (format!("command {}", hex(&gen_negative_len(rng).bytes)), "command.negative-length"),
            27 => (format!("{} {}", if rng.chance(1, 2) { "parse" } else { "decode" }, hex(&gen_negative_len(rng).bytes)), "parse.negative-length"),
            28 => { let x = match rng.below(4) { 0 => gen_eval(rng).bytes, 1 => gen_multikey(rng).bytes, 2 => gen_name(rng).bytes, _ => gen_pipeline(rng).bytes }; (format!("command {}", hex(&x)), "command.other") }
            23 | 24 => (format!("hashtag {}", hex(&brace_key(rng))), "hashtag.random"),
            25 => { let fs = config_fields(); let vs = cfg_values(); let mut v = rng.pick(&vs).clone(); if rng.chance(1, 4) { v = mutate(rng, &v); }
                    (format!("cfgset {} {}", hex(rng.pick(&fs).as_bytes()), hex(&v)), "cfgset.random") }
            20 | 21 | 22 => {
                // hostile control-plane arguments through the real parsers
                let (c, class) = loop { let x = gen_ctl(rng, true, "127.0.0.1:7001", "127.0.0.1:5299"); if x.1.starts_with("ctl.setcluster") || x.1 == "ctl.setrepl" || x.1 == "ctl.switch" { break x; } };
                let which = if class == "ctl.setrepl" { "setrepl" } else { "setmeta" };
                let mut toks: Vec<String> = c.iter().skip(2).map(|a| hex(a)).collect();
                if !toks.is_empty() && rng.chance(1, 10) { let i = rng.below(toks.len() as u64) as usize; toks[i] = "~".to_string(); }
                (format!("{} {}", which, toks.join(" ")), if which == "setrepl" { "ctl-parser.setrepl" } else { "ctl-parser.setcluster" })
            }
            0 => (format!("parse {}", hex(&resp_gen(rng, 0))), "parse.value"),
            1 => { let mut b = resp_gen(rng, 0); let cut = rng.below(b.len() as u64 + 1) as usize; b.truncate(cut); (format!("parse {}", hex(&b)), "parse.truncated") }
            2 => { let base = resp_gen(rng, 0); (format!("parse {}", hex(&mutate(rng, &base))), "parse.mutated") }
            3 => { let n = *rng.pick(&[0u64, 1, 7, 100, 9999, 99999, 999999]); let mut b = format!("*{}\r\n", n).into_bytes(); if rng.chance(1, 2) { b.extend_from_slice(b":1\r\n"); } (format!("parse {}", hex(&b)), "parse.declared-length") }
            4 => { let d = *rng.pick(&[1usize, 5, 50, 128, 129, 400, 1500]); let mut b = nest_bytes(d, if rng.chance(1, 2) { b"*0\r\n" } else { b":1\r\n" }); if rng.chance(1, 3) { b.truncate(b.len() - 1); } (format!("parse {}", hex(&b)), "parse.nesting") }
            5 => { let d = rng.range(2, 60) as usize; let mut b = vec![]; for _ in 0..d { b.extend_from_slice(format!("*{}\r\n", *rng.pick(&[2u64, 99, 9999, 99999])).as_bytes()); } (format!("parse {}", hex(&b)), "parse.nested-declared") }
            6 => (format!("parse {}", hex(&gen_invalid(rng).bytes)), "parse.invalid"),
            7 | 8 => { let mut b = vec![]; for _ in 0..rng.range(0, 4) { b.extend(resp_gen(rng, 0)); } if rng.chance(1, 3) { let cut = rng.below(b.len() as u64 + 1) as usize; b.truncate(cut); } (format!("decode {}", hex(&b)), "decode.pipeline") }
            9 => (format!("decode {}", hex(&gen_mutation(rng).bytes)), "decode.mutation"),
            10 => (format!("decode {}", hex(&gen_truncated(rng).bytes)), "decode.truncated"),
            11 => { let mut b = gen_pipeline(rng).bytes; b.extend(gen_invalid(rng).bytes); (format!("decode {}", hex(&b)), "decode.invalid-tail") }
            12 | 13 => {
                let pad = rng.range(90, 104) as usize;
                let mut v = vec![b'a'; pad];
                match rng.below(4) { 0 => v.extend_from_slice("é".as_bytes()), 1 => v.extend_from_slice("€".as_bytes()), 2 => v.extend_from_slice("😀".as_bytes()), _ => v.push(0xff) }
                v.extend_from_slice(b"tail");
                let mut toks = vec![hex(b"ECHO")];
                if rng.chance(1, 3) { toks.push("~".to_string()); }
                toks.push(hex(&v));
                for _ in 0..rng.range(0, 5) { toks.push(hex(&key(rng))); }
                if rng.chance(1, 4) { toks.push(hex(&v)); }
                (format!("slowlog {}", toks.join(" ")), "slowlog")
            }
            14 => (format!("name {}", hex(&{ let x = gen_name(rng); packets_of(&x.bytes).first().and_then(|c| c.first().cloned().flatten()).unwrap_or_default() })), "name"),
            15 if rng.chance(1, 2) => (format!("clustername {}", hex(&ctl_name(rng))), "clustername.boundary"),
            15 => { let n = *rng.pick(&[0usize, 1, 30, 31, 32, 33, 100]); let v: Vec<u8> = (0..n).map(|_| *rng.pick(&[b'a', b'Z', b'0', b'@', b'-', b'_', b'.', b' ', 0xc3, 0xa9])).collect(); (format!("clustername {}", hex(&v)), "clustername") }
            16 => if rng.chance(1, 2) { (format!("usize {}", hex(&extreme_uint(rng))), "usize") } else {
                let n = rng.range(1, 4) as usize;
                let rs: Vec<String> = (0..n).map(|_| {
                    let a = *rng.pick(&[0usize, 5, 100, 199, 300, 16383, 16384, 20000, 99999]);
                    let b = *rng.pick(&[0usize, 7, 100, 199, 300, 16383, 16384, 20000, 99999]);
                    format!("{}-{}", a, b) }).collect();
                (format!("rangemap {}", rs.join(" ")), "rangemap")
            },
            17 => { let v: Vec<u8> = match rng.below(3) { 0 => "１２".as_bytes().to_vec(), 1 => "ǆ1".as_bytes().to_vec(), _ => { let n = rng.range(0, 6) as usize; rng.bytes(n) } }; (format!("usize {}", hex(&v)), "usize.unicode") }
            _ => { let n = rng.range(0, 8) as usize; let mut v: Vec<u8> = (0..n).map(|_| *rng.pick(&[0x61u8, 0xc3, 0xa9, 0xe2, 0x82, 0xac, 0xf0, 0x9f, 0x98, 0x80, 0xed, 0xa0, 0x80, 0xc0, 0xf4, 0x90, 0xff])).collect(); if rng.chance(1, 3) { v = "a€😀é".as_bytes().to_vec(); } (format!("utf8 {}", hex(&v)), "utf8") }
        };
        st.stats.count(&format!("gen.{}", class));
        let toks: Vec<&str> = op.split(' ').collect();
        run_inproc_op(&toks, &mut st, &op);
    }
    st.stats.extra.insert("size_of_RespIndex".into(), json!(es));
    st.finish("hostile-inproc", RULE_INPROC);
}

const RULE_INPROC: &str = "in-process: real parse_resp / RespCodec::decode / SlowRequestLogger::add / Command::new / ClusterName::try_from / str::parse::<usize> inside catch_unwind, declared lengths < 10^6, nesting <= 3000; the bytes requested by parse_resp are measured with a counting global allocator and must equal the model's allocRequested; non-trivial = a decode op that yields at least one packet";
const RULE_CHILD: &str = "child: every input on a fresh loopback connection of the real server_proxy (2 worker threads, ulimit -v 2 GiB), phases pre / post (after UMCTL SETCLUSTER, fake backend answering nil) / slow (slow log records every request); observable = alive k | pending k | closed | aborted | stalled; non-trivial = an input that is answered (alive with k >= 1) or legitimately pending; distinct = distinct input bytes";

struct ChildCtx {
    bin: String,
    tmp: std::path::PathBuf,
    backend_port: u16,
    proxy: Proxy,
    phase: String,
    ar: bool,
    epoch: u64,
    restarts: u64,
    nonce: u64,
    walls: Vec<u128>,
    max_rss_growth: u64,
    quiet_ms: u64,
    /// op lines that must precede the failing one in a replay (the command that installed the state)
    replay_prefix: Vec<String>,
}

impl ChildCtx {
    fn restart(&mut self) {
        self.restarts += 1;
        let p = spawn_proxy(&self.bin, &self.tmp, self.ar);
        self.proxy = p;
        let ph = self.phase.clone();
        self.enter_phase(&ph);
    }
    fn control(&self, c: &[Vec<u8>]) -> bool {
        matches!(self.proxy.request(&cmd_bytes(c), 2000), Some(r) if r.starts_with(b"+OK"))
    }
    fn enter_phase(&mut self, ph: &str) -> bool {
        self.phase = ph.to_string();
        let mut ok = true;
        if ph == "post" || ph == "slow" {
            self.epoch += 1;
            ok &= self.control(&[s("UMCTL"), s("SETCLUSTER"), s("v2"), self.epoch.to_string().into_bytes(), s("FORCE"),
                s("mydb"), format!("127.0.0.1:{}", self.backend_port).into_bytes(), s("1"), s("0-16383")]);
        }
        if ph == "slow" {
            ok &= self.control(&[s("CONFIG"), s("SET"), s("slowlog_sample_rate"), s("1")]);
            ok &= self.control(&[s("CONFIG"), s("SET"), s("slowlog_log_slower_than"), s("-1")]);
        }
        ok
    }
}

fn run_child_conn(cx: &mut ChildCtx, st: &mut Streams, input: &[u8], hint: Option<(usize, Tail)>, class: &str) {
    let hint_tok = hint.map(|(k, t)| format!(" {}:{}", k, match t { Tail::Drained => "d", Tail::Pending => "p", Tail::Invalid => "i", Tail::Unknown => "u" })).unwrap_or_default();
    let op = format!("conn {}{}", hex(input), hint_tok);
    let (k, tail) = if inproc_safe(input) {
        let (items, end, _) = segment(input);
        (items, match end { "drained" => Tail::Drained, "pending" => Tail::Pending, _ => Tail::Invalid })
    } else {
        hint.unwrap_or((0, Tail::Unknown))
    };
    cx.nonce += 1;
    // a header that over-declares may make the session panic or the process abort a little later: wait longer
    // before calling such a connection `pending`
    let quiet = if pred_f4(input) { 1500 } else { cx.quiet_ms };
    let obs = run_conn(&mut cx.proxy, input, k, tail, cx.nonce, quiet);
    cx.walls.push(obs.wall_ms);
    let kind = obs.line.split(' ').next().unwrap_or("?").to_string();
    st.stats.count(&format!("out.{}.{}", cx.phase, kind));
    let case = st.cases;
    let mut replay = vec![cfg_line(std::mem::size_of::<RespIndex>(), cx.ar), format!("phase {}", cx.phase)];
    replay.extend(cx.replay_prefix.iter().cloned());
    replay.push(op.clone());
    let panics = cx.proxy.new_panics();
    // ---- the property's oracle on the implementation ----
    match kind.as_str() {
        "aborted" => {
            let fid = if pred_f4(input) { "F4" } else if pred_f16b(input) { "F16b" } else { "" };
            let why = panics.first().cloned().unwrap_or_default();
            report_failure(&mut st.stats, case, &format!("server_proxy exited ({}) on a client input [{}] {}", cx.proxy.dead().unwrap_or_default(), class, why), fid, replay.clone());
        }
        "stalled" if cx.phase != "pre" && pred_legit_block(input) => {
            st.stats.count("stall.legit-blocking-command");
        }
        "stalled" => {
            let served = cx.proxy.served();
            st.stats.count(if served { "stall.other_connection_served" } else { "stall.other_connection_not_served" });
            let fid = if pred_f5(input) { "F5" } else if pred_f16a(input) { "F16a" } else { "" };
            report_failure(&mut st.stats, case, &format!("request neither answered nor connection closed within 5 s [{}] (second connection served: {})", class, served), fid, replay.clone());
        }
        "refused" | "extra" => {
            report_failure(&mut st.stats, case, &format!("unexpected connection behaviour: {} [{}]", obs.line, class), "", replay.clone());
        }
        _ => {}
    }
    if kind != "aborted" {
        for pl in &panics {
            let fid = if (pl.contains("capacity overflow") || pl.contains("raw_vec")) && pred_f4(input) { "F4" }
                else if pl.contains("slowlog.rs") && pred_f16c(input) { "F16c" } else { "" };
            report_failure(&mut st.stats, case, &format!("a session task panicked: {} [{}]", pl, class), fid, replay.clone());
        }
    }
    if cx.proxy.dead().is_none() {
        let hwm = proc_status_kb(cx.proxy.child.id(), "VmHWM:") * 1024;
        let growth = hwm.saturating_sub(cx.proxy.base_rss);
        cx.max_rss_growth = cx.max_rss_growth.max(growth);
        if hwm > cx.proxy.base_rss + 64 * cx.proxy.bytes_sent + (64 << 20) {
            report_failure(&mut st.stats, case, &format!("peak RSS {} exceeds base {} + 64·{} + 64 MiB [{}]", hwm, cx.proxy.base_rss, cx.proxy.bytes_sent, class), "", replay.clone());
        }
    }
    if kind == "alive" || kind == "pending" {
        st.stats.nontrivial_case(&op);
    }
    st.stats.sample(json!({"class": class, "phase": cx.phase, "bytes": input.len(), "observed": obs.line, "wall_ms": obs.wall_ms as u64}));
    st.op(&op, &obs.line);
    if kind == "aborted" || kind == "stalled" || kind == "refused" {
        cx.restart();
    }
}

/// `UMCTL SETCLUSTER` with one MIGRATING range list on a local node, textual or compressed
fn setcluster_cmd(cx: &mut ChildCtx, textual: bool, place: &str, rs: &[(usize, usize)]) -> Option<Vec<u8>> {
    cx.epoch += 1;
    if place != "tag" {
        // an otherwise fully valid and acceptable SETCLUSTER (newer epoch, node on the announce host) whose untagged
        // ranges sit on the local node (`local`) or on a peer (`peer`); the other side gets an ordinary range
        let node = format!("127.0.0.1:{}", cx.backend_port);
        let peer = "127.0.0.1:9".to_string();
        let ordinary = vec![(0usize, 100usize)];
        let (lr, pr): (&[(usize, usize)], &[(usize, usize)]) = if place == "local" { (rs, &ordinary) } else { (&ordinary, rs) };
        if textual {
            let mut c = vec![s("UMCTL"), s("SETCLUSTER"), s("v2"), cx.epoch.to_string().into_bytes(), s("FORCE"), s("mydb"),
                node.into_bytes(), lr.len().to_string().into_bytes()];
            for (a, b) in lr { c.push(format!("{}-{}", a, b).into_bytes()); }
            c.push(s("PEER")); c.push(peer.into_bytes()); c.push(pr.len().to_string().into_bytes());
            for (a, b) in pr { c.push(format!("{}-{}", a, b).into_bytes()); }
            return Some(cmd_bytes(&c));
        }
        let mut local = HashMap::new();
        local.insert(node, vec![SlotRange { range_list: raw_range_list(lr), tag: SlotRangeTag::None }]);
        let mut peers = HashMap::new();
        peers.insert(peer, vec![SlotRange { range_list: raw_range_list(pr), tag: SlotRangeTag::None }]);
        let m = ProxyClusterMeta::new(cx.epoch, ClusterMapFlags { force: true, compress: true },
            ClusterName::try_from("mydb").ok()?, local, peers, ClusterConfig::default());
        let args = m.to_compressed_args().ok()?;
        let mut c = vec![s("UMCTL"), s("SETCLUSTER")];
        c.extend(args.into_iter().map(|a| a.into_bytes()));
        return Some(cmd_bytes(&c));
    }
    let node = format!("127.0.0.1:{}", cx.backend_port);
    let me = format!("127.0.0.1:{}", cx.proxy.port);
    let meta = MigrationMeta { epoch: cx.epoch, src_proxy_address: me, src_node_address: node.clone(),
        dst_proxy_address: "127.0.0.1:1".to_string(), dst_node_address: "127.0.0.1:2".to_string() };
    if textual {
        let mut c = vec![s("UMCTL"), s("SETCLUSTER"), s("v2"), cx.epoch.to_string().into_bytes(), s("FORCE"), s("mydb"),
            node.into_bytes(), s("MIGRATING"), rs.len().to_string().into_bytes()];
        for (a, b) in rs { c.push(format!("{}-{}", a, b).into_bytes()); }
        for x in meta.into_strings() { c.push(x.into_bytes()); }
        Some(cmd_bytes(&c))
    } else {
        let mut local = HashMap::new();
        local.insert(node, vec![SlotRange { range_list: raw_range_list(rs), tag: SlotRangeTag::Migrating(meta) }]);
        let m = ProxyClusterMeta::new(cx.epoch, ClusterMapFlags { force: true, compress: true },
            ClusterName::try_from("mydb").ok()?, local, HashMap::new(), ClusterConfig::default());
        let args = m.to_compressed_args().ok()?;
        let mut c = vec![s("UMCTL"), s("SETCLUSTER")];
        c.extend(args.into_iter().map(|a| a.into_bytes()));
        Some(cmd_bytes(&c))
    }
}

/// `place`: "" = the old op form (a MIGRATING range, no follow-up), "tag" | "local" | "peer" = where the ranges go; these
/// are followed by a second, ordinary SETCLUSTER from another connection (it needs the metadata lock) and by probes
fn run_child_setcluster(cx: &mut ChildCtx, st: &mut Streams, textual: bool, place: &str, rs: &[(usize, usize)]) {
    let op = format!("setcluster {}{} {}", if textual { "t" } else { "z" }, if place.is_empty() { String::new() } else { format!(" {}", place) },
        rs.iter().map(|(a, b)| format!("{}-{}", a, b)).collect::<Vec<_>>().join(" "));
    let data = match setcluster_cmd(cx, textual, if place.is_empty() { "tag" } else { place }, rs) { Some(d) => d, None => { st.op(&op, "bad-op"); return; } };
    let t0 = Instant::now();
    let mut line = "stalled".to_string();
    if let Ok(mut c) = TcpStream::connect(("127.0.0.1", cx.proxy.port)) {
        let _ = c.set_read_timeout(Some(Duration::from_secs(5)));
        cx.proxy.bytes_sent += data.len() as u64;
        let _ = c.write_all(&data);
        let mut buf = [0u8; 4096];
        line = match c.read(&mut buf) {
            Ok(0) => "closed".to_string(),
            Ok(n) if buf[..n].starts_with(b"+OK") => "ok".to_string(),
            Ok(n) => format!("err {}", hex(&buf[..n.min(40)])),
            Err(e) if e.kind() == std::io::ErrorKind::WouldBlock || e.kind() == std::io::ErrorKind::TimedOut => "stalled".to_string(),
            Err(_) => "closed".to_string(),
        };
    }
    cx.walls.push(t0.elapsed().as_millis());
    if cx.proxy.dead_within(100).is_some() { line = "aborted".to_string(); }
    st.stats.count(&format!("out.setcluster.{}", line.split(' ').next().unwrap_or("?")));
    let case = st.cases;
    let replay = vec![cfg_line(std::mem::size_of::<RespIndex>(), cx.ar), op.clone()];
    let panics = cx.proxy.new_panics();
    if line == "stalled" {
        let served = cx.proxy.served();
        st.stats.count(if served { "stall.other_connection_served" } else { "stall.other_connection_not_served" });
        // a second metadata update now blocks on the lock held by the spinning one
        report_failure(&mut st.stats, case, &format!("UMCTL SETCLUSTER neither answered nor closed within 5 s (second connection served: {})", served),
            if pred_f16e(rs) { "F16e" } else { "" }, replay.clone());
    } else if line == "aborted" {
        report_failure(&mut st.stats, case, "server_proxy exited on UMCTL SETCLUSTER", "", replay.clone());
    }
    for pl in &panics {
        let fid = if !textual && pred_f16d(rs) && (pl.contains("raw_vec") || pl.contains("capacity overflow") || pl.contains("cluster.rs")) { "F16d" } else { "" };
        report_failure(&mut st.stats, case, &format!("a session task panicked inside set_meta: {}", pl), fid, replay.clone());
    }
    if !place.is_empty() && line != "stalled" && line != "aborted" {
        // the metadata lock must be free again and ordinary traffic must go on
        let second = match setcluster_cmd(cx, true, "local", &[(0, 16383)]) {
            Some(d) => match TcpStream::connect(("127.0.0.1", cx.proxy.port)) {
                Ok(mut c2) => { let r = exchange(&mut c2, &d, 1, 5000); if r == "alive 1" { "ok".to_string() } else { r } }
                Err(_) => "refused".to_string(),
            },
            None => "bad-op".to_string(),
        };
        let probes = { let mut b = cmd_bytes(&[s("CLUSTER"), s("NODES")]); b.extend(cmd_bytes(&[s("GET"), s("k")])); b.extend(cmd_bytes(&[s("UMCTL"), s("GETEPOCH")])); b };
        let pr = match TcpStream::connect(("127.0.0.1", cx.proxy.port)) { Ok(mut c3) => exchange(&mut c3, &probes, 3, 5000), Err(_) => "refused".to_string() };
        if second != "ok" || pr != "alive 3" {
            report_failure(&mut st.stats, case, &format!("after UMCTL SETCLUSTER ({}): a second SETCLUSTER from another connection: {}, probes: {} (metadata lock held / proxy wedged)", line, second, pr), "", replay.clone());
        }
        line = format!("{} second={}", line, if pr == "alive 3" { second } else { format!("{}/probes-{}", second, pr.replace(' ', "-")) });
    }
    if line.starts_with("ok") { st.stats.nontrivial_case(&op); }
    st.op(&op, &line);
    // the installed migration task (and a possible spinning worker) must not leak into later inputs
    cx.restart();
}

/// send `data` on an open connection and wait for `want` complete replies: "alive n" | "closed" | "stalled"
fn exchange(c: &mut TcpStream, data: &[u8], want: usize, ms: u64) -> String {
    if c.write_all(data).is_err() { return "closed".to_string(); }
    let deadline = Instant::now() + Duration::from_millis(ms);
    let mut buf: Vec<u8> = vec![];
    let mut tmp = [0u8; 8192];
    loop {
        let (rs, _) = count_replies(&buf);
        if rs.len() >= want { return format!("alive {}", rs.len()); }
        let now = Instant::now();
        if now >= deadline { return "stalled".to_string(); }
        let _ = c.set_read_timeout(Some((deadline - now).max(Duration::from_millis(1))));
        match c.read(&mut tmp) {
            Ok(0) => return "closed".to_string(),
            Ok(n) => buf.extend_from_slice(&tmp[..n]),
            Err(e) if e.kind() == std::io::ErrorKind::WouldBlock || e.kind() == std::io::ErrorKind::TimedOut => {}
            Err(_) => return "closed".to_string(),
        }
    }
}

/// `CONFIG SET field value` on a fresh proxy, answered whatever it is, then ordinary commands on the same connection,
/// on a connection established before and on a fresh one: every complete request must be answered everywhere
fn run_child_cfgconn(cx: &mut ChildCtx, st: &mut Streams, field: &[u8], value: &[u8]) {
    let op = format!("cfgconn {} {}", hex(field), hex(value));
    cx.phase = "pre".into();
    cx.restart();
    let t0 = Instant::now();
    let port = cx.proxy.port;
    let connect = || TcpStream::connect(("127.0.0.1", port)).ok().map(|c| { let _ = c.set_nodelay(true); c });
    let ordinary = { let mut b = cmd_bytes(&[s("PING")]); b.extend(cmd_bytes(&[s("GET"), s("k")])); b.extend(cmd_bytes(&[s("CONFIG"), s("GET"), s("slowlog_sample_rate")])); b };
    let (mut set, mut same, mut est, mut fresh) = ("refused".to_string(), "refused".to_string(), "refused".to_string(), "refused".to_string());
    if let (Some(mut e), Some(mut c)) = (connect(), connect()) {
        let warm = exchange(&mut e, &cmd_bytes(&[s("PING")]), 1, 3000);
        // the CONFIG SET, alone, answered whatever it is
        cx.proxy.bytes_sent += 200;
        let data = cmd_bytes(&[s("CONFIG"), s("SET"), field.to_vec(), value.to_vec()]);
        set = if c.write_all(&data).is_err() { "closed".to_string() } else {
            let _ = c.set_read_timeout(Some(Duration::from_secs(5)));
            let mut buf = [0u8; 4096];
            match c.read(&mut buf) {
                Ok(0) => "closed".to_string(),
                Ok(n) if buf[..n].starts_with(b"+OK") => "ok".to_string(),
                Ok(_) => "err".to_string(),
                Err(e) if e.kind() == std::io::ErrorKind::WouldBlock || e.kind() == std::io::ErrorKind::TimedOut => "stalled".to_string(),
                Err(_) => "closed".to_string(),
            }
        };
        same = exchange(&mut c, &ordinary, 3, 5000);
        est = if warm == "alive 1" { exchange(&mut e, &cmd_bytes(&[s("PING")]), 1, 5000) } else { format!("warmup-{}", warm) };
        fresh = match connect() { Some(mut f) => exchange(&mut f, &{ let mut b = cmd_bytes(&[s("PING")]); b.extend(cmd_bytes(&[s("GET"), s("k")])); b }, 2, 5000), None => "refused".to_string() };
    }
    cx.walls.push(t0.elapsed().as_millis());
    let mut line = format!("set={} same={} est={} fresh={}", set, same, est, fresh);
    if cx.proxy.dead_within(100).is_some() { line = format!("{} aborted", line); }
    let good = (set == "ok" || set == "err") && same == "alive 3" && est == "alive 1" && fresh == "alive 2";
    st.stats.count(&format!("out.cfgconn.{}", if good { format!("set-{}", set) } else { "BAD".to_string() }));
    let case = st.cases;
    let replay = vec![cfg_line(std::mem::size_of::<RespIndex>(), cx.ar), op.clone()];
    let panics = cx.proxy.new_panics();
    if !good {
        report_failure(&mut st.stats, case, &format!("after CONFIG SET {} {} (answered {}): same connection {}, established connection {}, fresh connection {} {}",
            String::from_utf8_lossy(field), String::from_utf8_lossy(value), set, same, est, fresh, panics.first().cloned().unwrap_or_default()), "", replay.clone());
    } else {
        for pl in &panics { report_failure(&mut st.stats, case, &format!("a session task panicked after CONFIG SET: {}", pl), "", replay.clone()); }
        st.stats.nontrivial_case(&op);
    }
    st.op(&op, &line);
}

fn child_stream(args: &Args, rng: &mut Rng) {
    let mut st = Streams::new(args);
    let bin = match args.extra.get("proxy-bin") {
        Some(b) if !b.is_empty() => b.clone(),
        _ => match build_proxy_bin(&args.out) {
            Ok(b) => b,
            Err(e) => { eprintln!("{}", e); std::process::exit(3); }
        },
    };
    let ar = args.extra.get("ar").map(|x| x == "1").unwrap_or(false);
    let tmp = std::env::temp_dir();
    start_watchdog();
    let backend = spawn_backend();
    let proxy = spawn_proxy(&bin, &tmp, ar);
    let mut cx = ChildCtx { bin, tmp, backend_port: backend.port, proxy, phase: "pre".into(), ar, epoch: 0, restarts: 0,
        nonce: args.seed << 20, walls: vec![], max_rss_growth: 0, quiet_ms: if args.thorough { 80 } else { 250 }, replay_prefix: vec![] };
    let es = std::mem::size_of::<RespIndex>();
    if let Some(p) = &args.replay {
        st.case();
        for l in read_lines(p) {
            if l.starts_with('#') || l.starts_with("case ") { continue; }
            let toks: Vec<&str> = l.split(' ').collect();
            match toks.as_slice() {
                ["cfg", rest @ ..] => {
                    let want_ar = rest.iter().any(|t| *t == "ar=1");
                    if want_ar != cx.ar { cx.ar = want_ar; cx.phase = "pre".into(); cx.restart(); }
                    st.op(&l, "ok");
                }
                ["phase", ph] => { let ok = cx.enter_phase(ph); st.op(&l, if ok { "ok" } else { "phase-failed" }); }
                ["conn", h] | ["conn", h, _] => {
                    let hint = toks.get(2).and_then(|t| { let mut it = t.split(':'); let k = it.next()?.parse::<usize>().ok()?; let tl = match it.next()? { "d" => Tail::Drained, "p" => Tail::Pending, "i" => Tail::Invalid, _ => Tail::Unknown }; Some((k, tl)) });
                    match unhex(h) {
                        Some(b) if !dangerous(&b) || cx.phase == "slow" => run_child_conn(&mut cx, &mut st, &b, hint, "replay"),
                        _ => st.op(&l, "bad-op"),
                    }
                }
                ["cfgconn", f, v] => match (unhex(f), unhex(v)) {
                    (Some(f), Some(v)) => run_child_cfgconn(&mut cx, &mut st, &f, &v),
                    _ => st.op(&l, "bad-op"),
                },
                ["setcluster", form, rest @ ..] => {
                    let (place, rtoks): (&str, &[&str]) = match rest.first() { Some(&p @ ("tag" | "local" | "peer")) => (p, &rest[1..]), _ => ("", rest) };
                    match parse_ranges(rtoks) {
                        Some(rs) => run_child_setcluster(&mut cx, &mut st, *form == "t", place, &rs),
                        None => st.op(&l, "bad-op"),
                    }
                }
                _ => run_inproc_op(&toks, &mut st, &l),
            }
        }
        finish_child(st, cx);
        return;
    }
    let total = if args.thorough { 20_000 } else { 200 };
    // the expensive classes (a stall costs 5 s and a restart, a deep nest costs the model seconds)
    // (the corpus replays one of each on every run)
    let (n_spin, n_wedge, n_deep, n_huge, n_ovf) = if args.thorough { (4, 4, 2, 12, 8) } else { (1, 1, 0, 2, 1) };
    let mut plan: Vec<(&'static str, Gen)> = vec![];
    let phases = ["pre", "post", "slow"];
    for i in 0..total {
        let ph = if i < total * 45 / 100 { "pre" } else if i < total * 90 / 100 { "post" } else { "slow" };
        let gen = match rng.below(100) {
            0..=13 => gen_pipeline(rng),
            14..=23 => gen_eval(rng),
            24..=31 => gen_blocking(rng, ph != "pre"),
            32..=37 => gen_umforward(rng),
            38..=44 => gen_umctl(rng),
            45..=51 => gen_multikey(rng),
            52..=56 => gen_name(rng),
            57..=58 => gen_nonarray(rng),
            59..=60 => gen_negative_len(rng),
            61..=66 => gen_invalid(rng),
            67..=73 => gen_truncated(rng),
            74..=77 => gen_bulk_len(rng),
            78..=81 => gen_array_len_small(rng),
            82..=85 => gen_nest_shallow(rng),
            86..=89 => gen_nonutf8(rng),
            _ => if args.thorough || rng.chance(1, 2) { gen_mutation(rng) } else { gen_pipeline(rng) },
        };
        let gen = if ph == "slow" && rng.chance(1, 2) { gen_slow_boundary(rng) } else { gen };
        plan.push((ph, gen));
    }
    // sprinkle the expensive classes into both configured phases
    let mut extra: Vec<(&'static str, Gen)> = vec![];
    for i in 0..n_spin { extra.push((phases[i % 2], gen_eval_spin(rng))); }
    for i in 0..n_wedge { extra.push((phases[(i + 1) % 2], gen_blocking_wedge(rng))); }
    for i in 0..n_deep { extra.push((phases[i % 2], gen_nest_deep(rng))); }
    for i in 0..n_huge { extra.push((phases[i % 2], gen_array_len_huge(rng))); }
    for i in 0..n_ovf { extra.push((phases[(i + 1) % 2], gen_array_len_overflow(rng))); }
    for (ph, gen) in extra {
        // insert at a random position inside the matching phase block
        let idxs: Vec<usize> = plan.iter().enumerate().filter(|(_, (p, _))| *p == ph).map(|(i, _)| i).collect();
        let at = if idxs.is_empty() { plan.len() } else { *rng.pick(&idxs) };
        plan.insert(at, (ph, gen));
    }
    let mut cur_phase = "";
    let mut in_case = 0;
    for (ph, gen) in plan {
        if gen.only_phase != "" && gen.only_phase != ph { continue; }
        if ph != cur_phase || in_case >= 60 {
            st.case();
            in_case = 0;
            let l = cfg_line(es, ar);
            st.op(&l, "ok");
            let ok = if ph != cur_phase { cx.enter_phase(ph) } else { true };
            st.op(&format!("phase {}", ph), if ok { "ok" } else { "phase-failed" });
            cur_phase = ph;
        }
        in_case += 1;
        if dangerous(&gen.bytes) { st.stats.count("gen.skipped-dangerous"); continue; }
        st.stats.count(&format!("gen.{}", gen.class));
        st.stats.count(&format!("phase.{}", ph));
        run_child_conn(&mut cx, &mut st, &gen.bytes, gen.hint, gen.class);
    }
    // every routing-key shape in every position that carries a key, before and after metadata is set
    for ph in ["pre", "post"] {
        st.case();
        let l = cfg_line(es, ar);
        st.op(&l, "ok");
        let ok = cx.enter_phase(ph);
        st.op(&format!("phase {}", ph), if ok { "ok" } else { "phase-failed" });
        if ph == "pre" { cx.restart(); }
        for k in key_shapes() {
            st.stats.count("gen.key-shape");
            let mut b = vec![];
            for c in [vec![s("GET"), k.clone()], vec![s("CLUSTER"), s("KEYSLOT"), k.clone()], vec![s("MGET"), s("a"), k.clone()],
                      vec![s("EVAL"), s("return 1"), s("1"), k.clone()], vec![s("UMFORWARD"), s("2"), s("SET"), k.clone(), s("v")], vec![s("PING"), k.clone()]] {
                b.extend(cmd_bytes(&c));
            }
            run_child_conn(&mut cx, &mut st, &b, None, "key-shape");
        }
    }
    // negative bulk / array lengths other than -1 at every position
    st.case();
    let l = cfg_line(es, ar);
    st.op(&l, "ok");
    let ok = cx.enter_phase("post");
    st.op("phase post", if ok { "ok" } else { "phase-failed" });
    for b in negative_len_sweep() {
        st.stats.count("gen.negative-length.sweep");
        let mut b = b;
        b.extend(cmd_bytes(&[s("GET"), s("k")]));
        run_child_conn(&mut cx, &mut st, &b, None, "negative-length");
    }
    // CONFIG SET of every field x boundary value, followed by ordinary traffic on three connections
    st.case();
    let l = cfg_line(es, ar);
    st.op(&l, "ok");
    {
        let fields = config_fields();
        let writable: Vec<String> = fields.iter().filter(|f| op_cfgset(f.as_bytes(), b"1").starts_with("set=ok")).cloned().collect();
        let mut plan: Vec<(Vec<u8>, Vec<u8>)> = vec![];
        for f in &writable { for v in cfg_values() { plan.push((f.clone().into_bytes(), v)); } }
        for f in &fields { if !writable.contains(f) { plan.push((f.clone().into_bytes(), s("0"))); if args.thorough { plan.push((f.clone().into_bytes(), s("18446744073709551615"))); } } }
        plan.push((s("SLOWLOG_SAMPLE_RATE"), s("+0")));
        plan.push((vec![0xff, b'x'], s("0")));
        if !args.thorough {
            // quick: all values for the writable fields, every other field once
            plan.retain(|(f, v)| writable.iter().any(|w| w.as_bytes() == f.as_slice()) || v == b"0" || v == b"+0");
        }
        for (f, v) in plan {
            st.stats.count("gen.cfgconn");
            run_child_cfgconn(&mut cx, &mut st, &f, &v);
        }
    }
    // hostile control-plane arguments, each followed by stateful probes on the same and on a second connection
    let probes: Vec<Vec<Vec<u8>>> = vec![
        vec![s("CLUSTER"), s("NODES")], vec![s("CLUSTER"), s("SLOTS")], vec![s("UMCTL"), s("INFO")], vec![s("UMCTL"), s("GETEPOCH")],
        vec![s("GET"), s("{t}k")], vec![s("GET"), s("b")], vec![s("UMCTL"), s("INFOREPL")], vec![s("UMCTL"), s("INFOMGR")],
    ];
    let probe_bytes: Vec<u8> = probes.iter().flat_map(|c| cmd_bytes(c)).collect();
    let groups = if args.thorough { 600 } else { 25 };
    let local = format!("127.0.0.1:{}", cx.backend_port);
    cx.phase = "pre".into();
    cx.restart();
    // the proxy's own address changes with every restart: a placeholder stands for it in the sweep
    const ME: &str = "127.0.0.1:0";
    let sweep = ctl_sweep(&local, ME, args.thorough);
    let n_sweep = sweep.len();
    let mut sweep = sweep.into_iter();
    for gi in 0..(groups + n_sweep) {
        if gi % 20 == 0 {
            st.case();
            let l = cfg_line(es, ar);
            st.op(&l, "ok");
            st.op("phase pre", "ok");
        }
        let me = format!("127.0.0.1:{}", cx.proxy.port);
        let (c, class) = match sweep.next() {
            Some((c, class)) => (c.into_iter().map(|a| if a == ME.as_bytes() { me.clone().into_bytes() } else { a }).collect(), class),
            None => gen_ctl(rng, false, &local, &me),
        };
        let h = cmd_bytes(&c);
        if dangerous_in(&h, true) { st.stats.count("gen.skipped-dangerous"); continue; }
        st.stats.count(&format!("gen.{}", class));
        let mut first = h.clone();
        first.extend_from_slice(&probe_bytes);
        cx.replay_prefix.clear();
        run_child_conn(&mut cx, &mut st, &first, None, class);
        // what the command installed must not hurt other clients either
        cx.replay_prefix = vec![format!("conn {}", hex(&first))];
        run_child_conn(&mut cx, &mut st, &probe_bytes, None, "ctl.followup");
        cx.replay_prefix.clear();
        cx.restart();
    }
    // UMCTL SETCLUSTER with a tagged range list (each one is followed by a restart of the child)
    st.case();
    let l = cfg_line(es, ar);
    st.op(&l, "ok");
    let mut metas: Vec<(bool, Vec<(usize, usize)>)> = vec![
        (true, vec![(0, 100), (200, 300)]),
        (false, vec![(100, 199), (300, 300)]),
        (true, vec![(300, 300), (100, 199)]),
        (true, vec![(0, 2_000_000)]),                         // walked, fast
    ];
    if args.thorough {
        metas.push((false, vec![(300, 300), (100, 199)]));                // F16d
        metas.push((true, vec![(0, 999_999_999_999_999)]));               // F16e
        metas.push((false, vec![(16383, 0)]));
        metas.push((false, vec![(0, 18_446_744_073_709_551_615)]));
        metas.push((true, vec![(16000, 16383), (17000, 9_000_000_000_000_000_000)]));
        for _ in 0..6 {
            let n = rng.range(1, 3) as usize;
            let rs = (0..n).map(|_| (*rng.pick(&[0usize, 50, 199, 300, 16383, 16384, 70000]), *rng.pick(&[0usize, 60, 199, 300, 16383, 16384, 70000]))).collect();
            metas.push((rng.chance(1, 2), rs));
        }
    }
    for (textual, rs) in metas {
        st.stats.count(if textual { "gen.setcluster-text" } else { "gen.setcluster-compressed" });
        run_child_setcluster(&mut cx, &mut st, textual, "", &rs);
    }
    // every hostile range shape in every place (local / peer / tagged), as a well-formed COMPRESS payload and in the
    // textual form, each followed by a second SETCLUSTER from another connection and by probes
    let ends: Vec<usize> = vec![16383, 16384, 65535, 1 << 32, 1 << 53, 1_000_000_000_000_000, usize::MAX];
    let mut shapes: Vec<Vec<(usize, usize)>> = ends.iter().map(|e| vec![(0usize, *e)]).collect();
    shapes.push(vec![(16383, 0)]);                               // start > end
    shapes.push(vec![(300, 300), (100, 199)]);                   // unsorted
    shapes.push(vec![(5, 1_000_000_000_000_000), (7, 9)]);
    shapes.push(vec![(20000, 1 << 40)]);                         // entirely out of range
    for place in ["local", "peer", "tag"] {
        for (i, rs) in shapes.iter().enumerate() {
            for textual in [false, true] {
                // quick: the compressed form of everything, the textual form of every third shape
                if textual && !args.thorough && i % 3 != 0 { continue; }
                st.stats.count(&format!("gen.setcluster-{}-{}", if textual { "text" } else { "compressed" }, place));
                run_child_setcluster(&mut cx, &mut st, textual, place, rs);
            }
        }
    }
    finish_child(st, cx);
}

fn finish_child(mut st: Streams, mut cx: ChildCtx) {
    cx.walls.sort();
    let pct = |p: usize| cx.walls.get((cx.walls.len().saturating_sub(1)) * p / 100).copied().unwrap_or(0) as u64;
    st.stats.extra.insert("wall_ms".into(), json!({"p50": pct(50), "p90": pct(90), "p99": pct(99), "max": pct(100)}));
    st.stats.extra.insert("child_restarts".into(), json!(cx.restarts));
    st.stats.extra.insert("max_peak_rss_growth_bytes".into(), json!(cx.max_rss_growth));
    st.stats.extra.insert("still_served_at_end".into(), json!(cx.proxy.served()));
    st.stats.extra.insert("active_redirection".into(), json!(cx.ar));
    let _ = cx.proxy.child.kill();
    // the private copy of the binary made by `build_proxy_bin`
    if cx.bin.contains(&format!("server_proxy.{}", std::process::id())) { let _ = std::fs::remove_file(&cx.bin); }
    st.finish("hostile-child", RULE_CHILD);
}

fn main() {
    let args = parse_args();
    let mut rng = Rng::new(args.seed);
    let mode = args.extra.get("mode").cloned().unwrap_or_else(|| "inproc".to_string());
    let thorough = args.thorough;
    let _ = thorough;
    // deep (but bounded) recursion of the real parser in this process: a generous stack
    let h = std::thread::Builder::new()
        .stack_size(512 << 20)
        .spawn(move || {
            if mode == "child" { child_stream(&args, &mut rng) } else { inproc_stream(&args, &mut rng) }
        })
        .expect("spawn");
    if h.join().is_err() {
        std::process::exit(101);
    }
}
