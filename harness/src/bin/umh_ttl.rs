//! C19: the real `pttl_to_restore_expire_time` (and, through it, the three transfer paths'
//! RESTORE ttl argument) on boundary values, structured near-integers and random bytes.
use serde_json::json;
use umharness::util::*;
use undermoon::migration::scan_migration::{pttl_to_restore_expire_time, ScanMigrationTask};
use std::pin::Pin;
use std::future::Future;
use std::sync::{Arc, Mutex};
use undermoon::common::cluster::{Range, RangeList, SlotRange, SlotRangeTag};
use undermoon::common::config::AtomicMigrationConfig;
use undermoon::migration::stats::MigrationStats;
use undermoon::protocol::{BulkStr, OptionalMulti, RedisClient, RedisClientError, RedisClientFactory, Resp, RespVec};
use undermoon::proxy::backend::CmdTask;
use undermoon::proxy::command::{CommandError, CommandResult};
use undermoon::proxy::slowlog::TaskEvent;

/// Redis stand-in for the UMSYNC push path (`ScanMigrationTask::handle_sync_task`): answers PTTL and
/// DUMP with scripted replies and records every RESTORE that reaches the destination.
#[derive(Clone)]
struct Script { pttl: RespVec, dump: RespVec, restores: Arc<Mutex<Vec<Vec<Vec<u8>>>>>, dels: Arc<Mutex<usize>> }
struct FakeClient { script: Script }
impl RedisClient for FakeClient {
    fn execute<'s>(&'s mut self, command: OptionalMulti<Vec<Vec<u8>>>)
        -> Pin<Box<dyn Future<Output = Result<OptionalMulti<RespVec>, RedisClientError>> + Send + 's>> {
        let one = |sc: &Script, cmd: &Vec<Vec<u8>>| -> RespVec {
            match cmd.first().map(|c| c.to_ascii_uppercase()).unwrap_or_default().as_slice() {
                b"PTTL" => sc.pttl.clone(),
                b"DUMP" => sc.dump.clone(),
                b"RESTORE" => { sc.restores.lock().unwrap().push(cmd.clone()); Resp::Simple(b"OK".to_vec()) }
                b"DEL" => { *sc.dels.lock().unwrap() += 1; Resp::Integer(b"1".to_vec()) }
                _ => Resp::Error(b"ERR unknown".to_vec()),
            }
        };
        let r = match &command {
            OptionalMulti::Single(c) => OptionalMulti::Single(one(&self.script, c)),
            OptionalMulti::Multi(cs) => OptionalMulti::Multi(cs.iter().map(|c| one(&self.script, c)).collect()),
        };
        Box::pin(async move { Ok(r) })
    }
}
struct FakeFactory { script: Script }
impl RedisClientFactory for FakeFactory {
    type Client = FakeClient;
    fn create_client<'s>(&'s self, _address: String)
        -> Pin<Box<dyn Future<Output = Result<FakeClient, RedisClientError>> + Send + 's>> {
        let c = FakeClient { script: self.script.clone() };
        Box::pin(async move { Ok(c) })
    }
}
struct SyncTask { key: Vec<u8>, reply: Arc<Mutex<Option<String>>> }
impl CmdTask for SyncTask {
    type Pkt = RespVec; type TaskType = u64; type Context = u32;
    fn get_key(&self) -> Option<&[u8]> { Some(&self.key) }
    fn get_slot(&self) -> Option<usize> { None }
    fn set_result(self, _r: CommandResult<RespVec>) {}
    fn get_packet(&self) -> RespVec { Resp::Simple(vec![]) }
    fn get_type(&self) -> u64 { 0 }
    fn get_context(&self) -> u32 { 0 }
    fn set_resp_result(self, result: Result<RespVec, CommandError>) where Self: Sized {
        let s = match result { Ok(Resp::Simple(_)) => "ok".to_string(), Ok(Resp::Error(_)) => "error".to_string(), Ok(_) => "other".to_string(), Err(_) => "cmderr".to_string() };
        *self.reply.lock().unwrap() = Some(s);
    }
    fn log_event(&mut self, _e: TaskEvent) {}
}

fn reply_of(tok: &str) -> Option<RespVec> {
    // i:<hex> integer, b:<hex> bulk, n nil bulk, e error, s simple, a empty array
    let mut it = tok.splitn(2, ':');
    match (it.next()?, it.next()) {
        ("i", Some(h)) => Some(Resp::Integer(unhex(h)?)),
        ("b", Some(h)) => Some(Resp::Bulk(BulkStr::Str(unhex(h)?))),
        ("n", _) => Some(Resp::Bulk(BulkStr::Nil)),
        ("e", _) => Some(Resp::Error(b"ERR x".to_vec())),
        ("s", _) => Some(Resp::Simple(b"OK".to_vec())),
        ("a", _) => Some(Resp::Arr(undermoon::protocol::Array::Arr(vec![]))),
        _ => None,
    }
}

/// run the real UMSYNC push path once; observable: `skip` | `restore <ttl> <data>` | `error`
fn run_sync_path(rt: &tokio::runtime::Runtime, pttl: RespVec, dump: RespVec) -> String {
    let script = Script { pttl, dump, restores: Arc::new(Mutex::new(vec![])), dels: Arc::new(Mutex::new(0)) };
    let factory = Arc::new(FakeFactory { script: script.clone() });
    let slot_range = SlotRange { range_list: RangeList::new(vec![Range(0, 16383)]), tag: SlotRangeTag::None };
    let reply = Arc::new(Mutex::new(None));
    let r2 = reply.clone();
    rt.block_on(async move {
        let task: ScanMigrationTask<SyncTask, FakeFactory> = ScanMigrationTask::new(
            "src:1".to_string(), "dst:1".to_string(), slot_range, factory,
            Arc::new(AtomicMigrationConfig::default()), Arc::new(MigrationStats::default()));
        task.handle_sync_task(SyncTask { key: b"k".to_vec(), reply: r2 }).await;
    });
    let restores = script.restores.lock().unwrap().clone();
    let rep = reply.lock().unwrap().clone().unwrap_or_else(|| "none".to_string());
    match (restores.len(), rep.as_str()) {
        (0, "ok") => "skip".to_string(),
        (1, "ok") => { let c = &restores[0]; format!("restore {} {}", hex(c.get(2).map(|v| v.as_slice()).unwrap_or(b"?")), hex(c.get(3).map(|v| v.as_slice()).unwrap_or(b"?"))) }
        (0, "error") => "error".to_string(),
        (n, r) => format!("unexpected restores={} reply={}", n, r),
    }
}

fn gen_input(rng: &mut Rng, st: &mut Stats) -> Vec<u8> {
    let bounds: [i128; 14] = [
        0, 1, 2, -1, -2, -3, 9, 10,
        i64::MAX as i128, i64::MAX as i128 + 1, i64::MAX as i128 - 1,
        i64::MIN as i128, i64::MIN as i128 - 1, i64::MIN as i128 + 1,
    ];
    match rng.below(8) {
        0 => { st.count("gen.boundary"); let b = *rng.pick(&bounds) + rng.range(-2, 2) as i128; b.to_string().into_bytes() }
        1 => { st.count("gen.small_int"); rng.range(-5, 100000).to_string().into_bytes() }
        2 => { st.count("gen.any_i64"); (rng.next_u64() as i64).to_string().into_bytes() }
        3 => { st.count("gen.signed_prefix");
               let mut v = vec![*rng.pick(&[b'+', b'-', b'0', b' '])];
               v.extend_from_slice(rng.range(0, 99999).to_string().as_bytes()); v }
        4 => { st.count("gen.digits_long");
               let n = rng.range(15, 24) as usize;
               let mut v: Vec<u8> = (0..n).map(|_| b'0' + rng.below(10) as u8).collect();
               if rng.chance(1, 3) { v.insert(0, b'-'); } v }
        5 => { st.count("gen.mutated_int");
               let mut v = rng.range(-1000, 1000000).to_string().into_bytes();
               if !v.is_empty() { let i = rng.below(v.len() as u64) as usize; v[i] = rng.next_u64() as u8; } v }
        6 => { st.count("gen.alphabet");
               let n = rng.range(0, 4) as usize;
               (0..n).map(|_| *rng.pick(&[b'-', b'+', b'0', b'1', b'2', b'9', b'a', b'\r'])).collect() }
        _ => { st.count("gen.random_bytes"); let n = rng.range(0, 12) as usize; rng.bytes(n) }
    }
}

/// The property's oracle on the implementation (independent of the Lean model):
/// PTTL n >= 0 must never yield RESTORE ttl "0" unless... n = -1 (persistent).
fn oracle(input: &[u8], out: &[u8]) -> Option<(&'static str, &'static str)> {
    // interpret the input the way Redis emits PTTL replies: canonical decimal i64
    let s = std::str::from_utf8(input).ok()?;
    let n: i64 = s.parse().ok()?;
    if n.to_string() != s { return None; } // non-canonical: not a Redis PTTL reply
    if n == -1 { return if out == b"0" { None } else { Some(("persistent key got a ttl", "")) }; }
    if n < 0 { return None; } // -2 is filtered by callers; other negatives never produced by Redis
    // n >= 0: key has an expiry; RESTORE ttl must be a positive integer <= max(n,1)
    let o: i64 = std::str::from_utf8(out).ok().and_then(|t| t.parse().ok()).unwrap_or(-1);
    if o >= 1 && o <= n.max(1) { None }
    else if n == 0 && out == b"0" { Some(("PTTL 0 -> RESTORE ttl 0 (key becomes persistent)", "F9")) }
    else { Some(("expiring key restored with a wrong ttl", "")) }
}

fn main() {
    let args = parse_args();
    let mut rng = Rng::new(args.seed);
    let mut s = Streams::new(&args);
    let mut inputs: Vec<Vec<u8>> = vec![];
    if let Some(p) = &args.replay {
        for l in read_lines(p) {
            let mut it = l.split(' ');
            if it.next() == Some("ttl") { if let Some(b) = it.next().and_then(unhex) { inputs.push(b); } }
        }
    } else {
        // fixed corpus first
        for t in ["0", "1", "-1", "-2", "-3", "", "+", "-", "+5", "-0", "00", "9223372036854775807",
                  "9223372036854775808", "-9223372036854775808", "-9223372036854775809", "12a", " 1"] {
            inputs.push(t.as_bytes().to_vec());
        }
        let n = if args.thorough { 1_000_000 } else { 20_000 };
        for _ in 0..n { let v = gen_input(&mut rng, &mut s.stats); inputs.push(v); }
    }
    s.case();
    for inp in inputs {
        let out = pttl_to_restore_expire_time(inp.clone());
        let op = format!("ttl {}", hex(&inp));
        s.op(&op, &hex(&out));
        s.stats.count(if out == b"0" { "out.no_expire" } else { "out.kept" });
        if out != b"0" { s.stats.nontrivial_case(&op); }
        s.stats.sample(json!({"pttl": String::from_utf8_lossy(&inp), "restore_ttl": String::from_utf8_lossy(&out)}));
        if let Some((what, finding)) = oracle(&inp, &out) {
            let c = s.cases;
            s.stats.oracle_failure(c, what, finding, vec![op]);
        }
    }
    // ---- stream 2: the real UMSYNC push path (produce_entries + forward_entries) ----------------------
    let rt = tokio::runtime::Builder::new_current_thread().enable_all().build().expect("rt");
    let mut sync_ops: Vec<(String, String)> = vec![];
    if let Some(p) = &args.replay {
        for l in read_lines(p) {
            let t: Vec<&str> = l.split(' ').collect();
            if let ["sync", a, b] = t.as_slice() { sync_ops.push((a.to_string(), b.to_string())); }
        }
    } else {
        let pttls: Vec<String> = ["0", "1", "-1", "-2", "-3", "1500", "2147483648", "2592000000", "9223372036854775807", "x", ""].iter().map(|t| format!("i:{}", hex(t.as_bytes()))).collect();
        let others = ["n", "e", "s", "a", "b:6162"];
        let dumps = ["b:64756d70", "b:-", "n", "e", "s", "i:31"];
        for p in pttls.iter().map(|s| s.as_str()).chain(others.iter().cloned()) { for d in dumps.iter() { sync_ops.push((p.to_string(), d.to_string())); } }
        let n = if args.thorough { 3000 } else { 300 };
        for _ in 0..n {
            let v = gen_input(&mut rng, &mut s.stats);
            let d = if rng.chance(5, 6) { format!("b:{}", { let k = rng.range(0, 6) as usize; hex(&rng.bytes(k)) }) } else { (*rng.pick(&dumps)).to_string() };
            sync_ops.push((format!("i:{}", hex(&v)), d));
        }
    }
    for (p, d) in sync_ops {
        if let (Some(pr), Some(dr)) = (reply_of(&p), reply_of(&d)) {
            let obs = run_sync_path(&rt, pr.clone(), dr.clone());
            let op = format!("sync {} {}", p, d);
            s.stats.count(&format!("sync.{}", obs.split(' ').next().unwrap_or("?")));
            // oracle: an expiring key (PTTL n >= 0, canonical) with a dump must be restored with 1 <= ttl <= max(n,1);
            // PTTL -1 with ttl 0; PTTL -2 never restored
            if let (Resp::Integer(pb), Resp::Bulk(BulkStr::Str(_))) = (&pr, &dr) {
                if let Ok(txt) = std::str::from_utf8(pb) { if let Ok(n) = txt.parse::<i64>() { if n.to_string() == txt {
                    let ttl: Option<i64> = obs.strip_prefix("restore ").and_then(|r| r.split(' ').next()).and_then(unhex).and_then(|b| String::from_utf8(b).ok()).and_then(|t| t.parse().ok());
                    let bad = match n { -2 => obs != "skip", -1 => ttl != Some(0), n if n >= 0 => !matches!(ttl, Some(t) if t >= 1 && t <= n.max(1)), _ => false };
                    if bad { let c = s.cases; s.stats.oracle_failure(c, &format!("UMSYNC path: PTTL {} with a dump gives {}", n, obs), if n == 0 { "F9" } else { "" }, vec![op.clone()]); }
                    if n >= 0 { s.stats.nontrivial_case(&op); }
                } } }
            }
            s.op(&op, &obs);
        }
    }
    // ---- stream 3: the real pull path (get_data_entry + gen_restore_resp through the cfg hook) ----------
    let mut pull_ops: Vec<(String, String)> = vec![];
    if let Some(p) = &args.replay {
        for l in read_lines(p) {
            let t: Vec<&str> = l.split(' ').collect();
            if let ["pull", a, b] = t.as_slice() { pull_ops.push((a.to_string(), b.to_string())); }
        }
    } else {
        let pttls: Vec<String> = ["0", "1", "-1", "-2", "-3", "1500", "2147483648", "2592000000", "9223372036854775807", "x", ""].iter().map(|t| format!("i:{}", hex(t.as_bytes()))).collect();
        let others = ["n", "e", "s", "a", "b:6162"];
        let dumps = ["b:64756d70", "b:-", "n", "e", "s", "i:31"];
        for d in dumps.iter() { for p in pttls.iter().map(|s| s.as_str()).chain(others.iter().cloned()) { pull_ops.push((d.to_string(), p.to_string())); } }
        let n = if args.thorough { 3000 } else { 300 };
        for _ in 0..n {
            let v = gen_input(&mut rng, &mut s.stats);
            let d = if rng.chance(5, 6) { let k = rng.range(0, 6) as usize; format!("b:{}", hex(&rng.bytes(k))) } else { (*rng.pick(&dumps)).to_string() };
            pull_ops.push((d, format!("i:{}", hex(&v))));
        }
    }
    for (d, p) in pull_ops {
        if let (Some(dr), Some(pr)) = (reply_of(&d), reply_of(&p)) {
            let res = rt.block_on(undermoon::proxy::migration_backend::verif_export::pull_transfer::<undermoon::proxy::session::CmdCtxFactory>(
                b"k".to_vec(), Ok(dr.clone()), Ok(pr.clone())));
            let obs = match res {
                Ok(None) => "skip".to_string(),
                Err(_) => "error".to_string(),
                Ok(Some(Resp::Arr(undermoon::protocol::Array::Arr(el)))) => {
                    let arg = |i: usize| match el.get(i) { Some(Resp::Bulk(BulkStr::Str(b))) => hex(b), _ => "?".to_string() };
                    format!("restore {} {}", arg(2), arg(3))
                }
                Ok(Some(_)) => "unexpected".to_string(),
            };
            let op = format!("pull {} {}", d, p);
            s.stats.count(&format!("pull.{}", obs.split(' ').next().unwrap_or("?")));
            if let (Resp::Integer(pb), Resp::Bulk(BulkStr::Str(_))) = (&pr, &dr) {
                if let Ok(txt) = std::str::from_utf8(pb) { if let Ok(n) = txt.parse::<i64>() { if n.to_string() == txt {
                    let ttl: Option<i64> = obs.strip_prefix("restore ").and_then(|r| r.split(' ').next()).and_then(unhex).and_then(|b| String::from_utf8(b).ok()).and_then(|t| t.parse().ok());
                    let bad = match n { -2 => obs != "skip", -1 => ttl != Some(0), n if n >= 0 => !matches!(ttl, Some(t) if t >= 1 && t <= n.max(1)), _ => false };
                    if bad { let c = s.cases; s.stats.oracle_failure(c, &format!("pull path: PTTL {} with a dump gives {}", n, obs), if n == 0 { "F9" } else { "" }, vec![op.clone()]); }
                    if n >= 0 { s.stats.nontrivial_case(&op); }
                } } }
            }
            s.op(&op, &obs);
        }
    }
    s.finish("ttl", "inputs: corpus + 8 generator classes (boundaries of i64 +-2, signs, long digit strings, mutated ints, random bytes); non-trivial = the ttl is kept (a positive expiry is forwarded); distinct = distinct input bytes");
}
