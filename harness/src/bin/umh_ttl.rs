//! C19: the real `pttl_to_restore_expire_time` (and, through it, the three transfer paths'
//! RESTORE ttl argument) on boundary values, structured near-integers and random bytes.
use serde_json::json;
use umharness::util::*;
use undermoon::migration::scan_migration::pttl_to_restore_expire_time;

fn gen_input(rng: &mut Rng, st: &mut Stats) -> Vec<u8> {
    let bounds: [i128; 14] = [
        0, 1, 2, -1, -2, -3, 9, 10,
        i64::MAX as i128, i64::MAX as i128 + 1, i64::MAX as i128 - 1,
        i64::MIN as i128, i64::MIN as i128 - 1, i64::MIN as i128 + 1,
    ];
    match rng.below(8) {
        0 => { st.count("gen.boundary"); let b = *rng.pick(&bounds) + rng.range(-2, 2) as i128; b.to_string().into_bytes() }
        1 => { st.count("gen.small_int"); rng.range(-5, 100000).to_string().into_bytes() }
        2 => { st.count("gen.any_i64"); (rng.next_u64() as i64).to_string().into_bytes() }
        3 => { st.count("gen.signed_prefix");
               let mut v = vec![*rng.pick(&[b'+', b'-', b'0', b' '])];
               v.extend_from_slice(rng.range(0, 99999).to_string().as_bytes()); v }
        4 => { st.count("gen.digits_long");
               let n = rng.range(15, 24) as usize;
               let mut v: Vec<u8> = (0..n).map(|_| b'0' + rng.below(10) as u8).collect();
               if rng.chance(1, 3) { v.insert(0, b'-'); } v }
        5 => { st.count("gen.mutated_int");
               let mut v = rng.range(-1000, 1000000).to_string().into_bytes();
               if !v.is_empty() { let i = rng.below(v.len() as u64) as usize; v[i] = rng.next_u64() as u8; } v }
        6 => { st.count("gen.alphabet");
               let n = rng.range(0, 4) as usize;
               (0..n).map(|_| *rng.pick(&[b'-', b'+', b'0', b'1', b'2', b'9', b'a', b'\r'])).collect() }
        _ => { st.count("gen.random_bytes"); let n = rng.range(0, 12) as usize; rng.bytes(n) }
    }
}

/// The property's oracle on the implementation (independent of the Lean model):
/// PTTL n >= 0 must never yield RESTORE ttl "0" unless... n = -1 (persistent).
fn oracle(input: &[u8], out: &[u8]) -> Option<(&'static str, &'static str)> {
    // interpret the input the way Redis emits PTTL replies: canonical decimal i64
    let s = std::str::from_utf8(input).ok()?;
    let n: i64 = s.parse().ok()?;
    if n.to_string() != s { return None; } // non-canonical: not a Redis PTTL reply
    if n == -1 { return if out == b"0" { None } else { Some(("persistent key got a ttl", "")) }; }
    if n < 0 { return None; } // -2 is filtered by callers; other negatives never produced by Redis
    // n >= 0: key has an expiry; RESTORE ttl must be a positive integer <= max(n,1)
    let o: i64 = std::str::from_utf8(out).ok().and_then(|t| t.parse().ok()).unwrap_or(-1);
    if o >= 1 && o <= n.max(1) { None }
    else if n == 0 && out == b"0" { Some(("PTTL 0 -> RESTORE ttl 0 (key becomes persistent)", "F9")) }
    else { Some(("expiring key restored with a wrong ttl", "")) }
}

fn main() {
    let args = parse_args();
    let mut rng = Rng::new(args.seed);
    let mut s = Streams::new(&args);
    let mut inputs: Vec<Vec<u8>> = vec![];
    if let Some(p) = &args.replay {
        for l in read_lines(p) {
            let mut it = l.split(' ');
            if it.next() == Some("ttl") { if let Some(b) = it.next().and_then(unhex) { inputs.push(b); } }
        }
    } else {
        // fixed corpus first
        for t in ["0", "1", "-1", "-2", "-3", "", "+", "-", "+5", "-0", "00", "9223372036854775807",
                  "9223372036854775808", "-9223372036854775808", "-9223372036854775809", "12a", " 1"] {
            inputs.push(t.as_bytes().to_vec());
        }
        let n = if args.thorough { 1_000_000 } else { 20_000 };
        for _ in 0..n { let v = gen_input(&mut rng, &mut s.stats); inputs.push(v); }
    }
    s.case();
    for inp in inputs {
        let out = pttl_to_restore_expire_time(inp.clone());
        let op = format!("ttl {}", hex(&inp));
        s.op(&op, &hex(&out));
        s.stats.count(if out == b"0" { "out.no_expire" } else { "out.kept" });
        if out != b"0" { s.stats.nontrivial_case(&op); }
        s.stats.sample(json!({"pttl": String::from_utf8_lossy(&inp), "restore_ttl": String::from_utf8_lossy(&out)}));
        if let Some((what, finding)) = oracle(&inp, &out) {
            let c = s.cases;
            s.stats.oracle_failure(c, what, finding, vec![op]);
        }
    }
    s.finish("ttl", "inputs: corpus + 8 generator classes (boundaries of i64 +-2, signs, long digit strings, mutated ints, random bytes); non-trivial = the ttl is kept (a positive expiry is forwarded); distinct = distinct input bytes");
}
