//! Broker correspondence stream (C01 C04 C06 C10 C12 C13): random operation histories against
//! the real `MetaStore` (src/broker/{store,update,migrate,query}.rs); after every operation the
//! full canonical store, `check_metadata` and a digest of every served view (limits 0..3) are
//! printed; the Lean driver (`umdriver broker`) replays the same lines through the model.
//!
//! Op grammar (tokens separated by one space):
//!   mode ordered                                   (first line of a case: `MetaStore::new(true)`)
//!   add_proxy <addr> <node0> <node1> <host|-> [<index|->]      remove_proxy <addr>
//!   add_cluster <name> <node_num> <choice>         remove_cluster <name>
//!   add_nodes <name> <num> <choice>                scale_up <name> <expected> <choice>
//!   change_num <name> <expected> <choice>          scale_out_num <name> <expected>
//!   del_free <name>   migrate <name>   scale_down <name> <n>   balance <name>
//!   commit <name> <epoch> <ranges> <M|I|N> <clear 0|1>
//!   failover <addr> <replacement|->                config <name> <k=v,k=v>
//!   bump_all <epoch>  recover <epoch>  add_failure <addr> <reporter> <stored ts>
//!   state | check | views <limit> | view <name> <limit> | proxy <addr> <limit>
//! <choice> = `-` or `a,b;c,d;…`: the chunks (proxy pairs) the implementation allocated, in order.
use serde_json::{json, Value};
use std::collections::{BTreeMap, BTreeSet, HashMap};
use std::panic::{catch_unwind, AssertUnwindSafe};
use umharness::broker_support::*;
use umharness::util::*;
use undermoon::broker::verif_export::store::{MetaStore, MetaStoreError};
use undermoon::common::cluster::{ClusterName, MigrationMeta, MigrationTaskMeta, Range, RangeList, SlotRange, SlotRangeTag};
use undermoon::common::config::ClusterConfig;
use std::convert::TryFrom;

struct World {
    store: MetaStore,
    ordered: bool,             // the case runs with `enable_ordered_proxy = true`
    s: Streams,
    case: u64,
    ops: Vec<String>,          // op lines of the current case (for replays)
    last_epochs: BTreeMap<String, (u64, String)>, // C04: addr -> (epoch, content) last served (limit 0)
    max_served: BTreeMap<String, u64>,            // C04: ghost map of the largest epoch ever served per address
    last_global: u64,
    saw_migration: bool,
    saw_failover: bool,
    panicked: bool,
    quiet_views: bool,
    snapshot: Option<MetaStore>,
    recover_floor: Option<u64>,
    view_cache: Vec<Option<Views>>,   // served views of the current store per limit (one computation per step)
}

fn code(e: &MetaStoreError) -> String {
    e.to_code().to_string()
}

fn parse_choice_addrs(before: &BTreeSet<String>, store: &MetaStore, name: &str) -> String {
    let cn = match ClusterName::try_from(name) { Ok(c) => c, Err(_) => return "-".into() };
    match store.clusters.get(&cn) {
        None => "-".into(),
        Some(c) => {
            let v: Vec<String> = c.chunks.iter()
                .filter(|ch| !before.contains(&ch.proxy_addresses[0]) && !before.contains(&ch.proxy_addresses[1]))
                .map(|ch| format!("{},{}", ch.proxy_addresses[0], ch.proxy_addresses[1])).collect();
            if v.is_empty() { "-".into() } else { v.join(";") }
        }
    }
}

fn cluster_proxy_set(store: &MetaStore, name: &str) -> BTreeSet<String> {
    let cn = match ClusterName::try_from(name) { Ok(c) => c, Err(_) => return BTreeSet::new() };
    store.clusters.get(&cn).map(|c| c.chunks.iter().flat_map(|ch| ch.proxy_addresses.iter().cloned()).collect()).unwrap_or_default()
}

fn parse_ranges(s: &str) -> Option<Vec<Range>> {
    if s == "e" { return Some(vec![]); }
    s.split('+').map(|r| { let mut it = r.split('-'); let a = it.next()?.parse().ok()?; let b = it.next()?.parse().ok()?; Some(Range(a, b)) }).collect()
}

impl World {
    fn new(s: Streams) -> Self {
        World { store: MetaStore::new(false), ordered: false, s, case: 0, ops: vec![], last_epochs: BTreeMap::new(), max_served: BTreeMap::new(),
                last_global: 0, saw_migration: false, saw_failover: false, panicked: false, quiet_views: false, snapshot: None, recover_floor: None, view_cache: vec![None, None, None, None] }
    }
    fn new_case(&mut self, ordered: bool) {
        self.flush_case_stats();
        self.store = MetaStore::new(ordered);
        self.ordered = ordered;
        self.case = self.s.case();
        self.ops.clear();
        self.last_epochs.clear();
        self.max_served.clear();
        self.last_global = 0;
        self.saw_migration = false;
        self.saw_failover = false;
        self.panicked = false;
        self.snapshot = None;
        self.recover_floor = None;
        self.s.stats.count(if ordered { "gen.mode.ordered" } else { "gen.mode.normal" });
        if ordered {
            // the mode is fixed at construction; the model selects it with this first line
            self.emit("mode ordered".to_string(), format!("OK g={}", self.store.global_epoch));
        }
    }
    fn is_fresh(&self) -> bool {
        let st = &self.store;
        st.global_epoch == 0 && st.clusters.is_empty() && st.all_proxies.is_empty() && st.failed_proxies.is_empty() && st.failures.is_empty()
    }
    fn flush_case_stats(&mut self) {
        if self.case > 0 && self.saw_migration && self.saw_failover {
            let txt = self.ops.join("\n");
            self.s.stats.nontrivial_case(&txt);
        }
    }
    fn emit(&mut self, op: String, obs: String) {
        self.ops.push(op.clone());
        self.s.op(&op, &obs);
    }
    fn fail(&mut self, what: String, finding: &str) {
        let c = self.case;
        let r = self.ops.clone();
        self.s.stats.count(&format!("oracle.{}", what.split(':').next().unwrap_or("?")));
        self.s.stats.oracle_failure(c, &what, finding, r);
    }

    /// execute one mutating op against the real store; returns the observable
    fn exec(&mut self, toks: &[&str]) -> (String, String) {
        // returns (op line with the implementation's choice filled in, observable)
        let st = &mut self.store;
        let res: Result<(String, String), ()> = catch_unwind(AssertUnwindSafe(|| {
            let g = |st: &MetaStore| format!(" g={}", st.global_epoch);
            let fin = |st: &MetaStore, r: Result<String, MetaStoreError>| match r {
                Ok(extra) => format!("OK{}{}", extra, g(st)),
                Err(e) => format!("ERR {}{}", code(&e), g(st)),
            };
            match toks {
                ["add_proxy", a, n0, n1, h] => {
                    let host = if *h == "-" { None } else { Some(h.to_string()) };
                    let r = st.add_proxy(a.to_string(), [n0.to_string(), n1.to_string()], host, None);
                    (toks.join(" "), fin(st, r.map(|_| String::new())))
                }
                ["add_proxy", a, n0, n1, h, i] => {
                    let host = if *h == "-" { None } else { Some(h.to_string()) };
                    match (if *i == "-" { Some(None) } else { i.parse::<usize>().ok().map(Some) }) {
                        Some(index) => {
                            let r = st.add_proxy(a.to_string(), [n0.to_string(), n1.to_string()], host, index);
                            (toks.join(" "), fin(st, r.map(|_| String::new())))
                        }
                        None => (toks.join(" "), "bad-op".to_string()),
                    }
                }
                ["remove_proxy", a] => { let r = st.remove_proxy(a.to_string()); (toks.join(" "), fin(st, r.map(|_| String::new()))) }
                ["add_cluster", n, k, _] => {
                    let before = cluster_proxy_set(st, n);
                    let existed = !before.is_empty();
                    let r = st.add_cluster(n.to_string(), k.parse().unwrap_or(0), ClusterConfig::default());
                    let choice = if r.is_ok() && !existed { parse_choice_addrs(&before, st, n) } else { "-".into() };
                    (format!("add_cluster {} {} {}", n, k, choice), fin(st, r.map(|_| String::new())))
                }
                ["remove_cluster", n] => { let r = st.remove_cluster(n.to_string()); (toks.join(" "), fin(st, r.map(|_| String::new()))) }
                ["add_nodes", n, k, _] => {
                    let before = cluster_proxy_set(st, n);
                    let r = st.auto_add_nodes(n.to_string(), k.parse().unwrap_or(0));
                    let choice = if r.is_ok() { parse_choice_addrs(&before, st, n) } else { "-".into() };
                    (format!("add_nodes {} {} {}", n, k, choice), fin(st, r.map(|_| String::new())))
                }
                ["scale_up", n, k, _] => {
                    let before = cluster_proxy_set(st, n);
                    let r = st.auto_scale_up_nodes(n.to_string(), k.parse().unwrap_or(0));
                    let choice = if r.is_ok() { parse_choice_addrs(&before, st, n) } else { "-".into() };
                    (format!("scale_up {} {} {}", n, k, choice), fin(st, r.map(|_| String::new())))
                }
                ["change_num", n, k, _] => {
                    // free chunks are deleted first; chunks allocated by a scale-out are appended after the kept ones
                    let kept = ClusterName::try_from(*n).ok().and_then(|cn| st.clusters.get(&cn).map(|c| c.chunks.iter()
                        .filter(|ch| ch.stable_slots.iter().any(|s| s.is_some()) || ch.migrating_slots.iter().any(|m| !m.is_empty())).count())).unwrap_or(0);
                    let r = st.auto_change_node_number(n.to_string(), k.parse().unwrap_or(0));
                    let choice = match (&r, ClusterName::try_from(*n).ok().and_then(|cn| st.clusters.get(&cn))) {
                        (Ok((undermoon::broker::verif_export::store::ScaleOp::ScaleOut, _, _)), Some(c)) => {
                            let v: Vec<String> = c.chunks.iter().skip(kept).map(|ch| format!("{},{}", ch.proxy_addresses[0], ch.proxy_addresses[1])).collect();
                            if v.is_empty() { "-".to_string() } else { v.join(";") }
                        }
                        _ => "-".to_string(),
                    };
                    let r2 = r.map(|(op, _, _)| match op {
                        undermoon::broker::verif_export::store::ScaleOp::NoOp => " 0".to_string(),
                        undermoon::broker::verif_export::store::ScaleOp::ScaleOut => " 1".to_string(),
                        undermoon::broker::verif_export::store::ScaleOp::ScaleDown => " 2".to_string(),
                    });
                    (format!("change_num {} {} {}", n, k, choice), fin(st, r2))
                }
                ["scale_out_num", n, k] => { let r = st.auto_scale_out_node_number(n.to_string(), k.parse().unwrap_or(0)); (toks.join(" "), fin(st, r.map(|_| String::new()))) }
                ["del_free", n] => { let r = st.auto_delete_free_nodes(n.to_string()); (toks.join(" "), fin(st, r.map(|_| String::new()))) }
                ["migrate", n] => { let r = st.migrate_slots(n.to_string()); (toks.join(" "), fin(st, r.map(|_| String::new()))) }
                ["scale_down", n, k] => { let r = st.migrate_slots_to_scale_down(n.to_string(), k.parse().unwrap_or(0)); (toks.join(" "), fin(st, r.map(|_| String::new()))) }
                ["balance", n] => { let r = st.balance_masters(n.to_string()); (toks.join(" "), fin(st, r.map(|_| String::new()))) }
                ["commit", n, e, rs, tag, clear] => {
                    let cn = ClusterName::try_from(*n);
                    let ranges = parse_ranges(rs);
                    match (cn, ranges) {
                        (Ok(cn), Some(ranges)) => {
                            let meta = MigrationMeta { epoch: e.parse().unwrap_or(0), src_proxy_address: "x".into(), src_node_address: "x".into(), dst_proxy_address: "x".into(), dst_node_address: "x".into() };
                            let tagv = match *tag { "M" => SlotRangeTag::Migrating(meta), "I" => SlotRangeTag::Importing(meta), _ => SlotRangeTag::None };
                            let task = MigrationTaskMeta { cluster_name: cn, slot_range: SlotRange { range_list: RangeList::new(ranges), tag: tagv } };
                            let r = st.commit_migration(task, *clear == "1");
                            (toks.join(" "), fin(st, r.map(|_| String::new())))
                        }
                        _ => (toks.join(" "), "bad-op".to_string()),
                    }
                }
                ["failover", a, _] => {
                    let r = st.replace_failed_proxy(a.to_string(), 0);
                    let (choice, r2) = match r {
                        Ok(Some(p)) => (p.get_address().to_string(), Ok(format!(" {}", p.get_address()))),
                        Ok(None) => ("-".to_string(), Ok(" none".to_string())),
                        Err(e) => ("-".to_string(), Err(e)),
                    };
                    (format!("failover {} {}", a, choice), fin(st, r2))
                }
                ["config", n, kv] => {
                    let mut m = HashMap::new();
                    if *kv != "-" { for p in kv.split(',') { let mut it = p.split('='); if let (Some(k), Some(v)) = (it.next(), it.next()) { m.insert(k.to_string(), v.to_string()); } } }
                    let r = st.change_config(n.to_string(), m);
                    (toks.join(" "), fin(st, r.map(|_| String::new())))
                }
                ["bump_all", e] => { let r = st.force_bump_all_epoch(e.parse().unwrap_or(0)); (toks.join(" "), fin(st, r.map(|_| String::new()))) }
                ["recover", e] => { st.recover_epoch(e.parse().unwrap_or(0)); (toks.join(" "), format!("OK{}", g(st))) }
                ["add_failure", a, rep, _] => {
                    let b = st.add_failure(a.to_string(), rep.to_string());
                    let ts = st.failures.get(*a).and_then(|m| m.get(*rep)).cloned().unwrap_or(0);
                    (format!("add_failure {} {} {}", a, rep, ts), format!("OK {}{}", b, g(st)))
                }
                _ => (toks.join(" "), "bad-op".to_string()),
            }
        })).map_err(|_| ());
        match res {
            Ok(x) => x,
            Err(()) => { self.panicked = true; (toks.join(" "), "PANIC".to_string()) }
        }
    }

    /// run a mutating op, print it, then the observation block + oracles
    fn step(&mut self, line: &str) {
        let toks: Vec<&str> = line.split(' ').collect();
        let before_store = self.store.clone();
        let (op, obs) = match toks.as_slice() {
            ["mode", "ordered"] => {
                // `MetaStore::new(true)`; like the model's `Store.setOrdered` this selects the mode only while
                // nothing has happened yet and is a no-op anywhere else in a history
                if self.is_fresh() { self.store = MetaStore::new(true); self.ordered = true; }
                ("mode ordered".to_string(), format!("OK g={}", self.store.global_epoch))
            }
            ["snap"] => { self.snapshot = Some(self.store.clone()); ("snap".to_string(), format!("snap g={}", self.store.global_epoch)) }
            ["restart", _] if self.snapshot.is_some() => {
                // a broker process restarts from the snapshot (real `MetaStore::restore` into a fresh store), then runs
                // epoch recovery through the real `MemoryStorage::recover_epoch` with what `MemBrokerService::recover_epoch`
                // would pass: (largest epoch on any proxy) + 1. The largest proxy epoch is the largest epoch ever served.
                let e = self.max_served.values().cloned().max().unwrap_or(0);
                let mut fresh = MetaStore::new(false);
                let r = fresh.restore(self.snapshot.clone().expect("snapshot"));
                if r.is_err() { ("restart 0".to_string(), "bad-op".to_string()) } else {
                    let shared = std::sync::Arc::new(parking_lot::RwLock::new(fresh));
                    let storage = undermoon::broker::verif_export::storage::MemoryStorage::new(shared.clone());
                    use undermoon::broker::verif_export::storage::MetaStorage;
                    let _ = futures::executor::block_on(storage.recover_epoch(e + 1));
                    self.store = shared.read().clone();
                    self.recover_floor = Some(e);
                    self.s.stats.count("restart.from_snapshot");
                    (format!("restart {}", e + 1), format!("OK g={}", self.store.global_epoch))
                }
            }
            ["push_snap"] if self.snapshot.is_some() => {
                // the snapshot is pushed to the running broker (`PUT /metadata` -> `MetaStore::restore` on the live store):
                // refused when the store is ahead of it, and a refused push must leave the store as it was
                let before = render_store(&self.store);
                let r = self.store.restore(self.snapshot.clone().expect("snapshot"));
                let obs = match &r { Ok(()) => format!("OK g={}", self.store.global_epoch), Err(e) => format!("ERR {} g={}", code(e), self.store.global_epoch) };
                if r.is_err() && render_store(&self.store) != before {
                    self.fail("C13: a refused metadata push (MetaStore::restore answered an error) replaced the store".to_string(), "");
                }
                ("push_snap".to_string(), obs)
            }
            _ => self.exec(&toks),
        };
        let kind = toks[0].to_string();
        self.s.stats.count(&format!("op.{}", kind));
        let outcome = obs.split(' ').take(2).collect::<Vec<_>>().join("_");
        self.s.stats.count(&format!("out.{}.{}", kind, if outcome.starts_with("OK") { "OK".to_string() } else { outcome.clone() }));
        self.emit(op.clone(), obs.clone());
        if self.panicked {
            self.fail(format!("C12: operation panicked: {}", op), "");
            // the same event seen from the properties about that operation: a scaling step that panics cannot complete
            // (C10), a failover that panics promotes nothing (C06)
            if matches!(kind.as_str(), "add_nodes" | "scale_up" | "change_num" | "scale_out_num" | "del_free" | "migrate" | "scale_down" | "commit") {
                self.fail(format!("C10: scaling operation panicked: {}", op), "");
            }
            if kind == "failover" { self.fail(format!("C06: failover panicked: {}", op), ""); }
            return;
        }
        self.observe();
        self.oracles(&kind, &toks, &obs, &before_store);
    }

    fn views(&mut self, l: usize) -> &Views {
        if self.view_cache[l].is_none() {
            // the served-view queries run the real `get_cluster_by_name` / `get_proxy_by_address`; a panic there is a
            // finding of its own, not a reason for the harness to die
            let st = &self.store;
            let r = catch_unwind(AssertUnwindSafe(|| all_views(st, l as u64)));
            let v = match r {
                Ok(v) => v,
                Err(_) => {
                    self.fail(format!("C01: a served view query panicked (limit {})", l), "");
                    Views { clusters: BTreeMap::new(), proxies: BTreeMap::new() }
                }
            };
            self.view_cache[l] = Some(v);
        }
        self.view_cache[l].as_ref().expect("views")
    }
    fn observe(&mut self) {
        self.view_cache = vec![None, None, None, None];
        let st = render_store(&self.store);
        self.emit("state".into(), st);
        let chk = MetaStoreQuery_check(&self.store);
        self.emit("check".into(), format!("{}", chk));
        // model-side only: the invariant packages of the theorems are evaluated on the model state
        self.emit("inv".into(), "inv:ok".into());
        if !self.quiet_views {
            for l in [0usize, 1, 2] {
                let d = fnv(render_all_views(self.views(l)).as_bytes());
                self.emit(format!("views {}", l), format!("{}", d));
            }
        }
    }

    fn oracles(&mut self, kind: &str, toks: &[&str], obs: &str, before: &MetaStore) {
        let store = self.store.clone();
        // ---- C12: accounting -------------------------------------------------------------
        if !MetaStoreQuery_check(&store) {
            self.fail("C12: check_metadata is false".into(), "");
        }
        {
            let mut seen = BTreeSet::new();
            for c in store.clusters.values() { for ch in c.chunks.iter() { for a in ch.proxy_addresses.iter() {
                if !seen.insert(a.clone()) { self.fail(format!("C12: proxy {} occupies two chunk halves", a), ""); }
            } } }
            for (a, p) in store.all_proxies.iter() {
                if p.cluster.is_some() != seen.contains(a) { self.fail(format!("C12: proxy {} occupancy tag disagrees with the chunks", a), ""); }
            }
        }
        if obs.starts_with("OK") && (kind == "add_cluster" || kind == "add_nodes" || kind == "scale_up" || kind == "change_num") {
            let old = cluster_proxy_set(before, toks[1]);
            if let Ok(cn) = ClusterName::try_from(toks[1]) { if let Some(c) = store.clusters.get(&cn) {
                for ch in c.chunks.iter() {
                    // the two-hosts clause is a property of the host-based allocator; ordered mode allocates by index
                    if !store.enable_ordered_proxy && !old.contains(&ch.proxy_addresses[0]) && ch.hosts[0] == ch.hosts[1] {
                        self.fail(format!("C12: new chunk {},{} has both proxies on host {}", ch.proxy_addresses[0], ch.proxy_addresses[1], ch.hosts[0]), "");
                    }
                    for a in ch.proxy_addresses.iter() { if !old.contains(a) {
                        if before.failed_proxies.contains(a) || before.failures.contains_key(a) {
                            self.fail(format!("C06: failed/reported proxy {} was allocated", a), "");
                        }
                    } }
                }
            } }
        }
        if obs.starts_with("ERR") && matches!(kind, "add_cluster" | "add_nodes" | "scale_up" | "del_free" | "config" | "remove_cluster" | "remove_proxy" | "balance" | "commit") {
            // refused ⇒ unchanged except the global epoch
            let mut a = before.clone(); a.global_epoch = 0;
            let mut b = store.clone(); b.global_epoch = 0;
            if render_store(&a) != render_store(&b) { self.fail(format!("C12: refused {} changed the store", kind), ""); }
        }
        // ---- C10: refusal while migrating, release only of empty chunks, balance -----------
        if matches!(kind, "add_nodes" | "scale_up" | "migrate" | "scale_down" | "del_free" | "config" | "change_num") {
            if let Ok(cn) = ClusterName::try_from(toks[1]) { if let Some(c) = before.clusters.get(&cn) { if c.is_migrating() {
                if !obs.starts_with("ERR") { self.fail(format!("C10: {} was not refused while a migration is pending: {}", kind, obs), ""); }
                let mut a = before.clone(); a.global_epoch = 0;
                let mut b = store.clone(); b.global_epoch = 0;
                if render_store(&a) != render_store(&b) { self.fail(format!("C10: refused {} changed the store", kind), ""); }
            } } }
        }
        // C10 commit progress: the descriptor of a pending migration — as reported by its source (M) or by its
        // destination (I) — must be accepted
        if kind == "commit" && toks.len() >= 5 && (toks[4] == "M" || toks[4] == "I") {
            if let Ok(cn) = ClusterName::try_from(toks[1]) { if let Some(c) = before.clusters.get(&cn) {
                let e: u64 = toks[2].parse().unwrap_or(u64::MAX);
                let pending = c.chunks.iter().flat_map(|ch| ch.migrating_slots.iter()).flat_map(|l| l.iter())
                    .any(|m| m.is_migrating && m.meta.epoch == e && render_ranges(&m.range_list) == toks[3]);
                // ... and only such a descriptor: a commit that names no running migration (a delayed duplicate of an
                // earlier commit, a foreign epoch) must be refused and change nothing - every migration is committed once
                if !pending && obs.starts_with("OK") {
                    self.fail(format!("C10: a commit whose descriptor ({} epoch {}) names no running migration was accepted", toks[3], e), "");
                }
                if pending && !obs.starts_with("OK") {
                    self.fail(format!("C10: the descriptor of a pending migration ({} {} tag {}) was not accepted: {}", toks[3], e, toks[4], obs), "");
                }
            } }
        }
        if obs.starts_with("OK") && matches!(kind, "del_free" | "change_num" | "commit") {
            if let Ok(cn) = ClusterName::try_from(toks[1]) { if let (Some(b), Some(a)) = (before.clusters.get(&cn), store.clusters.get(&cn)) {
                let kept: BTreeSet<String> = a.chunks.iter().map(|c| c.proxy_addresses[0].clone()).collect();
                // chunks present before but gone now must have been slot-less just before removal; for commit the
                // slots may have moved first, so evaluate on the post-commit content: removed chunks own nothing now
                for ch in b.chunks.iter() { if !kept.contains(&ch.proxy_addresses[0]) && kind == "del_free" {
                    if ch.stable_slots.iter().any(|s| s.is_some()) || ch.migrating_slots.iter().any(|m| !m.is_empty()) {
                        self.fail(format!("C10: chunk {} released while it still holds slots", ch.proxy_addresses[0]), "");
                    }
                } }
            } }
        }
        for c in store.clusters.values() {
            if let Some(why) = check_balanced(c) { self.fail(format!("C10: cluster {} not balanced after {}: {}", c.name, kind, why), ""); }
            if c.is_migrating() { self.saw_migration = true; }
        }
        // ---- C01: partition in every served view ---------------------------------------------
        // in the long scale chains on 400/800-node clusters only limits 0 and 1 are checked per step
        let limits: &[u64] = if self.quiet_views { &[0, 1] } else { &[0, 1, 2, 3] };
        for l in limits.iter().cloned() {
            let v = { let _ = self.views(l as usize); self.view_cache[l as usize].take().expect("views") };
            for (name, (cv, _)) in v.clusters.iter() {
                if let Some(why) = check_partition(cv) {
                    let f = if why.contains("has two owners") && kind_is_scale_down(before, kind, toks) { "F3" } else { "" };
                    self.fail(format!("C01: cluster {} limit {} after {}: {}", name, l, kind, why), f);
                }
                if let Some(why) = check_proxy_views(cv, &v.proxies) { self.fail(format!("C01: cluster {} limit {}: {}", name, l, why), ""); }
            }
            if l == 0 {
                // ---- C04: epochs ----------------------------------------------------------------
                if kind != "restart" && store.global_epoch < self.last_global { self.fail(format!("C04: global epoch went back {} -> {}", self.last_global, store.global_epoch), ""); }
                self.last_global = store.global_epoch;
                let mut now: BTreeMap<String, (u64, String)> = BTreeMap::new();
                for (a, p) in v.proxies.iter() {
                    let e = p["epoch"].as_u64().unwrap_or(0);
                    let mut content = p.clone(); content["epoch"] = Value::Null;
                    now.insert(a.clone(), (e, content.to_string()));
                }
                if let Some(fl) = self.recover_floor {
                    for (a, (e, _)) in now.iter() { if *e <= fl {
                        self.fail(format!("C13: after recovery with largest proxy epoch {}, {} is served epoch {} (after {})", fl, a, e, kind), "");
                    } }
                }
                for (a, (e, content)) in now.iter() {
                    if let Some((pe, pc)) = self.last_epochs.get(a) {
                        if e < pe { self.fail(format!("C04: epoch served to {} went back {} -> {} after {}", a, pe, e, kind), ""); }
                        else if pc != content && e <= pe { self.fail(format!("C04: view of {} changed without a larger epoch ({} -> {}) after {}", a, pe, e, kind), ""); }
                    } else if let Some(m) = self.max_served.get(a) {
                        if e <= m { self.fail(format!("C04: {} re-registered and served epoch {} <= previously served {}", a, e, m), ""); }
                    }
                    let m = self.max_served.entry(a.clone()).or_insert(0);
                    if *e > *m { *m = *e; }
                }
                self.last_epochs = now;
            }
        }
        // ---- C06: failover keeps ownership, promotes the peer ------------------------------------
        if kind == "failover" && (obs.starts_with("OK") || obs.starts_with("ERR NO_AVAILABLE_RESOURCE")) {
            self.saw_failover = true;
            let failed = toks[1];
            if let Some(cn) = before.all_proxies.get(failed).and_then(|p| p.cluster.clone()) {
                let n = cn.to_string();
                let (b, a) = (before.get_cluster_by_name(&n, 0), store.get_cluster_by_name(&n, 0));
                if let (Some(b), Some(a)) = (b, a) {
                    let (bj, aj) = (serde_json::to_value(&b).unwrap(), serde_json::to_value(&a).unwrap());
                    self.check_failover(failed, &bj, &aj, before, obs);
                }
            }
        }
        // ---- C06 (g): balance_masters leaves chunks with a failed / reported proxy alone ---------------
        if kind == "balance" && obs.starts_with("OK") {
            if let Ok(cn) = ClusterName::try_from(toks[1]) { if let (Some(b), Some(a)) = (before.clusters.get(&cn), store.clusters.get(&cn)) {
                for (cb, ca) in b.chunks.iter().zip(a.chunks.iter()) {
                    let bad = cb.proxy_addresses.iter().any(|p| before.failed_proxies.contains(p) || before.failures.contains_key(p));
                    if bad && ca.role_position != cb.role_position {
                        self.fail(format!("C06: balance_masters reset a chunk with a failed/reported proxy ({},{}: {} -> {})",
                            cb.proxy_addresses[0], cb.proxy_addresses[1], role_letter(cb.role_position), role_letter(ca.role_position)), "");
                    }
                    if bad { self.s.stats.count("balance.chunk_with_bad_proxy"); }
                }
            } }
        }
        // ---- C13: recovery --------------------------------------------------------------------
        if kind == "recover" {
            let e: u64 = toks[1].parse().unwrap_or(0);
            if store.global_epoch < e || store.global_epoch <= before.global_epoch { self.fail("C13: recover_epoch did not raise the global epoch".into(), ""); }
            for c in store.clusters.values() { if c.epoch < e || c.epoch != store.global_epoch { self.fail(format!("C13: cluster {} epoch {} after recovery to {}", c.name, c.epoch, e), ""); } }
        }
    }

    fn check_failover(&mut self, failed: &str, before: &Value, after: &Value, bstore: &MetaStore, obs: &str) {
        // the property speaks about a failover "whose chunk partner is healthy"
        let (partner, role_before) = bstore.clusters.values().flat_map(|c| c.chunks.iter()).find_map(|ch| {
            if ch.proxy_addresses[0] == failed { Some((ch.proxy_addresses[1].clone(), ch.role_position)) }
            else if ch.proxy_addresses[1] == failed { Some((ch.proxy_addresses[0].clone(), ch.role_position)) } else { None }
        }).unwrap_or((String::new(), undermoon::broker::verif_export::store::ChunkRolePosition::Normal));
        if bstore.failed_proxies.contains(&partner) || bstore.failures.contains_key(&partner) {
            self.s.stats.count("failover.partner_unhealthy");
            return;
        }
        self.s.stats.count("failover.partner_healthy");
        let role_was_normal = role_before == undermoon::broker::verif_export::store::ChunkRolePosition::Normal;
        // (b) no node of the failed proxy is master afterwards (whether or not it was replaced)
        for n in after["nodes"].as_array().cloned().unwrap_or_default() {
            if n["proxy_address"].as_str() == Some(failed) && n["repl"]["role"].as_str() == Some("master") {
                self.fail(format!("C06: node {} of failed proxy {} is still master", n["address"], failed), "");
            }
        }
        // peer of each node in the chunk (0<->3, 1<->2) from the served repl peers
        let mut peer_of: BTreeMap<String, String> = BTreeMap::new();
        for n in before["nodes"].as_array().cloned().unwrap_or_default() {
            if let Some(p) = n["repl"]["peers"].get(0) { peer_of.insert(n["address"].as_str().unwrap_or("?").to_string(), p["node_address"].as_str().unwrap_or("?").to_string()); }
        }
        let on_failed: BTreeSet<String> = before["nodes"].as_array().cloned().unwrap_or_default().iter()
            .filter(|n| n["proxy_address"].as_str() == Some(failed)).map(|n| n["address"].as_str().unwrap_or("?").to_string()).collect();
        let (ob, oa) = (owner_map(before), owner_map(after));
        for x in 0..16384 {
            let want = if on_failed.contains(&ob[x]) { peer_of.get(&ob[x]).cloned().unwrap_or_default() } else { ob[x].clone() };
            if oa[x] != want {
                self.fail(format!("C06: failover of {} moved slot {} from {} to {} (expected {})", failed, x, ob[x], oa[x], want), "");
                break;
            }
        }
        // (c) every master has exactly one replica on the other proxy of its chunk, pointing back
        let nodes = after["nodes"].as_array().cloned().unwrap_or_default();
        let by_addr: BTreeMap<String, Value> = nodes.iter().map(|n| (n["address"].as_str().unwrap_or("?").to_string(), n.clone())).collect();
        for n in nodes.iter() {
            let peers = n["repl"]["peers"].as_array().cloned().unwrap_or_default();
            if peers.len() != 1 { self.fail(format!("C06: node {} has {} repl peers", n["address"], peers.len()), ""); continue; }
            let pa = peers[0]["node_address"].as_str().unwrap_or("?");
            match by_addr.get(pa) {
                None => self.fail(format!("C06: peer {} of {} is not in the cluster", pa, n["address"]), ""),
                Some(p) => {
                    if p["repl"]["role"] == n["repl"]["role"] { self.fail(format!("C06: {} and its peer {} have the same role", n["address"], pa), ""); }
                    if p["repl"]["peers"][0]["node_address"] != n["address"] { self.fail(format!("C06: peer records of {} and {} do not point at each other", n["address"], pa), ""); }
                    if p["proxy_address"] == n["proxy_address"] { self.fail(format!("C06: {} and its peer are on the same proxy", n["address"]), ""); }
                }
            }
        }
        // (d) migrations whose addresses changed carry a larger epoch than anything served before
        let collect = |v: &Value| -> BTreeMap<String, Value> {
            let mut m = BTreeMap::new();
            for n in v["nodes"].as_array().cloned().unwrap_or_default() { for sr in n["slots"].as_array().cloned().unwrap_or_default() {
                if let Some(meta) = sr["tag"].get("Migrating") { m.insert(sr["range_list"].to_string(), meta.clone()); }
            } }
            m
        };
        let (mb, ma) = (collect(before), collect(after));
        for (k, a) in ma.iter() { if let Some(b) = mb.get(k) {
            let mut b2 = b.clone(); let mut a2 = a.clone(); b2["epoch"] = Value::Null; a2["epoch"] = Value::Null;
            if a2 != b2 && a["epoch"].as_u64() > Some(bstore.global_epoch) && a["epoch"].as_u64() <= b["epoch"].as_u64() {
                // the epoch counter itself may have been left behind by an earlier step: compare with the record's own old epoch
                self.fail(format!("C06: migration {} changed its addresses but its epoch did not grow ({} -> {})", k, b["epoch"], a["epoch"]), "");
            }
            if a2 != b2 && a["epoch"].as_u64() <= Some(bstore.global_epoch) {
                // replacement of the *failed* side always changes addresses; the epoch must be fresh
                // F2: the chunk was already in First/SecondChunkMaster (earlier failover of the partner, no rebalance)
                let f = if !role_was_normal { "F2" } else { "" };
                self.fail(format!("C06: migration {} changed its addresses but kept epoch {} (<= global epoch {} before the failover)", k, a["epoch"], bstore.global_epoch), f);
            }
        } }
        // C12 replacement host: "replaced by one on a host different from its surviving partner whenever such
        // a host has a free healthy proxy" — ordered mode (StatefulSet) never replaces a proxy: the clause does not apply
        if bstore.enable_ordered_proxy {
            self.s.stats.count("failover.ordered_no_replacement_clause");
            return;
        }
        let fhost = bstore.all_proxies.get(failed).map(|p| p.host.clone()).unwrap_or_default();
        let partner_host = bstore.clusters.values().flat_map(|c| c.chunks.iter()).find_map(|ch| {
            if ch.proxy_addresses[0] == failed { Some(ch.hosts[1].clone()) } else if ch.proxy_addresses[1] == failed { Some(ch.hosts[0].clone()) } else { None }
        }).unwrap_or_default();
        let healthy_free_on = |pred: &dyn Fn(&str) -> bool| bstore.all_proxies.values().any(|p| p.cluster.is_none()
            && !bstore.failed_proxies.contains(&p.proxy_address) && !bstore.failures.contains_key(&p.proxy_address)
            && p.proxy_address != failed && pred(&p.host));
        let third_host = healthy_free_on(&|h| h != partner_host && h != fhost);
        let own_host = fhost != partner_host && healthy_free_on(&|h| h == fhost);
        let new_host: Option<String> = obs.split(' ').nth(1).filter(|a| *a != "none" && obs.starts_with("OK"))
            .and_then(|a| self.store.all_proxies.get(a).map(|p| p.host.clone()));
        let bad = match &new_host { Some(h) => *h == partner_host, None => true };
        if bad && third_host {
            self.fail(format!("C12: failed proxy {} (partner host {}) got replacement on {:?} although another host has a free healthy proxy", failed, partner_host, new_host), "F1");
        } else if bad && own_host {
            // F1b: only the failed proxy's own host has a free healthy proxy; the code never considers that host
            self.fail(format!("C12: failed proxy {} (partner host {}) got replacement on {:?} although its own host {} has a free healthy proxy", failed, partner_host, new_host, fhost), "F1b");
        }
    }
}

#[allow(non_snake_case)]
fn MetaStoreQuery_check(s: &MetaStore) -> bool { s.check().is_ok() }

fn kind_is_scale_down(_before: &MetaStore, kind: &str, _toks: &[&str]) -> bool { kind == "scale_down" || kind == "change_num" || kind == "commit" }

// ---------------------------------------------------------------------------------------------
// generator
// ---------------------------------------------------------------------------------------------

struct Gen { rng: Rng, next_proxy: usize, hosts: usize, big: bool, ordered: bool, stats: Vec<&'static str>,
    /// descriptors of migrations seen pending earlier in this history (for delayed duplicate commits)
    seen_tasks: Vec<(String, u64, String)>, has_snap: bool }

impl Gen {
    /// the `index` token of an `add_proxy` line. Ordered mode: mostly the smallest index no registered proxy
    /// carries (so that the pool stays consecutive and heals after removals), sometimes a duplicate, a gap, an
    /// arbitrary small number or none at all (`MissingIndex`). Normal mode: usually absent (old 5-token form),
    /// sometimes present (the code ignores it and stores 0).
    fn index_token(&mut self, store: &MetaStore) -> Option<String> {
        let used: BTreeSet<usize> = store.all_proxies.values().map(|p| p.index).collect();
        let smallest_missing = (0..).find(|i| !used.contains(i)).unwrap_or(0);
        let max = used.iter().next_back().cloned().unwrap_or(0);
        if self.ordered {
            let r = self.rng.below(100);
            if r < 82 { self.stats.push("gen.index.consecutive"); Some(format!("{}", smallest_missing)) }
            else if r < 89 && !used.is_empty() { self.stats.push("gen.index.duplicate"); let v: Vec<usize> = used.iter().cloned().collect(); Some(format!("{}", self.rng.pick(&v))) }
            else if r < 94 { self.stats.push("gen.index.gap"); Some(format!("{}", max + 2 + self.rng.below(3) as usize)) }
            else if r < 97 { self.stats.push("gen.index.random"); Some(format!("{}", self.rng.below(12))) }
            else if r < 99 { self.stats.push("gen.index.missing"); Some("-".to_string()) }
            else { self.stats.push("gen.index.absent"); None }
        } else if self.rng.chance(1, 7) {
            self.stats.push("gen.index.ignored");
            Some(if self.rng.chance(1, 4) { "-".to_string() } else { format!("{}", self.rng.below(9)) })
        } else { None }
    }
    fn proxy_line(&mut self, store: &MetaStore, host: usize) -> String {
        let j = self.next_proxy; self.next_proxy += 1;
        let explicit = self.rng.chance(3, 4);
        let base = if explicit {
            format!("add_proxy p{}:{} n{}:{} n{}:{} h{}", j, 6000 + j, j, 7000 + 2 * j, j, 7001 + 2 * j, host)
        } else {
            // host derived from the address prefix
            format!("add_proxy h{}:{} n{}:{} n{}:{} -", host, 6000 + j, j, 7000 + 2 * j, j, 7001 + 2 * j)
        };
        match self.index_token(store) { Some(i) => format!("{} {}", base, i), None => base }
    }
    fn pending(store: &MetaStore) -> Vec<(String, u64, String)> {
        let mut v = vec![];
        for c in store.clusters.values() { for ch in c.chunks.iter() { for l in ch.migrating_slots.iter() { for m in l.iter() {
            if m.is_migrating { v.push((c.name.to_string(), m.meta.epoch, render_ranges(&m.range_list))); }
        } } } }
        v.sort();
        v
    }
    fn next_op(&mut self, store: &MetaStore) -> String {
        let names = ["c0", "c1", "c2"];
        let clusters: Vec<String> = { let mut v: Vec<String> = store.clusters.keys().map(|c| c.to_string()).collect(); v.sort(); v };
        let proxies: Vec<String> = { let mut v: Vec<String> = store.all_proxies.keys().cloned().collect(); v.sort(); v };
        let in_cluster: Vec<String> = proxies_in_clusters(store).into_iter().collect();
        let free: Vec<String> = proxies.iter().filter(|a| store.all_proxies[*a].cluster.is_none()).cloned().collect();
        let pend = Self::pending(store);
        for t in pend.iter() { if !self.seen_tasks.contains(t) { self.seen_tasks.push(t.clone()); if self.seen_tasks.len() > 64 { self.seen_tasks.remove(0); } } }
        for _ in 0..50 {
            let rng = &mut self.rng;
            let r = rng.below(100);
            match r {
                0..=17 => { let h = rng.below(self.hosts as u64) as usize; return self.proxy_line(store, h); }
                18..=19 => { if let Some(a) = proxies.first() { if rng.chance(1, 2) { let a = rng.pick(&proxies).clone(); let _ = a; } let a2 = rng.pick(&proxies).clone(); let _ = a;
                    // re-registration (in ordered mode with its own, another or no index: the stored record is kept)
                    let idx = if self.ordered { match rng.below(4) { 0 => " -".to_string(), 1 => format!(" {}", rng.below(9)), _ => format!(" {}", store.all_proxies.get(&a2).map(|p| p.index).unwrap_or(0)) } } else { String::new() };
                    return format!("add_proxy {} x{}:1 x{}:2 -{}", a2, self.next_proxy, self.next_proxy, idx); } }
                20..=21 => { self.next_proxy += 1; let j = self.next_proxy; let idx = if self.ordered && rng.chance(3, 4) { format!(" {}", rng.below(30)) } else { String::new() };
                    // a well-formed proxy address whose two node addresses are equal must be refused (fix bf43b2d, finding F02a)
                    if rng.chance(1, 3) { return format!("add_proxy e{}:6 z{}:1 z{}:1 -{}", j, j, j, idx); }
                    return format!("add_proxy {} y{}:1 y{}:2 -{}", rng.pick(&["nocolon", "a:b:c", ":", "h9:1"]), j, j, idx); }
                22..=29 => { let n = *rng.pick(&names); let k = if self.big { 4 * rng.range(1, 40) } else { *rng.pick(&[4i64, 4, 8, 8, 12, 16, 6, 0]) }; return format!("add_cluster {} {} -", n, k); }
                30..=37 => { if !clusters.is_empty() { let n = rng.pick(&clusters).clone(); let cur = store.clusters.values().find(|c| c.name.to_string() == n).map(|c| c.chunks.len() * 4).unwrap_or(4) as i64;
                    let k = if self.big { cur + 4 * rng.range(1, 30) } else { cur + *rng.pick(&[4i64, 4, 8, 12, 2, 0]) };
                    return match rng.below(3) { 0 => format!("scale_up {} {} -", n, k), 1 => format!("add_nodes {} {} -", n, k - cur), _ => format!("change_num {} {} -", n, k) }; } }
                38..=45 => { if !clusters.is_empty() { let n = rng.pick(&clusters).clone(); return format!("migrate {}", n); } }
                46..=53 => { if !clusters.is_empty() { let n = rng.pick(&clusters).clone(); let cur = store.clusters.values().find(|c| c.name.to_string() == n).map(|c| c.chunks.len() * 4).unwrap_or(4) as i64;
                    let k = if cur > 4 { 4 * rng.range(1, cur / 4 - 1).max(1) } else { *rng.pick(&[0i64, 4, 6]) };
                    return if rng.chance(1, 2) { format!("scale_down {} {}", n, k) } else { format!("change_num {} {} -", n, k) }; } }
                // a delayed duplicate of an earlier commit (HTTP retry, stalled second coordinator): the descriptor of a
                // migration that is no longer pending - often while a later migration of the same ranges is running
                54..=55 if !self.seen_tasks.is_empty() => { let t = rng.pick(&self.seen_tasks).clone(); if !pend.contains(&t) { self.stats.push("gen.commit.delayed_duplicate");
                    return format!("commit {} {} {} {} {}", t.0, t.1, t.2, *rng.pick(&["M", "I"]), if rng.chance(1, 2) { "1" } else { "0" }); } }
                54..=71 => { if !pend.is_empty() { let (n, e, rs) = rng.pick(&pend).clone();
                    let tag = *rng.pick(&["M", "M", "I", "I", "I", "N"]); let clear = if rng.chance(2, 3) { "1" } else { "0" };
                    // stale / foreign variants
                    return match rng.below(12) { 0 => format!("commit {} {} {} {} {}", n, e + 1, rs, tag, clear), 1 => format!("commit {} {} 0-0 {} {}", n, e, tag, clear),
                        2 => format!("commit zz {} {} {} {}", e, rs, tag, clear), _ => format!("commit {} {} {} {} {}", n, e, rs, tag, clear) }; }
                    else if rng.chance(1, 6) && !clusters.is_empty() { return format!("commit {} 1 0-99 M 1", rng.pick(&clusters)); } }
                72..=79 => { if !in_cluster.is_empty() && rng.chance(4, 5) { return format!("failover {} -", rng.pick(&in_cluster)); } else if !proxies.is_empty() { return format!("failover {} -", rng.pick(&proxies)); } else { return "failover nosuch:1 -".into(); } }
                80..=83 => { if !clusters.is_empty() { return format!("balance {}", rng.pick(&clusters)); } }
                84..=86 => { if !clusters.is_empty() { let n = rng.pick(&clusters).clone();
                    let kv = *rng.pick(&["compression_strategy=allow_all", "compression_strategy=set_get_only", "COMPRESSION_STRATEGY=Disabled", "migration_scan_count=0", "migration_scan_count=32", "migration_max_blocking_time=+77", "migration_scan_interval=-1", "nosuch=1", "migration_=1", "migration_max_migration_time=18446744073709551616", "migration_scan_interval=9,migration_scan_count=3"]);
                    return format!("config {} {}", n, kv); } }
                87..=89 => { if !clusters.is_empty() { return format!("del_free {}", rng.pick(&clusters)); } }
                90..=91 => { if !clusters.is_empty() && rng.chance(1, 3) { return format!("remove_cluster {}", rng.pick(&clusters)); } }
                92..=93 => { if !free.is_empty() { return format!("remove_proxy {}", rng.pick(&free)); } else if !proxies.is_empty() { return format!("remove_proxy {}", rng.pick(&proxies)); } }
                94..=96 => { if !proxies.is_empty() { let a = if rng.chance(3, 4) && !free.is_empty() { rng.pick(&free).clone() } else { rng.pick(&proxies).clone() }; return format!("add_failure {} r{} 0", a, rng.below(3)); } }
                97 => { return format!("bump_all {}", (store.global_epoch as i64 + rng.range(-2, 20)).max(0)); }
                98 => { return match rng.below(4) { 0 => { self.has_snap = true; "snap".to_string() }, 1 => "restart 0".to_string(), 2 if self.has_snap => "push_snap".to_string(), 2 => { self.has_snap = true; "snap".to_string() }, _ => format!("recover {}", (store.global_epoch as i64 + rng.range(-5, 50)).max(0)) }; }
                _ => { if rng.chance(1, 3) { self.has_snap = true; return "snap".to_string(); } if self.has_snap && rng.chance(1, 3) { return "push_snap".to_string(); } if rng.chance(1, 2) { return "restart 0".to_string(); } if !clusters.is_empty() { return format!("scale_out_num {} {}", rng.pick(&clusters), 4 * rng.range(1, 6)); } }
            }
        }
        "add_proxy p0:1 n:1 n:2 h0".into()
    }
}

fn flush_gen_stats(w: &mut World, g: &mut Gen) {
    for k in g.stats.drain(..) { w.s.stats.count(k); }
}

fn run_case(w: &mut World, g: &mut Gen, len: usize) {
    // about a quarter of the cases run with `MetaStore::new(true)` (ordered-proxy mode)
    g.ordered = g.rng.chance(1, 4);
    w.new_case(g.ordered);
    g.next_proxy = 0;
    g.seen_tasks.clear();
    g.has_snap = false;
    g.hosts = g.rng.range(2, 7) as usize;
    // seed some resources so that most cases reach clusters quickly
    let initial = if g.big { g.rng.range(40, 500) } else { g.rng.range(0, 14) } as usize;
    let was_quiet = w.quiet_views;
    if g.big { w.quiet_views = true; }
    for i in 0..initial {
        let h = if g.rng.chance(1, 5) { 0 } else { i % g.hosts };
        let l = g.proxy_line(&w.store, h);
        // registrations of the initial pool are not interesting one by one: print without the observation block
        let toks: Vec<&str> = l.split(' ').collect();
        let (op, obs) = w.exec(&toks);
        w.emit(op, obs);
    }
    w.quiet_views = was_quiet;
    w.observe();
    for _ in 0..len {
        let l = g.next_op(&w.store);
        w.step(&l);
        if w.panicked { break; }
    }
    flush_gen_stats(w, g);
}

/// DESIGN §7 F3 region: a long chain of scale-downs on a large cluster, commits in order
fn run_scale_chain(w: &mut World, g: &mut Gen, ordered: bool, start_nodes: usize, targets: &[usize]) {
    w.new_case(ordered);
    w.quiet_views = true;
    g.next_proxy = 0;
    let proxies = start_nodes / 2;
    for i in 0..proxies + 8 {
        let l = if ordered {
            // ordered mode: proxy `i` carries index `i` (hosts are irrelevant to the allocation)
            format!("add_proxy p{}:{} n{}:{} n{}:{} h{} {}", i, 6000 + i, i, 7000 + 2 * i, i, 7001 + 2 * i, i % 6, i)
        } else {
            format!("add_proxy p{}:{} n{}:{} n{}:{} h{}", i, 6000 + i, i, 7000 + 2 * i, i, 7001 + 2 * i, i % 6)
        };
        let toks: Vec<&str> = l.split(' ').collect();
        let (op, obs) = w.exec(&toks);
        w.emit(op, obs);
    }
    w.step(&format!("add_cluster big {} -", start_nodes));
    for t in targets {
        if w.panicked { return; }
        let cur = w.store.clusters.values().next().map(|c| c.chunks.len() * 4).unwrap_or(0);
        if *t < cur { w.step(&format!("scale_down big {}", t)); } else if *t > cur { w.step(&format!("scale_up big {} -", t)); w.step("migrate big"); } else { continue; }
        loop {
            let pend = Gen::pending(&w.store);
            if pend.is_empty() || w.panicked { break; }
            let (n, e, rs) = pend[g.rng.below(pend.len() as u64) as usize].clone();
            w.step(&format!("commit {} {} {} M 1", n, e, rs));
        }
    }
    w.quiet_views = false;
}

fn main() {
    std::panic::set_hook(Box::new(|_| {}));
    let args = parse_args();
    let s = Streams::new(&args);
    let mut w = World::new(s);
    let mut g = Gen { rng: Rng::new(args.seed), next_proxy: 0, hosts: 4, big: false, ordered: false, stats: vec![], seen_tasks: vec![], has_snap: false };
    if let Some(p) = &args.replay {
        w.new_case(false);
        for l in read_lines(p) {
            if l.starts_with('#') || l.starts_with("case ") { continue; }
            let k = l.split(' ').next().unwrap_or("");
            if matches!(k, "state" | "check" | "inv" | "views" | "view" | "proxy") { continue; }
            // `@<cluster>.<chunk>.<half>` names the proxy currently in that chunk half (allocation is nondeterministic)
            let l = l.split(' ').map(|t| {
                if let Some(r) = t.strip_prefix("@h.") {
                    // `@h.<cluster>.<host>`: the (alphabetically first) proxy of that cluster on that host
                    let ps: Vec<&str> = r.split('.').collect();
                    if let [c, h] = ps.as_slice() {
                        if let Ok(cn) = ClusterName::try_from(*c) {
                            let mut v: Vec<String> = w.store.clusters.get(&cn).map(|c| c.chunks.iter().flat_map(|ch| {
                                ch.proxy_addresses.iter().cloned().zip(ch.hosts.iter().cloned()).collect::<Vec<_>>() })
                                .filter(|(_, host)| host == h).map(|(a, _)| a).collect()).unwrap_or_default();
                            v.sort();
                            if let Some(a) = v.first() { return a.clone(); }
                        }
                    }
                } else if let Some(r) = t.strip_prefix('@') {
                    let ps: Vec<&str> = r.split('.').collect();
                    if let [c, i, h] = ps.as_slice() {
                        if let (Ok(cn), Ok(i), Ok(h)) = (ClusterName::try_from(*c), i.parse::<usize>(), h.parse::<usize>()) {
                            if let Some(a) = w.store.clusters.get(&cn).and_then(|c| c.chunks.get(i)).and_then(|ch| ch.proxy_addresses.get(h)) { return a.clone(); }
                        }
                    }
                }
                t.to_string()
            }).collect::<Vec<_>>().join(" ");
            // replay macros: `commit_all` commits every pending migration (first pending first), `add_proxies <n> <hosts>`
            // registers n proxies p0.. round-robin on the given number of hosts; both expand into ordinary op lines
            if l == "commit_all" {
                loop {
                    let pend = Gen::pending(&w.store);
                    if pend.is_empty() || w.panicked { break; }
                    let (n, e, rs) = pend[0].clone();
                    w.step(&format!("commit {} {} {} M 1", n, e, rs));
                }
                continue;
            }
            if let Some(r) = l.strip_prefix("add_proxies ") {
                let v: Vec<usize> = r.split(' ').filter_map(|x| x.parse().ok()).collect();
                if let [n, hosts] = v.as_slice() {
                    w.quiet_views = true;
                    for i in 0..*n {
                        let line = format!("add_proxy p{}:{} n{}:{} n{}:{} h{}", i, 6000 + i, i, 7000 + 2 * i, i, 7001 + 2 * i, i % hosts.max(&1));
                        let toks: Vec<&str> = line.split(' ').collect();
                        let (op, obs) = w.exec(&toks);
                        w.emit(op, obs);
                    }
                }
                continue;
            }
            w.step(&l);
            if w.panicked { break; }
        }
    } else {
        let (cases, len) = if args.thorough { (700, 60) } else { (220, 40) };
        for _ in 0..cases { run_case(&mut w, &mut g, len); }
        // larger clusters (fewer, longer)
        g.big = true;
        let big_cases = if args.thorough { 10 } else { 3 };
        for _ in 0..big_cases { run_case(&mut w, &mut g, 30); }
        g.big = false;
        // scale chains through the region where destinations already hold their final count
        if args.thorough {
            run_scale_chain(&mut w, &mut g, false, 400, &[396, 368, 364]);
            run_scale_chain(&mut w, &mut g, false, 800, &[796]);
            // scale-out through the region where source masters already hold exactly their final count (from 91 chunks on)
            run_scale_chain(&mut w, &mut g, false, 360, &[364, 368]);
            run_scale_chain(&mut w, &mut g, true, 200, &[196, 100, 96, 120]);
        } else {
            run_scale_chain(&mut w, &mut g, false, 64, &[60, 56, 28, 24, 8, 4, 16, 12]);
            run_scale_chain(&mut w, &mut g, true, 32, &[28, 24, 8, 16, 12]);
        }
    }
    w.flush_case_stats();
    let sample_ops: Vec<String> = w.ops.iter().take(12).cloned().collect();
    w.s.stats.sample(json!({"last_case_first_ops": sample_ops}));
    w.s.finish("broker", "random operation histories over MetaStore, about a quarter of them in ordered-proxy mode (MetaStore::new(true): add_proxy with an index — mostly consecutive, sometimes duplicate/gap/arbitrary/missing —, one cluster, index-ordered allocation, failover without replacement) (register/remove proxies on 2-7 hosts, create/remove clusters, scale out/in incl. the convenience API, commits in random order incl. stale/foreign descriptors, failovers of random proxies, balance, config, epoch bump/recovery, failure reports); after every op: full store, check_metadata, digest of all served views for limits 0,1,2; non-trivial = a history that reached a pending migration AND a failover; distinct = distinct op sequences");
}
